//! Kani harnesses (status K: loop-free, full input domain => complete, not bounded).
//! `Array::to_range` is a default trait method of /repo (src/array/traits.rs); it only reads
//! `self.len()`, so a length-only implementor exercises the real body for every length.
use core::ops::Range;
use open_hypergraphs::array::vec::{VecArray, VecKind};
use open_hypergraphs::array::{Array, ArrayKind};

#[derive(Clone)]
pub struct LenOnly(pub usize);

impl Array<VecKind, u8> for LenOnly {
    fn empty() -> Self { LenOnly(0) }
    fn len(&self) -> usize { self.0 }
    fn from_slice(_s: &[u8]) -> Self { unimplemented!() }
    fn concatenate(&self, _o: &Self) -> Self { unimplemented!() }
    fn fill(_x: u8, _n: usize) -> Self { unimplemented!() }
    fn get(&self, _i: usize) -> u8 { unimplemented!() }
    fn get_range<R: core::ops::RangeBounds<usize>>(&self, _rb: R) -> &[u8] { unimplemented!() }
    fn set_range<R: core::ops::RangeBounds<usize>>(&mut self, _rb: R, _v: &<VecKind as ArrayKind>::Type<u8>) { unimplemented!() }
    fn gather(&self, _idx: &[usize]) -> Self { unimplemented!() }
    fn scatter(&self, _idx: &[usize], _n: usize) -> Self { unimplemented!() }
    fn scatter_assign(&mut self, _ixs: &VecArray<usize>, _values: Self) { unimplemented!() }
    fn scatter_assign_constant(&mut self, _ixs: &VecArray<usize>, _arg: u8) { unimplemented!() }
}

pub fn check_all_forms(n: usize, a: usize, b: usize) {
    let x = LenOnly(n);
    assert!(x.to_range(..) == Range { start: 0, end: n });
    assert!(x.to_range(a..) == Range { start: a, end: n });
    assert!(x.to_range(..b) == Range { start: 0, end: b });
    assert!(x.to_range(a..b) == Range { start: a, end: b });
    if b < usize::MAX {
        assert!(x.to_range(..=b) == Range { start: 0, end: b + 1 });
        assert!(x.to_range(a..=b) == Range { start: a, end: b + 1 });
    }
}

#[cfg(kani)]
#[kani::proof]
fn to_range_all_forms() {
    let n: usize = kani::any();
    let a: usize = kani::any();
    let b: usize = kani::any();
    check_all_forms(n, a, b);
}

#[cfg(test)]
mod t {
    #[test]
    fn smoke() { super::check_all_forms(5, 1, 4); }
}
