#!/usr/bin/env python3
"""developer loop: assemble the generated file and run Verus, print errors"""
import sys, os, json
sys.path.insert(0, os.path.dirname(os.path.abspath(__file__)))
from vlib import overlay, gen, verus
only = None
args = sys.argv[1:]
extra = []
mods = [a for a in args if not a.startswith('-')]
for m in mods:
    extra += ['--verify-only-module', m]
plan = overlay.load(os.environ.get('VERIF_CONTRACTS', '/verif/contracts'))
g = gen.assemble(plan, repo=os.environ.get('VERIF_REPO', '/repo'), out_path=os.environ.get('VERIF_GEN', '/verif/gen/ohg_verus.rs'))
for fid, err in g['lost']:
    print('LOST', fid, err)
res = verus.run_verus(os.environ.get('VERIF_GEN', '/verif/gen/ohg_verus.rs'), extra=extra)
c = verus.classify(res, g['linemap'])
if res['json'] is None:
    print(res.get('stderr_tail'))
for e in c['compile_errors'][:15]:
    print('COMPILE', e['fid'], e['line']); print(e['rendered'][:1500])
for e in c['failures'][:25]:
    print('FAIL', e['fid'], e['clause'], e['line']); print(e['rendered'][:1200])
for e in c['resource']:
    print('RESOURCE', e)
bd = verus.breakdown(res)
slow = sorted(bd, key=lambda x: -(x['time_us'] or 0))[:8]
print('verified ok:', sum(1 for b in bd if b['success']), 'failed:', sum(1 for b in bd if not b['success']), 'wall %.1fs' % res['wall_s'])
print('slowest:', [(b['function'].split('::',1)[-1], (b['time_us'] or 0)//1000) for b in slow])
print((res['json'] or {}).get('verification-results'))
