//! Bookkeeping shared by all bounded checks: counting evaluations, distinct non-trivial inputs,
//! failures (with the clause that failed and the concrete input) and samples.
use serde_json::{json, Value};
use std::collections::hash_map::DefaultHasher;
use std::collections::HashSet;
use std::hash::{Hash, Hasher};
use std::panic::{catch_unwind, AssertUnwindSafe};

pub struct Rng(pub u64);
impl Rng {
    pub fn new(seed: u64) -> Self {
        Rng(seed.wrapping_mul(0x9E3779B97F4A7C15) ^ 0xD1B54A32D192ED03)
    }
    pub fn next(&mut self) -> u64 {
        // splitmix64
        self.0 = self.0.wrapping_add(0x9E3779B97F4A7C15);
        let mut z = self.0;
        z = (z ^ (z >> 30)).wrapping_mul(0xBF58476D1CE4E5B9);
        z = (z ^ (z >> 27)).wrapping_mul(0x94D049BB133111EB);
        z ^ (z >> 31)
    }
    /// uniform in 0..n (n > 0)
    pub fn below(&mut self, n: usize) -> usize {
        (self.next() % (n as u64)) as usize
    }
    pub fn range(&mut self, lo: usize, hi_incl: usize) -> usize {
        lo + self.below(hi_incl - lo + 1)
    }
    pub fn chance(&mut self, num: usize, den: usize) -> bool {
        self.below(den) < num
    }
    pub fn vec_below(&mut self, len: usize, n: usize) -> Vec<usize> {
        (0..len).map(|_| self.below(n)).collect()
    }
}

pub struct Failure {
    pub check: String,
    pub clause: String,
    pub input: Value,
    pub observed: Value,
    pub expected: Value,
}

pub struct Ctx {
    pub property: String,
    pub tier: String,
    pub seed: u64,
    pub rng: Rng,
    pub evaluations: u64,
    pub distinct: HashSet<u64>,
    pub failures: Vec<Failure>,
    pub samples: Vec<Value>,
    pub per_check: std::collections::BTreeMap<String, u64>,
    pub notes: Vec<String>,
    /// when replaying: only this (check, input)
    pub replay: Option<(String, Value)>,
}

impl Ctx {
    pub fn new(property: &str, tier: &str, seed: u64) -> Self {
        Ctx {
            property: property.into(),
            tier: tier.into(),
            seed,
            rng: Rng::new(seed),
            evaluations: 0,
            distinct: HashSet::new(),
            failures: vec![],
            samples: vec![],
            per_check: Default::default(),
            notes: vec![],
            replay: None,
        }
    }
    pub fn thorough(&self) -> bool {
        self.tier == "thorough"
    }
    /// number of random cases: quick / thorough
    pub fn budget(&self, quick: usize, thorough: usize) -> usize {
        if self.thorough() {
            thorough
        } else {
            quick
        }
    }
    /// record one evaluated case; `nontrivial` by the check's stated rule
    pub fn case(&mut self, check: &str, input: &Value, nontrivial: bool) {
        self.evaluations += 1;
        *self.per_check.entry(check.to_string()).or_insert(0) += 1;
        if nontrivial {
            let mut h = DefaultHasher::new();
            check.hash(&mut h);
            input.to_string().hash(&mut h);
            self.distinct.insert(h.finish());
        }
        let n = self.per_check[check];
        if n == 3 && self.samples.len() < 40 {
            self.samples.push(json!({"check": check, "input": input}));
        }
    }
    pub fn fail(&mut self, check: &str, clause: &str, input: &Value, observed: Value, expected: Value) {
        if self.failures.len() < 50 {
            self.failures.push(Failure {
                check: check.into(),
                clause: clause.into(),
                input: input.clone(),
                observed,
                expected,
            });
        }
    }
    pub fn expect(&mut self, cond: bool, check: &str, clause: &str, input: &Value, observed: Value, expected: Value) -> bool {
        if !cond {
            self.fail(check, clause, input, observed, expected);
        }
        cond
    }
    pub fn report(&self, wall_s: f64) -> Value {
        json!({
            "property": self.property, "tier": self.tier, "seed": self.seed,
            "evaluations": self.evaluations, "distinct_nontrivial": self.distinct.len(),
            "per_check": self.per_check,
            "failures": self.failures.iter().map(|f| json!({"check": f.check, "clause": f.clause, "input": f.input,
                         "observed": f.observed, "expected": f.expected})).collect::<Vec<_>>(),
            "samples": self.samples, "notes": self.notes, "wall_s": wall_s,
        })
    }
}

/// run `f`, turning a panic into Err(message)
pub fn guard<T>(f: impl FnOnce() -> T) -> Result<T, String> {
    catch_unwind(AssertUnwindSafe(f)).map_err(|e| {
        if let Some(s) = e.downcast_ref::<String>() {
            s.clone()
        } else if let Some(s) = e.downcast_ref::<&str>() {
            s.to_string()
        } else {
            "panic".to_string()
        }
    })
}

pub fn silence_panics() {
    std::panic::set_hook(Box::new(|_| {}));
}
