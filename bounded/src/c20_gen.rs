//! Input generators for the C20 checks: corner lists, small exhaustive families, seeded random.
use crate::ctx::Rng;
use crate::model::{self, Bounds, M};

pub const B3: Bounds = Bounds { nodes: 4, edges: 3, arity: 2, iface: 3, labels: 3 };
pub const LARGE: Bounds = Bounds { nodes: 8, edges: 5, arity: 3, iface: 5, labels: 2 };
pub const B3S: Bounds = Bounds { nodes: 3, edges: 2, arity: 2, iface: 2, labels: 3 };

pub fn shuffle(r: &mut Rng, n: usize) -> Vec<usize> {
    let mut p: Vec<usize> = (0..n).collect();
    for i in (1..n).rev() {
        let j = r.below(i + 1);
        p.swap(i, j);
    }
    p
}

/// renumber nodes (old v -> pn[v]) and operations (old e -> pe[e])
pub fn permute(m: &M, pn: &[usize], pe: &[usize]) -> M {
    let n = m.w.len();
    let k = m.x.len();
    let mut w = vec![0u8; n];
    for v in 0..n {
        w[pn[v]] = m.w[v];
    }
    let mp = |l: &Vec<usize>| -> Vec<usize> { l.iter().map(|&v| pn[v]).collect() };
    let mut x = vec![0u8; k];
    let mut src = vec![vec![]; k];
    let mut tgt = vec![vec![]; k];
    for e in 0..k {
        x[pe[e]] = m.x[e];
        src[pe[e]] = mp(&m.src[e]);
        tgt[pe[e]] = mp(&m.tgt[e]);
    }
    M { w, x, src, tgt, s: mp(&m.s), t: mp(&m.t) }
}

pub fn random_permuted(r: &mut Rng, m: &M) -> M {
    let pn = shuffle(r, m.w.len());
    let pe = shuffle(r, m.x.len());
    permute(m, &pn, &pe)
}

fn hg(w: Vec<u8>, edges: Vec<(u8, Vec<usize>, Vec<usize>)>, s: Vec<usize>, t: Vec<usize>) -> M {
    M { w, x: edges.iter().map(|e| e.0).collect(), src: edges.iter().map(|e| e.1.clone()).collect(), tgt: edges.iter().map(|e| e.2.clone()).collect(), s, t }
}

/// corner diagrams (in addition to model::corner_models)
pub fn corners() -> Vec<M> {
    let mut v = model::corner_models();
    v.extend(vec![
        // parallel connections with multiplicity larger than the number of nodes / operations, cyclic
        hg(vec![0, 0], vec![(10, vec![0], vec![1, 1, 1, 1, 1]), (11, vec![1, 1, 1, 1, 1], vec![0])], vec![0], vec![1]),
        // the same, acyclic
        hg(vec![0, 0, 0], vec![(11, vec![1, 1, 1, 1], vec![2]), (10, vec![0], vec![1, 1, 1, 1])], vec![0], vec![2]),
        // one node, one operation, multiplicity 5 self loop
        hg(vec![1], vec![(10, vec![0; 5], vec![0; 5])], vec![], vec![0, 0]),
        // operation-free diagrams with non-identity wiring
        model::twist(&[0], &[1]),
        model::twist(&[0, 1], &[1]),
        hg(vec![0, 0], vec![], vec![1, 0, 1], vec![0, 0]),
        hg(vec![0, 1, 0], vec![], vec![2, 0], vec![1, 1, 2]),
        hg(vec![0, 0, 0], vec![], vec![], vec![2, 1, 0]),
        // dangling / isolated nodes next to a loop
        hg(vec![0, 1, 0], vec![(10, vec![0], vec![0])], vec![1], vec![]),
        // zero-arity operations only, no nodes
        hg(vec![], vec![(10, vec![], vec![]), (11, vec![], vec![]), (10, vec![], vec![])], vec![], vec![]),
        // a 3-cycle with a tail downstream of it and a detached self loop
        hg(vec![0, 0, 0, 0, 1], vec![(10, vec![0], vec![1]), (11, vec![1], vec![2]), (10, vec![2], vec![0]), (11, vec![2], vec![3]), (12, vec![4], vec![4])], vec![0], vec![3]),
        // chain of six operations numbered against the flow
        hg(vec![0; 7], (0..6).map(|j| (10 + (j % 2) as u8, vec![5 - j], vec![6 - j])).collect(), vec![0], vec![6]),
        // diamond
        hg(vec![0, 1, 1, 0, 0, 2], vec![(13, vec![3, 4], vec![5]), (11, vec![1], vec![3]), (11, vec![2], vec![4]), (12, vec![0], vec![1, 2])], vec![0], vec![5]),
        // producer / consumer with zero-arity sides and shared node
        hg(vec![0, 0], vec![(10, vec![], vec![0]), (11, vec![0], vec![]), (12, vec![0, 0], vec![1])], vec![], vec![1, 0]),
        // two parallel identical operations between the same nodes
        hg(vec![0, 0], vec![(10, vec![0], vec![1]), (10, vec![0], vec![1])], vec![0, 0], vec![1]),
    ]);
    v
}

/// all operation-free diagrams on <= 2 nodes (one label) with interface lists of length <= 2
pub fn tiny_spiders() -> Vec<M> {
    let mut out = vec![];
    for n in 0..=2usize {
        let lists = short_lists(n, 2);
        for s in &lists {
            for t in &lists {
                out.push(M { w: vec![0; n], x: vec![], src: vec![], tgt: vec![], s: s.clone(), t: t.clone() });
            }
        }
    }
    out
}

/// all lists over 0..n of length <= maxlen
pub fn short_lists(n: usize, maxlen: usize) -> Vec<Vec<usize>> {
    let mut out: Vec<Vec<usize>> = vec![vec![]];
    let mut last: Vec<Vec<usize>> = vec![vec![]];
    for _ in 0..maxlen {
        let mut next = vec![];
        for l in &last {
            for v in 0..n {
                let mut l2 = l.clone();
                l2.push(v);
                next.push(l2);
            }
        }
        out.extend(next.iter().cloned());
        last = next;
    }
    out
}

/// all hypergraphs with n <= maxn nodes (label 0) and k <= maxk operations whose source and target
/// lists have length <= arity, with empty interfaces
pub fn tiny_hypergraphs(maxn: usize, maxk: usize, arity: usize) -> Vec<M> {
    let mut out = vec![];
    for n in 0..=maxn {
        let lists = short_lists(n, arity);
        let pairs: Vec<(Vec<usize>, Vec<usize>)> = lists.iter().flat_map(|a| lists.iter().map(move |b| (a.clone(), b.clone()))).collect();
        for k in 0..=maxk {
            // all k-tuples of (src, tgt)
            let mut idx = vec![0usize; k];
            loop {
                let mut m = M { w: vec![0; n], x: vec![], src: vec![], tgt: vec![], s: vec![], t: vec![] };
                for (j, &i) in idx.iter().enumerate() {
                    m.x.push(10 + j as u8);
                    m.src.push(pairs[i].0.clone());
                    m.tgt.push(pairs[i].1.clone());
                }
                out.push(m);
                let mut p = 0;
                while p < k {
                    idx[p] += 1;
                    if idx[p] < pairs.len() {
                        break;
                    }
                    idx[p] = 0;
                    p += 1;
                }
                if p == k {
                    break;
                }
            }
        }
    }
    out
}

/// the pair (f, g) whose composition merges 32 + 32 nodes in binomial-tree order (`levels` = 6
/// merges everything into one class; fewer levels leave 2^(6-levels) classes); `deep` attaches the
/// later unions through non-root members
pub fn binomial_pair(levels: usize, deep: bool, two_labels: bool) -> (M, M) {
    let n = 32usize;
    let mut ft = vec![];
    let mut gs = vec![];
    for i in 0..n {
        ft.push(i);
        gs.push(i);
    }
    for l in 1..levels.min(6) {
        let step = 1usize << l;
        let half = step / 2;
        let mut k = 0;
        while k < n {
            if deep {
                ft.push(k + half - 1);
                gs.push(k + step - 1);
            } else {
                ft.push(k);
                gs.push(k + half);
            }
            k += step;
        }
    }
    // labels: constant on the final classes (blocks of size 2^(levels-1) at most)
    let block = 1usize << (levels.min(6).max(1) - 1);
    let lab = |i: usize| -> u8 { if two_labels { ((i / block) % 2) as u8 } else { 0 } };
    let w: Vec<u8> = (0..n).map(lab).collect();
    let f = M { w: w.clone(), x: vec![], src: vec![], tgt: vec![], s: (0..n).step_by(5).collect(), t: ft };
    let g = M { w, x: vec![(20)], src: vec![vec![31, 0]], tgt: vec![vec![16]], s: gs, t: (0..n).rev().step_by(3).collect() };
    (f, g)
}

/// a chain of k identifications f.t = [0..k], g.s through a path (long union chains)
pub fn chain_pair(k: usize) -> (M, M) {
    // f has k+1 nodes, g has k+1 nodes; pairs (i, i) and (i+1, i): zig-zag path through all nodes
    let f = M { w: vec![0; k + 1], x: vec![], src: vec![], tgt: vec![], s: vec![k], t: (0..k).chain(1..=k).collect() };
    let g = M { w: vec![0; k + 1], x: vec![], src: vec![], tgt: vec![], s: (0..k).chain(0..k).collect(), t: vec![k, 0] };
    (f, g)
}

// ------------------------------------------------------------------------------------------------
// circuits for evaluation: every node written at most once
// ------------------------------------------------------------------------------------------------
pub fn eval_relabel(r: &mut Rng, m: &mut M) {
    for e in 0..m.x.len() {
        m.x[e] = (m.tgt[e].len() % 8) as u8 + 8 * r.below(4) as u8;
    }
}

/// kind: 0 = acyclic with fan-out, 1 = monogamous acyclic, 2 = with a feedback read (cyclic)
pub fn circuit(r: &mut Rng, max_ops: usize, kind: usize) -> (M, Vec<i64>) {
    let n_in = r.range(0, 3);
    let n_free = r.range(0, 2);
    let mut w: Vec<u8> = vec![];
    let mut unread: Vec<usize> = vec![];
    for _ in 0..n_in + n_free {
        unread.push(w.len());
        w.push(r.below(3) as u8);
    }
    let s: Vec<usize> = (0..n_in).collect();
    let k = r.range(0, max_ops);
    let (mut x, mut src, mut tgt) = (vec![], vec![], vec![]);
    for _ in 0..k {
        let a = r.range(0, 3);
        let mut ins = vec![];
        for _ in 0..a {
            if kind == 1 {
                if unread.is_empty() {
                    break;
                }
                let i = r.below(unread.len());
                ins.push(unread.swap_remove(i));
            } else if !w.is_empty() {
                ins.push(r.below(w.len()));
            }
        }
        let b = r.range(0, 3);
        let mut outs = vec![];
        for _ in 0..b {
            outs.push(w.len());
            unread.push(w.len());
            w.push(r.below(3) as u8);
        }
        x.push(0u8);
        src.push(ins);
        tgt.push(outs);
    }
    let t: Vec<usize> = if kind == 1 {
        // every node that nobody reads is an output, exactly once (unwritten non-input nodes stay out: they break monogamy anyway)
        let p = shuffle(r, unread.len());
        p.iter().map(|&i| unread[i]).collect()
    } else if w.is_empty() {
        vec![]
    } else {
        let l = r.range(0, 4);
        r.vec_below(l, w.len())
    };
    let mut m = M { w, x, src, tgt, s, t };
    if kind == 2 && k > 0 {
        // a feedback read: some operation reads a node produced by itself or by a later operation
        let e = r.below(k);
        let later: Vec<usize> = (e..k).flat_map(|j| m.tgt[j].clone()).collect();
        if !later.is_empty() {
            let v = later[r.below(later.len())];
            m.src[e].push(v);
        }
    }
    eval_relabel(r, &mut m);
    let m = random_permuted(r, &m);
    let inputs: Vec<i64> = (0..m.s.len()).map(|_| r.below(7) as i64 - 3).collect();
    (m, inputs)
}

// ------------------------------------------------------------------------------------------------
// hypergraph morphisms
// ------------------------------------------------------------------------------------------------
/// the sub-hypergraph of h induced by an ordered selection of nodes and operations (pull back along w, x);
/// None if an operation touches an unselected node
pub fn pullback(h: &M, w: &[usize], x: &[usize]) -> Option<M> {
    let inv = |v: usize| w.iter().position(|&u| u == v);
    let mut g = M { w: w.iter().map(|&v| h.w[v]).collect(), x: vec![], src: vec![], tgt: vec![], s: vec![], t: vec![] };
    for &e in x {
        g.x.push(h.x[e]);
        g.src.push(h.src[e].iter().map(|&v| inv(v)).collect::<Option<Vec<_>>>()?);
        g.tgt.push(h.tgt[e].iter().map(|&v| inv(v)).collect::<Option<Vec<_>>>()?);
    }
    Some(g)
}

/// a random embedded sub-hypergraph: (g, w, x), injective and natural by construction
pub fn random_embedding(r: &mut Rng, h: &M) -> (M, Vec<usize>, Vec<usize>) {
    let xs: Vec<usize> = (0..h.x.len()).filter(|_| r.chance(1, 2)).collect();
    let mut ws: Vec<usize> = vec![];
    for &e in &xs {
        for &v in h.src[e].iter().chain(h.tgt[e].iter()) {
            if !ws.contains(&v) {
                ws.push(v);
            }
        }
    }
    for v in 0..h.w.len() {
        if !ws.contains(&v) && r.chance(1, 3) {
            ws.push(v);
        }
    }
    let pw = shuffle(r, ws.len());
    let px = shuffle(r, xs.len());
    let w: Vec<usize> = pw.iter().map(|&i| ws[i]).collect();
    let x: Vec<usize> = px.iter().map(|&i| xs[i]).collect();
    let g = pullback(h, &w, &x).unwrap();
    (g, w, x)
}

/// a random natural, generally non-injective morphism into h (operations and nodes of h are covered several times)
pub fn random_folding(r: &mut Rng, h: &M) -> (M, Vec<usize>, Vec<usize>) {
    let mut g = M::empty();
    let mut w: Vec<usize> = vec![];
    let mut x: Vec<usize> = vec![];
    let k = if h.x.is_empty() { 0 } else { r.range(0, 3) };
    for _ in 0..k {
        let e = r.below(h.x.len());
        let pick = |v: usize, g: &mut M, w: &mut Vec<usize>, r: &mut Rng| -> usize {
            let cands: Vec<usize> = (0..w.len()).filter(|&i| w[i] == v).collect();
            if !cands.is_empty() && r.chance(1, 2) {
                cands[r.below(cands.len())]
            } else {
                w.push(v);
                g.w.push(h.w[v]);
                w.len() - 1
            }
        };
        let src: Vec<usize> = h.src[e].iter().map(|&v| pick(v, &mut g, &mut w, r)).collect();
        let tgt: Vec<usize> = h.tgt[e].iter().map(|&v| pick(v, &mut g, &mut w, r)).collect();
        g.x.push(h.x[e]);
        g.src.push(src);
        g.tgt.push(tgt);
        x.push(e);
    }
    if !h.w.is_empty() {
        for _ in 0..r.range(0, 2) {
            let v = r.below(h.w.len());
            w.push(v);
            g.w.push(h.w[v]);
        }
    }
    (g, w, x)
}

/// all sub-hypergraph selections of h (every operation subset, every node superset of its incident nodes), in increasing order
pub fn all_embeddings(h: &M) -> Vec<(M, Vec<usize>, Vec<usize>)> {
    let (n, k) = (h.w.len(), h.x.len());
    let mut out = vec![];
    if n > 6 || k > 6 {
        return out;
    }
    for xm in 0..(1usize << k) {
        let x: Vec<usize> = (0..k).filter(|e| xm >> e & 1 == 1).collect();
        for wm in 0..(1usize << n) {
            let w: Vec<usize> = (0..n).filter(|v| wm >> v & 1 == 1).collect();
            if let Some(g) = pullback(h, &w, &x) {
                out.push((g, w, x.clone()));
            }
        }
    }
    out
}

/// targets for the convexity corners
pub fn convex_targets() -> Vec<M> {
    vec![
        // path a -> b -> c
        hg(vec![0, 0, 0], vec![(10, vec![0], vec![1]), (11, vec![1], vec![2])], vec![], vec![]),
        // inside and outside operation in parallel between the same nodes
        hg(vec![0, 0], vec![(10, vec![0], vec![1]), (10, vec![0], vec![1])], vec![], vec![]),
        // self loop next to an isolated node
        hg(vec![0, 1], vec![(10, vec![0], vec![0])], vec![], vec![]),
        // 3-cycle
        hg(vec![0, 0, 0], vec![(10, vec![0], vec![1]), (10, vec![1], vec![2]), (10, vec![2], vec![0])], vec![], vec![]),
        // diamond with a long way round: a->b, b->d, a->c, c->e, e->d
        hg(vec![0; 5], vec![(10, vec![0], vec![1]), (11, vec![1], vec![3]), (10, vec![0], vec![2]), (11, vec![2], vec![4]), (12, vec![4], vec![3])], vec![], vec![]),
        // zero-arity operations and a binary operation with repeated nodes
        hg(vec![0, 0, 1], vec![(10, vec![], vec![]), (11, vec![0, 0], vec![1, 1]), (12, vec![1], vec![]), (13, vec![], vec![0])], vec![], vec![]),
        // hyperedges with two sources / two targets sharing nodes
        hg(vec![0, 0, 0, 0], vec![(10, vec![0, 1], vec![2]), (11, vec![2], vec![3, 0])], vec![], vec![]),
    ]
}

pub fn strip_interfaces(m: &M) -> M {
    let mut g = m.clone();
    g.s = vec![];
    g.t = vec![];
    g
}
