//! C15 — layering respects dependencies, is as shallow as possible, and flags cycles.
//!
//! Oracle (written from the statement, plain loops over Vec):
//!   * `y depends on x`  <=>  some target node of x is a source node of y           (dep_matrix)
//!   * `reach`           =   transitive closure (>= 1 step) of `depends`              (closure)
//!   * bad(y)            <=>  some x with reach[x][x] and (x == y or reach[x][y])      (on / downstream of a cycle)
//!   * chain length      =   longest dependency chain among the not-bad operations    (relaxation to fixpoint)
//! Any layering that satisfies the stated clauses is accepted (the exact layer numbers of the
//! library are not compared with a reference layering).
//!
//! Checks:
//!   layer      : strict::layer::layer + layered_operations on a plain model
//!   kahn       : verif_hooks::kahn on a raw adjacency multigraph (every such multigraph is the
//!                dependency multigraph of a hypergraph, so the same clauses apply)
//!   adjacency  : verif_hooks::operation_adjacency has exactly the `depends` relation
use crate::ctx::{guard, Ctx, Rng};
use crate::model::*;
use open_hypergraphs::array::vec::*;
use open_hypergraphs::finite_function::FiniteFunction;
use open_hypergraphs::indexed_coproduct::IndexedCoproduct;
use open_hypergraphs::semifinite::SemifiniteFunction;
use open_hypergraphs::strict::layer::{layer, layered_operations};
use open_hypergraphs::verif_hooks;
use serde_json::{json, Value};

type Check = fn(&mut Ctx, &Value);
const CHECKS: &[(&str, Check)] = &[("layer", chk_layer), ("kahn", chk_kahn), ("adjacency", chk_adjacency)];

// ------------------------------------------------------------------------------------------------
// oracle
// ------------------------------------------------------------------------------------------------
/// d[x][y] = true iff y depends on x (some target node of x is a source node of y)
fn dep_matrix(m: &M) -> Vec<Vec<bool>> {
    let k = m.x.len();
    let mut d = vec![vec![false; k]; k];
    for x in 0..k {
        for y in 0..k {
            for &a in &m.tgt[x] {
                for &b in &m.src[y] {
                    if a == b {
                        d[x][y] = true;
                    }
                }
            }
        }
    }
    d
}

/// transitive closure, at least one step
fn closure(d: &Vec<Vec<bool>>) -> Vec<Vec<bool>> {
    let k = d.len();
    let mut r = d.clone();
    for via in 0..k {
        for a in 0..k {
            if r[a][via] {
                for b in 0..k {
                    if r[via][b] {
                        r[a][b] = true;
                    }
                }
            }
        }
    }
    r
}

/// operations on or downstream of a directed dependency cycle
fn bad_set(d: &Vec<Vec<bool>>) -> Vec<bool> {
    let k = d.len();
    let r = closure(d);
    let mut bad = vec![false; k];
    for x in 0..k {
        if r[x][x] {
            bad[x] = true;
            for y in 0..k {
                if r[x][y] {
                    bad[y] = true;
                }
            }
        }
    }
    bad
}

/// number of operations on the longest dependency chain among the operations with ok[x]
/// (the dependency relation restricted to them is acyclic)
fn longest_chain(d: &Vec<Vec<bool>>, ok: &Vec<bool>) -> usize {
    let k = d.len();
    let mut len = vec![0usize; k];
    for x in 0..k {
        if ok[x] {
            len[x] = 1;
        }
    }
    // relax to fixpoint; at most k rounds are needed on an acyclic relation
    for _ in 0..=k {
        let mut changed = false;
        for x in 0..k {
            for y in 0..k {
                if ok[x] && ok[y] && d[x][y] && len[y] < len[x] + 1 {
                    len[y] = len[x] + 1;
                    changed = true;
                }
            }
        }
        if !changed {
            break;
        }
    }
    len.into_iter().max().unwrap_or(0)
}

/// evaluate all clauses on a (layer, flags) answer; `pre` is the clause prefix
fn verify(ctx: &mut Ctx, check: &str, pre: &str, input: &Value, d: &Vec<Vec<bool>>, lay: &[usize], flags: &[usize]) -> bool {
    let k = d.len();
    let mut ok = true;
    if lay.len() != k || flags.len() != k {
        ctx.fail(check, &format!("{}.shape", pre), input, json!({"layer_len": lay.len(), "flags_len": flags.len()}), json!(k));
        return false;
    }
    if flags.iter().any(|&f| f > 1) {
        ctx.fail(check, &format!("{}.shape", pre), input, json!({"flags": flags}), json!("flags in {0,1}"));
        return false;
    }
    let bad = bad_set(d);
    let exp_flags: Vec<usize> = bad.iter().map(|&b| b as usize).collect();
    if flags != &exp_flags[..] {
        ctx.fail(check, &format!("{}.unvisited-exactly-cyclic", pre), input, json!({"unvisited": flags, "layer": lay}), json!({"unvisited": exp_flags}));
        ok = false;
    }
    let good: Vec<bool> = bad.iter().map(|&b| !b).collect();
    // strictly greater than every dependency (dependencies of a good operation are all good);
    // operations wrongly flagged unvisited were already reported above and carry no layer
    let vis = |x: usize| good[x] && flags[x] == 0;
    for y in 0..k {
        for x in 0..k {
            if vis(x) && vis(y) && d[x][y] && !(lay[y] > lay[x]) {
                ctx.fail(
                    check,
                    &format!("{}.layer-respects-deps", pre),
                    input,
                    json!({"layer": lay, "x": x, "y": y}),
                    json!(format!("layer[{}] > layer[{}] because {} depends on {}", y, x, y, x)),
                );
                return false;
            }
        }
    }
    if !ok {
        return false; // the layer count is relative to the visited set, which is already wrong
    }
    // numbered from 0, number of layers used == longest chain
    let chain = longest_chain(d, &good);
    let used: std::collections::BTreeSet<usize> = (0..k).filter(|&x| good[x]).map(|x| lay[x]).collect();
    let from_zero = used.iter().cloned().eq(0..used.len());
    if !from_zero || used.len() != chain {
        ctx.fail(
            check,
            &format!("{}.layer-count-is-longest-chain", pre),
            input,
            json!({"layer": lay, "layers_used": used.iter().collect::<Vec<_>>()}),
            json!({"layers": format!("0..{}", chain)}),
        );
        ok = false;
    }
    ok
}

fn has_dependency(d: &Vec<Vec<bool>>) -> bool {
    d.iter().any(|r| r.iter().any(|&b| b))
}

// ------------------------------------------------------------------------------------------------
// checks
// ------------------------------------------------------------------------------------------------
/// input: {"m": model}
fn chk_layer(ctx: &mut Ctx, input: &Value) {
    let m = match M::from_json(&input["m"]) {
        Some(m) if m.valid() => m,
        _ => return,
    };
    let k = m.x.len();
    let d = dep_matrix(&m);
    ctx.case("layer", input, k >= 2 && has_dependency(&d));
    let f = m.to_strict();
    let (lay, flags) = match guard(|| layer(&f)) {
        Err(p) => {
            ctx.fail("layer", "C15.returns", input, json!(format!("layer panicked: {}", p)), json!("a layering"));
            return;
        }
        Ok((l, u)) => (l, u.0),
    };
    if lay.table.0.iter().any(|&v| v >= lay.target) && !lay.table.0.is_empty() {
        ctx.fail("layer", "C15.layer-function-wf", input, json!({"table": lay.table.0, "target": lay.target}), json!("values < target"));
    }
    let lay = lay.table.0;
    let good = verify(ctx, "layer", "C15", input, &d, &lay, &flags);

    // grouped form
    let (groups, unv) = match guard(|| layered_operations(&f)) {
        Err(p) => {
            ctx.fail("layer", "C15.returns", input, json!(format!("layered_operations panicked: {}", p)), json!("a grouped layering"));
            return;
        }
        Ok((g, u)) => (g.into_iter().map(|a| a.0).collect::<Vec<Vec<usize>>>(), u.0),
    };
    if unv != flags {
        ctx.fail("layer", "C15.grouped-flags-agree", input, json!({"layered_operations": unv}), json!({"layer": flags}));
    }
    if !good {
        return; // the grouped form is judged against a layering that is itself conforming
    }
    if groups.iter().flatten().any(|&e| e >= k) {
        ctx.fail("layer", "C15.grouped-lists-operations", input, json!(groups), json!(format!("entries < {}", k)));
        return;
    }
    for x in 0..k {
        if flags[x] == 0 {
            let total = groups.iter().flatten().filter(|&&e| e == x).count();
            let in_own = groups.get(lay[x]).map(|g| g.iter().filter(|&&e| e == x).count()).unwrap_or(0);
            if total != 1 || in_own != 1 {
                ctx.fail(
                    "layer",
                    "C15.grouped-visited-once-in-its-layer",
                    input,
                    json!({"groups": groups, "op": x, "occurrences": total, "in_group_of_its_layer": in_own}),
                    json!({"layer": lay, "unvisited": flags}),
                );
                return;
            }
        }
    }
}

fn adj_from_json(v: &Value) -> Option<Vec<Vec<usize>>> {
    v.as_array()?.iter().map(|l| l.as_array()?.iter().map(|x| x.as_u64().map(|y| y as usize)).collect()).collect()
}

fn adj_to_ic(adj: &Vec<Vec<usize>>) -> IC {
    let k = adj.len();
    let sizes: Vec<usize> = adj.iter().map(|l| l.len()).collect();
    let vals: Vec<usize> = adj.iter().flatten().cloned().collect();
    IndexedCoproduct::from_semifinite(SemifiniteFunction(VecArray(sizes)), FiniteFunction::new(VecArray(vals), k).unwrap()).unwrap()
}

/// input: {"adj": [[successor, ...], ...]}  (multigraph; adj[x] lists the operations depending on x, with repeats)
fn chk_kahn(ctx: &mut Ctx, input: &Value) {
    let adj = match adj_from_json(&input["adj"]) {
        Some(a) if a.iter().flatten().all(|&v| v < a.len()) => a,
        _ => return,
    };
    let k = adj.len();
    let mut d = vec![vec![false; k]; k];
    for x in 0..k {
        for &y in &adj[x] {
            d[x][y] = true;
        }
    }
    ctx.case("kahn", input, k >= 2 && has_dependency(&d));
    let ic = adj_to_ic(&adj);
    match guard(|| verif_hooks::kahn::<VecKind>(&ic)) {
        Err(p) => ctx.fail("kahn", "C15.kahn.returns", input, json!(format!("panic: {}", p)), json!("a layering")),
        Ok((order, unvisited)) => {
            verify(ctx, "kahn", "C15.kahn", input, &d, &order.0, &unvisited.0);
        }
    }
}

/// input: {"m": model}
fn chk_adjacency(ctx: &mut Ctx, input: &Value) {
    let m = match M::from_json(&input["m"]) {
        Some(m) if m.valid() => m,
        _ => return,
    };
    let k = m.x.len();
    let d = dep_matrix(&m);
    ctx.case("adjacency", input, k >= 2 && has_dependency(&d));
    let f = m.to_strict();
    match guard(|| verif_hooks::operation_adjacency(&f.h)) {
        Err(p) => ctx.fail("adjacency", "C15.adjacency.returns", input, json!(format!("panic: {}", p)), json!("an adjacency list")),
        Ok(a) => match ic_wf(&a, Some(k), Some(k)) {
            Err(why) => ctx.fail("adjacency", "C15.adjacency.wf", input, json!(why), json!("well-formed segmented array X -> X*")),
            Ok(lists) => {
                let mut got = vec![vec![false; k]; k];
                for x in 0..k {
                    for &y in &lists[x] {
                        got[x][y] = true;
                    }
                }
                if got != d {
                    ctx.fail("adjacency", "C15.adjacency.is-depends-relation", input, json!(lists), json!(d));
                }
            }
        },
    }
}

// ------------------------------------------------------------------------------------------------
// generators
// ------------------------------------------------------------------------------------------------
fn shuffle(r: &mut Rng, n: usize) -> Vec<usize> {
    let mut p: Vec<usize> = (0..n).collect();
    for i in (1..n).rev() {
        let j = r.below(i + 1);
        p.swap(i, j);
    }
    p
}

/// renumber operations: operation e becomes pe[e]; nodes: node v becomes pn[v]
fn renumber(m: &M, pn: &[usize], pe: &[usize]) -> M {
    let (n, k) = (m.w.len(), m.x.len());
    let mut w = vec![0u8; n];
    for v in 0..n {
        w[pn[v]] = m.w[v];
    }
    let mut x = vec![0u8; k];
    let mut src = vec![vec![]; k];
    let mut tgt = vec![vec![]; k];
    let mp = |l: &Vec<usize>| l.iter().map(|&v| pn[v]).collect::<Vec<_>>();
    for e in 0..k {
        x[pe[e]] = m.x[e];
        src[pe[e]] = mp(&m.src[e]);
        tgt[pe[e]] = mp(&m.tgt[e]);
    }
    M { w, x, src, tgt, s: mp(&m.s), t: mp(&m.t) }
}

fn scramble(r: &mut Rng, m: &M) -> M {
    let pn = shuffle(r, m.w.len());
    let pe = shuffle(r, m.x.len());
    renumber(m, &pn, &pe)
}

/// realise a dependency multigraph (mult[x][y] parallel dependencies of y on x) as a hypergraph.
/// style 0: one node per pair, repeated `mult` times among the targets of x, once among the sources of y
/// style 1: one node per pair, once among the targets of x, repeated `mult` times among the sources of y
/// style 2: one output node per operation x, read mult[x][y] times by every y (node used by several operations)
/// style 3: one input node per operation y, written mult[x][y] times by every x (node written by several operations)
/// style 4: per pair, mult = a*b split between both sides when divisible, else style 0/1 at random
fn model_from_mult(r: &mut Rng, mult: &Vec<Vec<usize>>, style: usize) -> M {
    let k = mult.len();
    let mut w: Vec<u8> = vec![];
    let mut src = vec![vec![]; k];
    let mut tgt = vec![vec![]; k];
    match style {
        2 => {
            for x in 0..k {
                if (0..k).any(|y| mult[x][y] > 0) {
                    let v = w.len();
                    w.push(0);
                    tgt[x].push(v);
                    for y in 0..k {
                        for _ in 0..mult[x][y] {
                            src[y].push(v);
                        }
                    }
                }
            }
        }
        3 => {
            for y in 0..k {
                if (0..k).any(|x| mult[x][y] > 0) {
                    let v = w.len();
                    w.push(0);
                    src[y].push(v);
                    for x in 0..k {
                        for _ in 0..mult[x][y] {
                            tgt[x].push(v);
                        }
                    }
                }
            }
        }
        _ => {
            for x in 0..k {
                for y in 0..k {
                    let mu = mult[x][y];
                    if mu == 0 {
                        continue;
                    }
                    let v = w.len();
                    w.push((v % 2) as u8);
                    let (a, b) = match style {
                        0 => (mu, 1),
                        1 => (1, mu),
                        _ => {
                            let divs: Vec<usize> = (1..=mu).filter(|q| mu % q == 0).collect();
                            let a = divs[r.below(divs.len())];
                            (a, mu / a)
                        }
                    };
                    for _ in 0..a {
                        tgt[x].push(v);
                    }
                    for _ in 0..b {
                        src[y].push(v);
                    }
                }
            }
        }
    }
    // a dangling node and boundary wiring that must not matter
    if r.chance(1, 3) {
        w.push(1);
    }
    let n = w.len();
    let ls = r.below(3);
    let s = if n > 0 { r.vec_below(ls, n) } else { vec![] };
    let lt = r.below(3);
    let t = if n > 0 { r.vec_below(lt, n) } else { vec![] };
    M { w, x: (0..k).map(|e| 10 + (e % 3) as u8).collect(), src, tgt, s, t }
}

fn adj_from_mult(mult: &Vec<Vec<usize>>) -> Vec<Vec<usize>> {
    mult.iter().map(|row| row.iter().enumerate().flat_map(|(y, &mu)| std::iter::repeat(y).take(mu)).collect()).collect()
}

fn zeros(k: usize) -> Vec<Vec<usize>> {
    vec![vec![0; k]; k]
}

fn permute_mult(mult: &Vec<Vec<usize>>, p: &[usize]) -> Vec<Vec<usize>> {
    let k = mult.len();
    let mut out = zeros(k);
    for x in 0..k {
        for y in 0..k {
            out[p[x]][p[y]] = mult[x][y];
        }
    }
    out
}

/// named corner multigraphs
fn corner_mults() -> Vec<Vec<Vec<usize>>> {
    let mut out: Vec<Vec<Vec<usize>>> = vec![];
    // no operations, isolated operations (zero arity after realisation)
    for k in [0usize, 1, 2, 5] {
        out.push(zeros(k));
    }
    // chains, in order and reversed numbering, including long ones
    for k in [2usize, 3, 4, 6, 9, 33, 64] {
        let mut c = zeros(k);
        let mut rc = zeros(k);
        for i in 0..k - 1 {
            c[i][i + 1] = 1;
            rc[k - 1 - i][k - 2 - i] = 1;
        }
        out.push(c);
        out.push(rc);
    }
    // pure cycles: self-dependence, 2, 3, 5
    for k in [1usize, 2, 3, 5] {
        let mut c = zeros(k);
        for i in 0..k {
            c[i][(i + 1) % k] = 1;
        }
        out.push(c);
    }
    // parallel dependencies x =(mu)=> y -> z with an independent w -> z : multiplicity above #nodes, #operations
    for mu in [2usize, 3, 4, 5, 7, 12, 25] {
        let mut c = zeros(4);
        c[0][1] = mu;
        c[1][2] = 1;
        c[3][2] = mu - 1;
        out.push(c);
        // two producers at different depths feeding one consumer with high multiplicity
        let mut c = zeros(4);
        c[0][1] = 1;
        c[0][3] = mu;
        c[1][3] = mu;
        c[3][2] = 2;
        out.push(c);
    }
    // head -> (2-cycle) -> tail -> tail, plus an isolated op and an op upstream only
    {
        let mut c = zeros(7);
        c[0][1] = 1; // head (visited)
        c[1][2] = 1;
        c[2][1] = 1; // cycle 1 <-> 2
        c[2][3] = 1;
        c[3][4] = 1; // tail 3 -> 4 (unvisited)
        c[0][5] = 1; // 5 depends only on head (visited, layer 1)
        c[5][4] = 1; // 4 also depends on a visited op: still unvisited
        out.push(c); // op 6 isolated
    }
    // long tail downstream of a cycle and long run-up upstream of it
    {
        let k = 40;
        let mut c = zeros(k);
        for i in 0..k - 1 {
            c[i][i + 1] = 1;
        }
        c[20][19] = 1; // cycle 19 <-> 20 in the middle
        out.push(c);
    }
    // unbalanced diamond: 0 -> 1 -> 2 -> 3 -> 4 and 0 -> 4, 0 -> 5
    {
        let mut c = zeros(6);
        for i in 0..4 {
            c[i][i + 1] = 1;
        }
        c[0][4] = 1;
        c[0][5] = 1;
        out.push(c);
        // same with the short arm doubled (multiplicity 2 across depths)
        let mut c2 = out.last().unwrap().clone();
        c2[0][4] = 2;
        c2[3][4] = 3;
        out.push(c2);
    }
    // complete DAGs (dense) with multiplicity 1 and with multiplicity growing with distance
    for k in 2..=7usize {
        let mut c = zeros(k);
        let mut c2 = zeros(k);
        for i in 0..k {
            for j in i + 1..k {
                c[i][j] = 1;
                c2[i][j] = j - i;
            }
        }
        out.push(c);
        out.push(c2);
    }
    // complete digraph (everything cyclic), with and without self-dependence
    for k in 2..=4usize {
        let mut c = zeros(k);
        let mut c2 = zeros(k);
        for i in 0..k {
            for j in 0..k {
                c[i][j] = 1;
                if i != j {
                    c2[i][j] = 2;
                }
            }
        }
        out.push(c);
        out.push(c2);
    }
    // self-dependent operation with a dependent and an independent neighbour
    {
        let mut c = zeros(3);
        c[0][0] = 2;
        c[0][1] = 1;
        out.push(c);
        let mut c = zeros(3);
        c[1][1] = 1;
        c[0][1] = 1;
        c[0][2] = 1;
        out.push(c);
    }
    // figure eight: two cycles through operation 0, one acyclic component beside it
    {
        let mut c = zeros(7);
        c[0][1] = 1;
        c[1][0] = 1;
        c[0][2] = 1;
        c[2][3] = 1;
        c[3][0] = 1;
        c[4][5] = 1;
        c[5][6] = 1;
        c[4][6] = 1;
        out.push(c);
    }
    // wide fan-in and fan-out: 40 independent ops feed one op which feeds 40
    {
        let k = 81;
        let mut c = zeros(k);
        for i in 0..40 {
            c[i][40] = 1 + i % 3;
            c[40][41 + i] = 1 + i % 2;
        }
        out.push(c);
    }
    // binary tree of depth 5 (31 ops), edges toward the root
    {
        let k = 31;
        let mut c = zeros(k);
        for i in 1..k {
            c[i][(i - 1) / 2] = 1;
        }
        out.push(c);
    }
    // ladder: layer sizes unbalanced, later op depends on ops from several different depths
    {
        let mut c = zeros(6);
        c[0][1] = 1;
        c[1][2] = 1;
        c[2][3] = 1;
        c[0][3] = 1;
        c[1][3] = 1;
        c[4][3] = 1;
        c[4][5] = 1;
        c[5][2] = 1;
        out.push(c);
    }
    out
}

/// hand-written hypergraph corners that are not realisations of a multigraph in one of the styles
fn corner_hypergraphs() -> Vec<M> {
    let mut out = corner_models();
    // zero-arity operations only
    out.push(M { w: vec![], x: vec![10, 11, 10], src: vec![vec![]; 3], tgt: vec![vec![]; 3], s: vec![], t: vec![] });
    // zero-arity operations among a chain, with nodes on the boundary
    out.push(M { w: vec![0, 0, 0], x: vec![10, 11, 12, 10], src: vec![vec![], vec![1], vec![], vec![0]], tgt: vec![vec![], vec![2], vec![], vec![1]], s: vec![0], t: vec![2] });
    // every operation reads and writes the single node
    for k in 1..=4 {
        out.push(M { w: vec![0], x: vec![10; k], src: vec![vec![0]; k], tgt: vec![vec![0]; k], s: vec![0], t: vec![0] });
    }
    // one node written by two operations and read by two operations (2 x 2 dependencies through one node)
    out.push(M { w: vec![0, 0, 0], x: vec![10, 11, 12, 13], src: vec![vec![0], vec![0], vec![1], vec![1, 1]], tgt: vec![vec![1], vec![1, 1], vec![2], vec![]], s: vec![0], t: vec![2] });
    // operation using the same node three times as source and, separately, three times as target
    out.push(M { w: vec![0, 0, 0], x: vec![10, 11], src: vec![vec![0, 0, 0], vec![1, 1, 1]], tgt: vec![vec![1, 1, 1], vec![2, 2, 2]], s: vec![0], t: vec![2] });
    // sources nobody writes, targets nobody reads
    out.push(M { w: vec![0, 0, 0, 0], x: vec![10, 11], src: vec![vec![0], vec![1]], tgt: vec![vec![2], vec![3]], s: vec![], t: vec![] });
    // dependency only through a node that is also on both boundaries
    out.push(M { w: vec![0, 1], x: vec![10, 11], src: vec![vec![1], vec![0]], tgt: vec![vec![0], vec![]], s: vec![0, 0], t: vec![0, 1] });
    // operation-free diagram with non-identity wiring
    out.push(M { w: vec![0, 0, 1], x: vec![], src: vec![], tgt: vec![], s: vec![2, 0, 0], t: vec![1, 2] });
    out
}

/// random hypergraph, acyclic by construction through node/operation ranks, optionally spoiled by a back reference
fn random_ranked(r: &mut Rng, max_nodes: usize, max_ops: usize, max_arity: usize) -> M {
    let n = r.range(1, max_nodes);
    let k = r.range(0, max_ops);
    let ranks = r.range(1, 5);
    let nrank: Vec<usize> = (0..n).map(|_| r.below(ranks + 1)).collect();
    let mut x = vec![];
    let mut src = vec![];
    let mut tgt = vec![];
    for e in 0..k {
        let q = r.below(ranks); // sources from rank <= q, targets from rank > q
        let lo: Vec<usize> = (0..n).filter(|&v| nrank[v] <= q).collect();
        let hi: Vec<usize> = (0..n).filter(|&v| nrank[v] > q).collect();
        let pick = |r: &mut Rng, pool: &Vec<usize>| -> Vec<usize> {
            if pool.is_empty() {
                return vec![];
            }
            let a = r.range(0, max_arity);
            // sometimes repeat one node many times
            if r.chance(1, 6) {
                let v = pool[r.below(pool.len())];
                return vec![v; a + 1];
            }
            (0..a).map(|_| pool[r.below(pool.len())]).collect()
        };
        x.push(10 + (e % 2) as u8);
        src.push(pick(r, &lo));
        tgt.push(pick(r, &hi));
    }
    // spoil: with probability 1/3 add one or two arbitrary extra incidences (may create cycles / self-dependence)
    if k > 0 && r.chance(1, 3) {
        for _ in 0..r.range(1, 2) {
            let e = r.below(k);
            let v = r.below(n);
            if r.chance(1, 2) {
                src[e].push(v);
            } else {
                tgt[e].push(v);
            }
        }
    }
    let (ls, lt) = (r.below(3), r.below(3));
    let s = r.vec_below(ls, n);
    let t = r.vec_below(lt, n);
    M { w: (0..n).map(|v| (v % 2) as u8).collect(), x, src, tgt, s, t }
}

/// random dependency multigraph biased to acyclic, optionally with back / self edges
fn random_mult(r: &mut Rng, max_ops: usize, max_mult: usize) -> Vec<Vec<usize>> {
    let k = r.range(0, max_ops);
    let p = shuffle(r, k);
    let dens = r.range(1, 4);
    let mut c = zeros(k);
    for a in 0..k {
        for b in 0..k {
            if p[a] < p[b] && r.chance(dens, 5) {
                c[a][b] = if r.chance(1, 2) { 1 } else { r.range(1, max_mult) };
            }
        }
    }
    if k > 0 && r.chance(2, 5) {
        for _ in 0..r.range(1, 2) {
            let (a, b) = (r.below(k), r.below(k));
            c[a][b] += r.range(1, 2);
        }
    }
    c
}

fn run_mult(ctx: &mut Ctx, mult: &Vec<Vec<usize>>, styles: &[usize]) {
    chk_kahn(ctx, &json!({"adj": adj_from_mult(mult)}));
    for &st in styles {
        let m = model_from_mult(&mut ctx.rng, mult, st);
        let input = json!({"m": m.json()});
        chk_layer(ctx, &input);
        chk_adjacency(ctx, &input);
    }
}

pub fn run(ctx: &mut Ctx) {
    if let Some((name, input)) = ctx.replay.clone() {
        for (n, c) in CHECKS {
            if *n == name {
                c(ctx, &input);
            }
        }
        return;
    }
    // (a) corners
    for m in corner_hypergraphs() {
        let input = json!({"m": m.json()});
        chk_layer(ctx, &input);
        chk_adjacency(ctx, &input);
        let m2 = scramble(&mut ctx.rng, &m);
        let input = json!({"m": m2.json()});
        chk_layer(ctx, &input);
        chk_adjacency(ctx, &input);
    }
    for c in corner_mults() {
        let k = c.len();
        let styles: &[usize] = if k > 40 { &[0, 2] } else { &[0, 1, 2, 3, 4] };
        run_mult(ctx, &c, styles);
        // same multigraph under a random renumbering of the operations
        let p = shuffle(&mut ctx.rng, k);
        run_mult(ctx, &permute_mult(&c, &p), if k > 40 { &[3] } else { &[4, 2] });
    }

    // (b) exhaustive: every dependency multigraph on k operations with multiplicities 0..=mmax
    //     quick: k<=2 (m<=3), k=3 (m<=1); thorough adds k=3 (m<=2), k=4 (m<=1)
    let mut plans: Vec<(usize, usize)> = vec![(1, 3), (2, 3), (3, 1)];
    if ctx.thorough() {
        plans.push((3, 2));
        plans.push((4, 1));
    }
    for (k, mmax) in plans {
        let cells = k * k;
        let base = mmax + 1;
        let total = base.pow(cells as u32);
        for code in 0..total {
            let mut c = zeros(k);
            let mut q = code;
            for i in 0..cells {
                c[i / k][i % k] = q % base;
                q /= base;
            }
            let st = [code % 5];
            run_mult(ctx, &c, &st);
        }
    }
    // (b') exhaustive hypergraphs: n nodes, k operations, every source/target list of length <= 2
    let mut hplans: Vec<(usize, usize)> = vec![(1, 2), (2, 2), (1, 3)];
    if ctx.thorough() {
        hplans.push((3, 2));
        hplans.push((2, 3));
    }
    for (n, k) in hplans {
        let mut lists: Vec<Vec<usize>> = vec![vec![]];
        for a in 0..n {
            lists.push(vec![a]);
        }
        for a in 0..n {
            for b in 0..n {
                lists.push(vec![a, b]);
            }
        }
        let l = lists.len();
        let total = l.pow(2 * k as u32);
        // thorough (2,3): 7^6 = 117649 cases; sample every case
        for code in 0..total {
            let mut q = code;
            let mut src = vec![];
            let mut tgt = vec![];
            for _ in 0..k {
                src.push(lists[q % l].clone());
                q /= l;
                tgt.push(lists[q % l].clone());
                q /= l;
            }
            let m = M { w: vec![0; n], x: vec![10; k], src, tgt, s: vec![], t: vec![] };
            let input = json!({"m": m.json()});
            chk_layer(ctx, &input);
            if code % 4 == 0 {
                chk_adjacency(ctx, &input);
            }
        }
    }

    // (c) random
    let nr = ctx.budget(40000, 1200000);
    for i in 0..nr {
        let m = match i % 4 {
            0 => random_ranked(&mut ctx.rng, 6, 6, 3),
            1 => random_ranked(&mut ctx.rng, 10, 9, 2),
            2 => random_model(&mut ctx.rng, MEDIUM),
            _ => {
                let m = random_ranked(&mut ctx.rng, 4, 5, 4);
                scramble(&mut ctx.rng, &m)
            }
        };
        let input = json!({"m": m.json()});
        chk_layer(ctx, &input);
        if i % 3 == 0 {
            chk_adjacency(ctx, &input);
        }
    }
    let nm = ctx.budget(25000, 600000);
    for i in 0..nm {
        let c = if i % 50 == 7 { random_mult(&mut ctx.rng, 24, 30) } else if i % 5 == 0 { random_mult(&mut ctx.rng, 12, 9) } else { random_mult(&mut ctx.rng, 7, 5) };
        let st = [ctx.rng.below(5)];
        run_mult(ctx, &c, &st);
    }
    ctx.notes.push(
        "rule: (1) corner hypergraphs (model corners + zero-arity, single shared node, 2x2 fan through one node, repeated nodes, unread/unwritten nodes, op-free) each also under a random renumbering; \
         (2) corner dependency multigraphs (chains to 64 both numberings, cycles 1/2/3/5, multiplicities up to 25, cycle with head+tail, 40-chain with a 2-cycle in the middle, unbalanced diamonds, complete DAGs to 7 ops, complete digraphs, figure eight, 40-wide fan, binary tree) each realised as a hypergraph in 5 styles (multiplicity on the target side, on the source side, one shared output node per op, one shared input node per op, factored) and fed raw to kahn; \
         (3) exhaustive multigraphs: k<=2 ops mult 0..3, k=3 mult 0..1 (thorough: k=3 mult 0..2, k=4 mult 0..1); exhaustive hypergraphs with (nodes,ops) in {(1,2),(2,2),(1,3)} (thorough: +(3,2),(2,3)), all source/target lists of length <=2; \
         (4) random: rank-stratified hypergraphs (acyclic by construction, 1/3 spoiled by extra incidences) up to 10 nodes/9 ops/arity 4, uniform random models (MEDIUM), random multigraphs up to 12 ops mult up to 9 (1 in 50: up to 24 ops, mult up to 30) with back/self edges; quick 40000 hypergraphs + 25000 multigraphs, thorough 1.2M + 0.6M. \
         non-trivial = at least 2 operations and at least one dependency. oracle: transitive closure for 'on or downstream of a cycle', relaxation for longest chain; any conforming layering accepted."
            .into(),
    );
}
