//! C01 — sequential composition is exactly the gluing (pushout) of the two diagrams.
//! Oracle: model::compose (disjoint union + naive closure of the boundary pairs), compared up to
//! a witness-producing isomorphism.  Bounds: see `run`.
use crate::ctx::{guard, Ctx};
use crate::model::*;
use open_hypergraphs::category::Arrow;
use serde_json::{json, Value};

type Check = fn(&mut Ctx, &Value);
const CHECKS: &[(&str, Check)] = &[("compose", chk_compose)];

/// input: {"f": model, "g": model}
fn chk_compose(ctx: &mut Ctx, input: &Value) {
    let (f, g) = match (M::from_json(&input["f"]), M::from_json(&input["g"])) {
        (Some(f), Some(g)) if f.valid() && g.valid() => (f, g),
        _ => return,
    };
    ctx.case("compose", input, f.nontrivial() && g.nontrivial());
    let expected = compose(&f, &g);
    let (sf, sg) = (f.to_strict(), g.to_strict());
    let got = guard(|| sf.compose(&sg));
    match (got, expected) {
        (Err(p), _) => ctx.fail("compose", "C01.no-panic", input, json!(format!("panic: {}", p)), json!("Some/None")),
        (Ok(None), None) => {}
        (Ok(None), Some(e)) => ctx.fail("compose", "C01.defined", input, json!("None"), e.json()),
        (Ok(Some(r)), None) => ctx.fail("compose", "C01.defined", input, json!(format!("{:?}", r)), json!("None (types differ)")),
        (Ok(Some(r)), Some(e)) => match strict_wf(&r) {
            Err(why) => ctx.fail("compose", "C05.compose-wf", input, json!(why), e.json()),
            Ok(m) => {
                if !is_iso(&m, &e) {
                    ctx.fail("compose", "C01.pushout", input, m.json(), e.json());
                }
            }
        },
    }
}

pub fn run(ctx: &mut Ctx) {
    if let Some((name, input)) = ctx.replay.clone() {
        for (n, c) in CHECKS {
            if *n == name {
                c(ctx, &input);
            }
        }
        return;
    }
    // corner cases: all ordered pairs
    let corners = corner_models();
    for f in &corners {
        for g in &corners {
            chk_compose(ctx, &json!({"f": f.json(), "g": g.json()}));
        }
    }
    // random pairs: composable by construction (2/3) or arbitrary (1/3)
    let n = ctx.budget(3000, 60000);
    for i in 0..n {
        let b = if i % 4 == 0 { MEDIUM } else { SMALL };
        let f = random_model(&mut ctx.rng, b);
        let g = if ctx.rng.chance(2, 3) { random_model_with_source(&mut ctx.rng, b, &f.target_type()) } else { random_model(&mut ctx.rng, b) };
        chk_compose(ctx, &json!({"f": f.json(), "g": g.json()}));
    }
    // long chains of identifications collapsing many nodes into one (needs depth in the union-find)
    for k in [2usize, 4, 6, 7] {
        let m = 1usize << k;
        // f: m nodes, outputs pair them up in a binary-tree pattern against g's inputs
        let f = M { w: vec![0; m], x: vec![], src: vec![], tgt: vec![], s: vec![0], t: (0..m - 1).map(|i| i + 1).chain(0..m - 1).collect() };
        let g = M { w: vec![0; m], x: vec![], src: vec![], tgt: vec![], s: (0..m - 1).chain((0..m - 1).map(|i| (i + 1) / 2)).collect(), t: vec![m - 1] };
        chk_compose(ctx, &json!({"f": f.json(), "g": g.json()}));
    }
    ctx.notes.push("rule: pairs (f,g) of plain models; non-trivial = both have a node and an edge or interface; bounds SMALL(3 nodes,2 edges,arity 2,iface 3,labels 2) and MEDIUM(5,3,3,4,2); corner list x corner list exhaustive".into());
}
