//! C01 — sequential composition is exactly the gluing (pushout) of the two diagrams.
//! Oracle: model::compose (disjoint union + naive closure of the boundary pairs), compared up to
//! a witness-producing isomorphism.  Bounds: see `run`.
use crate::ctx::{guard, Ctx};
use crate::model::*;
use open_hypergraphs::category::Arrow;
use serde_json::{json, Value};

type Check = fn(&mut Ctx, &Value);
const CHECKS: &[(&str, Check)] = &[("compose", chk_compose)];

/// input: {"f": model, "g": model}
fn chk_compose(ctx: &mut Ctx, input: &Value) {
    let (f, g) = match (M::from_json(&input["f"]), M::from_json(&input["g"])) {
        (Some(f), Some(g)) if f.valid() && g.valid() => (f, g),
        _ => return,
    };
    ctx.case("compose", input, f.nontrivial() && g.nontrivial());
    let expected = compose(&f, &g);
    let (sf, sg) = (f.to_strict(), g.to_strict());
    let got = guard(|| sf.compose(&sg));
    match (got, expected) {
        (Err(p), _) => ctx.fail("compose", "C01.no-panic", input, json!(format!("panic: {}", p)), json!("Some/None")),
        (Ok(None), None) => {}
        (Ok(None), Some(e)) => ctx.fail("compose", "C01.defined", input, json!("None"), e.json()),
        (Ok(Some(r)), None) => ctx.fail("compose", "C01.defined", input, json!(format!("{:?}", r)), json!("None (types differ)")),
        (Ok(Some(r)), Some(e)) => match strict_wf(&r) {
            Err(why) => ctx.fail("compose", "C05.compose-wf", input, json!(why), e.json()),
            Ok(m) => {
                if !is_iso(&m, &e) {
                    ctx.fail("compose", "C01.pushout", input, m.json(), e.json());
                }
            }
        },
    }
}

pub fn run(ctx: &mut Ctx) {
    if let Some((name, input)) = ctx.replay.clone() {
        for (n, c) in CHECKS {
            if *n == name {
                c(ctx, &input);
            }
        }
        return;
    }
    // corner cases: all ordered pairs
    let corners = corner_models();
    for f in &corners {
        for g in &corners {
            chk_compose(ctx, &json!({"f": f.json(), "g": g.json()}));
        }
    }
    // random pairs: composable by construction (2/3) or arbitrary (1/3)
    let n = ctx.budget(20000, 300000);
    for i in 0..n {
        let b = if i % 4 == 0 { MEDIUM } else { SMALL };
        let f = random_model(&mut ctx.rng, b);
        let g = if ctx.rng.chance(2, 3) { random_model_with_source(&mut ctx.rng, b, &f.target_type()) } else { random_model(&mut ctx.rng, b) };
        chk_compose(ctx, &json!({"f": f.json(), "g": g.json()}));
    }
    // chains of identifications collapsing many nodes into one, merged in binomial-tree order so that the
    // union-find behind the coequalizer reaches depth k+1 (pairs are (f.t[i], g.s[i]), in this order)
    for k in 1usize..=6 {
        let t = 1usize << k; // f has nodes F_0..F_{t-1}, g has nodes G_0..G_{t-1}
        let mut ft: Vec<usize> = (0..t).collect();
        let mut gs: Vec<usize> = (0..t).collect();
        for l in 1..=k {
            let step = 1usize << l;
            let mut i = 0;
            while i < t {
                ft.push(i);
                gs.push(i + step / 2);
                i += step;
            }
        }
        // mirrored variant: block roots are the highest-numbered nodes, so deep nodes sit below
        // higher-indexed ancestors
        let mut ft2: Vec<usize> = (0..t).collect();
        let mut gs2: Vec<usize> = (0..t).collect();
        for l in 1..=k {
            let step = 1usize << l;
            let mut i = 0;
            while i < t {
                ft2.push(i + step - 1);
                gs2.push(i + step / 2 - 1);
                i += step;
            }
        }
        {
            let f = M { w: vec![0; t], x: vec![10], src: vec![vec![0]], tgt: vec![vec![t - 1]], s: vec![0], t: ft2.clone() };
            let g = M { w: vec![0; t], x: vec![11], src: vec![vec![t - 1]], tgt: vec![vec![0]], s: gs2.clone(), t: vec![t - 1] };
            chk_compose(ctx, &json!({"f": f.json(), "g": g.json()}));
        }
        for labels in [vec![0u8; t], (0..t).map(|i| (i % 2) as u8).collect::<Vec<u8>>()] {
            let f = M { w: vec![0; t], x: vec![10], src: vec![vec![0]], tgt: vec![vec![t - 1]], s: vec![0], t: ft.clone() };
            let mut g = M { w: vec![0; t], x: vec![11], src: vec![vec![t - 1]], tgt: vec![vec![0]], s: gs.clone(), t: vec![t - 1] };
            if labels.iter().any(|&l| l != 0) {
                // a variant whose types differ somewhere: must be refused, not glued
                g.w = labels.clone();
            }
            chk_compose(ctx, &json!({"f": f.json(), "g": g.json()}));
        }
    }
    // discrete (spider-like) operands: equal legs, non-injective / non-surjective legs, as many legs as nodes
    let nsp = ctx.budget(1500, 20000);
    for _ in 0..nsp {
        let n = ctx.rng.range(1, 4);
        let labels = ctx.rng.range(1, 2);
        let w: Vec<u8> = (0..n).map(|_| ctx.rng.below(labels) as u8).collect();
        let ls = if ctx.rng.chance(1, 2) { n } else { ctx.rng.range(0, 4) };
        let s = ctx.rng.vec_below(ls, n);
        let t = if ctx.rng.chance(1, 2) { s.clone() } else { let lt = ctx.rng.range(0, 4); ctx.rng.vec_below(lt, n) };
        let sp = M { w, x: vec![], src: vec![], tgt: vec![], s, t };
        if ctx.rng.chance(1, 2) {
            // f ; spider  with f any model of matching target type
            let mut f = dagger(&random_model_with_source(&mut ctx.rng, SMALL, &sp.source_type()));
            if ctx.rng.chance(1, 3) { f = dagger(&identity(&sp.source_type())); }
            chk_compose(ctx, &json!({"f": f.json(), "g": sp.json()}));
        } else {
            let g = random_model_with_source(&mut ctx.rng, SMALL, &sp.target_type());
            chk_compose(ctx, &json!({"f": sp.json(), "g": g.json()}));
        }
    }
    // empty boundary: f : a -> I, g : I -> b
    for _ in 0..ctx.budget(300, 3000) {
        let mut f = random_model(&mut ctx.rng, SMALL);
        let mut g = random_model(&mut ctx.rng, SMALL);
        f.t = vec![];
        g.s = vec![];
        chk_compose(ctx, &json!({"f": f.json(), "g": g.json()}));
    }
    ctx.notes.push("rule: pairs (f,g) of plain models; non-trivial = both have a node and an edge or interface; bounds SMALL(3 nodes,2 edges,arity 2,iface 3,labels 2) and MEDIUM(5,3,3,4,2); corner list x corner list exhaustive".into());
}
