//! Bounded contract checker.  usage:
//!   ohg_bounded run <property> <quick|thorough> <seed> <report.json>
//!   ohg_bounded replay <replay.json>            (re-run one recorded input; prints the failing clause)
mod ctx;
mod model;

mod c01;
mod c02;
mod c03;
mod c04;
mod c05;
mod c06;
mod c07;
mod c08;
mod c09;
mod c10;
mod c11;
mod c12;
mod c13;
mod c14;
mod c15;
mod c16;
mod c17;
mod c18;
mod c19;
mod c20;

use ctx::Ctx;
use std::time::Instant;

fn dispatch(ctx: &mut Ctx) -> bool {
    match ctx.property.as_str() {
        "C01" => c01::run(ctx),
        "C02" => c02::run(ctx),
        "C03" => c03::run(ctx),
        "C04" => c04::run(ctx),
        "C05" => c05::run(ctx),
        "C06" => c06::run(ctx),
        "C07" => c07::run(ctx),
        "C08" => c08::run(ctx),
        "C09" => c09::run(ctx),
        "C10" => c10::run(ctx),
        "C11" => c11::run(ctx),
        "C12" => c12::run(ctx),
        "C13" => c13::run(ctx),
        "C14" => c14::run(ctx),
        "C15" => c15::run(ctx),
        "C16" => c16::run(ctx),
        "C17" => c17::run(ctx),
        "C18" => c18::run(ctx),
        "C19" => c19::run(ctx),
        "C20" => c20::run(ctx),
        _ => return false,
    }
    true
}

fn main() {
    let args: Vec<String> = std::env::args().collect();
    ctx::silence_panics();
    if args.len() >= 6 && args[1] == "run" {
        let seed: u64 = args[4].parse().unwrap_or(0);
        let mut c = Ctx::new(&args[2], &args[3], seed);
        let t0 = Instant::now();
        if !dispatch(&mut c) {
            eprintln!("unknown property {}", args[2]);
            std::process::exit(2);
        }
        let rep = c.report(t0.elapsed().as_secs_f64());
        std::fs::write(&args[5], serde_json::to_string_pretty(&rep).unwrap()).expect("write report");
        println!("bounded {}: {} evaluations, {} distinct non-trivial, {} failures", args[2], c.evaluations, c.distinct.len(), c.failures.len());
        std::process::exit(if c.failures.is_empty() { 0 } else { 1 });
    } else if args.len() >= 3 && args[1] == "replay" {
        let v: serde_json::Value = serde_json::from_str(&std::fs::read_to_string(&args[2]).expect("read replay")).expect("json");
        let prop = v["property"].as_str().unwrap_or("").to_string();
        let mut c = Ctx::new(&prop, "quick", v["seed"].as_u64().unwrap_or(0));
        c.replay = Some((v["check"].as_str().unwrap_or("").to_string(), v["input"].clone()));
        dispatch(&mut c);
        if c.failures.is_empty() {
            println!("replay: the recorded input no longer fails ({} evaluations)", c.evaluations);
            std::process::exit(0);
        }
        for f in &c.failures {
            println!("replay: check={} clause={} input={} observed={} expected={}", f.check, f.clause, f.input, f.observed, f.expected);
        }
        std::process::exit(1);
    } else {
        eprintln!("usage: ohg_bounded run <property> <quick|thorough> <seed> <report.json> | replay <file>");
        std::process::exit(2);
    }
}
