//! C07 — array primitives of the Vec backend meet their element-wise contract.
//! Oracle: each primitive re-stated from its scalar definition as plain loops over Vec; where the
//! contract leaves a choice (argsort, component numbering, sparse bincount order) every conforming
//! answer is accepted.  Generic primitives are exercised over `usize` and over `String`
//! (a non-Copy element type, derived from the usize input as "s<value>").
//! Bounds and enumeration rule: see `run`.
use crate::ctx::{guard, Ctx, Rng};
use open_hypergraphs::array::vec::*;
use open_hypergraphs::array::*;
use serde_json::{json, Value};
use std::fmt::Debug;
use std::ops::{Bound, RangeBounds};

type Check = fn(&mut Ctx, &Value);
const CHECKS: &[(&str, Check)] = &[
    ("basics", chk_basics),
    ("ranges", chk_ranges),
    ("gather", chk_gather),
    ("scatter", chk_scatter),
    ("scatter_assign", chk_scatter_assign),
    ("arith", chk_arith),
    ("arange", chk_arange),
    ("segments", chk_segments),
    ("sorting", chk_sorting),
    ("counting", chk_counting),
    ("components", chk_components),
    ("to_dense", chk_to_dense),
];

type A = VecArray<usize>;
type L = VecArray<String>;

fn us(v: &Value) -> Option<Vec<usize>> {
    v.as_array()?.iter().map(|x| x.as_u64().map(|y| y as usize)).collect()
}
fn num(v: &Value) -> Option<usize> {
    v.as_u64().map(|x| x as usize)
}
/// the generic-element twin of a usize array
fn lab(xs: &[usize]) -> Vec<String> {
    xs.iter().map(|v| format!("s{}", v)).collect()
}
const BIG: usize = 1 << 40;
fn small(xs: &[usize]) -> bool {
    xs.len() <= 4096 && xs.iter().all(|&v| v < BIG)
}

/// the call must return and equal `exp`
fn want<T: PartialEq + Debug>(ctx: &mut Ctx, chk: &str, clause: &str, what: &str, input: &Value, got: Result<T, String>, exp: &T) {
    match got {
        Err(p) => ctx.fail(chk, "C07.no-panic", input, json!(format!("{} panicked: {}", what, p)), json!(format!("{:?}", exp))),
        Ok(g) => {
            if &g != exp {
                ctx.fail(chk, clause, input, json!(format!("{} = {:?}", what, g)), json!(format!("{:?}", exp)));
            }
        }
    }
}

// ------------------------------------------------------------------------------------------------
// checks
// ------------------------------------------------------------------------------------------------

/// input {"xs": [..], "ys": [..], "x": v, "n": len}
fn chk_basics(ctx: &mut Ctx, input: &Value) {
    let (xs, ys, x, n) = match (us(&input["xs"]), us(&input["ys"]), num(&input["x"]), num(&input["n"])) {
        (Some(a), Some(b), Some(x), Some(n)) if small(&a) && small(&b) && n <= 4096 => (a, b, x, n),
        _ => return,
    };
    let c = "basics";
    ctx.case(c, input, !xs.is_empty() && !ys.is_empty());
    let cat: Vec<usize> = xs.iter().chain(ys.iter()).cloned().collect();
    let (ax, ay) = (VecArray(xs.clone()), VecArray(ys.clone()));
    let (lx, ly) = (VecArray(lab(&xs)), VecArray(lab(&ys)));
    want(ctx, c, "C07.len", "len", input, guard(|| (Array::len(&ax), Array::is_empty(&ax), Array::len(&lx), Array::is_empty(&lx))), &(xs.len(), xs.is_empty(), xs.len(), xs.is_empty()));
    want(ctx, c, "C07.empty", "empty", input, guard(|| (<A as Array<VecKind, usize>>::empty().0, <L as Array<VecKind, String>>::empty().0)), &(vec![], vec![]));
    want(ctx, c, "C07.from-slice", "from_slice", input, guard(|| (A::from_slice(&xs).0, L::from_slice(&lab(&xs)).0)), &(xs.clone(), lab(&xs)));
    want(ctx, c, "C07.concatenate", "concatenate", input, guard(|| (ax.concatenate(&ay).0, lx.concatenate(&ly).0)), &(cat.clone(), lab(&cat)));
    want(ctx, c, "C07.concatenate", "concatenate leaves operands unchanged", input, Ok((ax.0.clone(), ay.0.clone())), &(xs.clone(), ys.clone()));
    want(ctx, c, "C07.equality", "==", input, guard(|| (ax == ay, lx == ly, ax.clone() == ax, lx.clone() == lx)), &(xs == ys, xs == ys, true, true));
    want(ctx, c, "C07.fill", "fill", input, guard(|| (A::fill(x, n).0, L::fill(format!("s{}", x), n).0)), &(vec![x; n], vec![format!("s{}", x); n]));
    let each = guard(|| ((0..xs.len()).map(|i| ax.get(i)).collect::<Vec<_>>(), (0..xs.len()).map(|i| lx.get(i)).collect::<Vec<_>>()));
    want(ctx, c, "C07.get", "get(i) for every i", input, each, &(xs.clone(), lab(&xs)));
}

fn range_case<R: RangeBounds<usize> + Clone + Debug>(ctx: &mut Ctx, input: &Value, xs: &[usize], r: R, lo: usize, hi: usize) {
    let c = "ranges";
    let what = format!("{:?}", r);
    let ax = VecArray(xs.to_vec());
    let lx = VecArray(lab(xs));
    want(ctx, c, "C07.to-range", &format!("to_range({})", what), input, guard(|| ax.to_range(r.clone())), &(lo..hi));
    want(ctx, c, "C07.to-range", &format!("to_range({}) [generic]", what), input, guard(|| lx.to_range(r.clone())), &(lo..hi));
    let slice: Vec<usize> = (lo..hi).map(|i| xs[i]).collect();
    want(ctx, c, "C07.get-range", &format!("get_range({})", what), input, guard(|| (ax.get_range(r.clone()).to_vec(), lx.get_range(r.clone()).to_vec())), &(slice.clone(), lab(&slice)));
    // set_range: positions lo..hi are overwritten in order, everything else is untouched
    let vals: Vec<usize> = (0..hi - lo).map(|i| 1000 + i).collect();
    let mut exp = xs.to_vec();
    for i in lo..hi {
        exp[i] = vals[i - lo];
    }
    let got = guard(|| {
        let (mut a, mut l) = (ax.clone(), lx.clone());
        a.set_range(r.clone(), &VecArray(vals.clone()));
        l.set_range(r.clone(), &VecArray(lab(&vals)));
        (a.0, l.0)
    });
    want(ctx, c, "C07.set-range", &format!("set_range({})", what), input, got, &(exp.clone(), lab(&exp)));
}

/// input {"xs": [..], "a": lo, "b": hi} with lo <= hi <= len
fn chk_ranges(ctx: &mut Ctx, input: &Value) {
    let (xs, a, b) = match (us(&input["xs"]), num(&input["a"]), num(&input["b"])) {
        (Some(xs), Some(a), Some(b)) if small(&xs) && a <= b && b <= xs.len() => (xs, a, b),
        _ => return,
    };
    let n = xs.len();
    ctx.case("ranges", input, a < b && (a > 0 || b < n));
    range_case(ctx, input, &xs, .., 0, n);
    range_case(ctx, input, &xs, a.., a, n);
    range_case(ctx, input, &xs, ..b, 0, b);
    range_case(ctx, input, &xs, a..b, a, b);
    range_case(ctx, input, &xs, (Bound::Included(a), Bound::Excluded(b)), a, b);
    range_case(ctx, input, &xs, (Bound::Included(a), Bound::Unbounded), a, n);
    range_case(ctx, input, &xs, (Bound::Unbounded, Bound::Excluded(b)), 0, b);
    if b >= 1 {
        range_case(ctx, input, &xs, ..=(b - 1), 0, b);
        range_case(ctx, input, &xs, (Bound::Unbounded, Bound::Included(b - 1)), 0, b);
        if a < b {
            range_case(ctx, input, &xs, a..=(b - 1), a, b);
            range_case(ctx, input, &xs, (Bound::Included(a), Bound::Included(b - 1)), a, b);
        }
    }
    if a >= 1 {
        range_case(ctx, input, &xs, (Bound::Excluded(a - 1), Bound::Excluded(b)), a, b);
        range_case(ctx, input, &xs, (Bound::Excluded(a - 1), Bound::Unbounded), a, n);
        if b > a {
            range_case(ctx, input, &xs, (Bound::Excluded(a - 1), Bound::Included(b - 1)), a, b);
        }
    }
}

/// input {"xs": [..], "idx": [..]} with idx[i] < len(xs)
fn chk_gather(ctx: &mut Ctx, input: &Value) {
    let (xs, idx) = match (us(&input["xs"]), us(&input["idx"])) {
        (Some(xs), Some(idx)) if small(&xs) && idx.len() <= 4096 && idx.iter().all(|&i| i < xs.len()) => (xs, idx),
        _ => return,
    };
    ctx.case("gather", input, idx.len() > 1);
    let mut exp = vec![];
    for &i in &idx {
        exp.push(xs[i]);
    }
    let (ax, lx) = (VecArray(xs.clone()), VecArray(lab(&xs)));
    want(ctx, "gather", "C07.gather", "gather", input, guard(|| (ax.gather(&idx).0, lx.gather(&idx).0)), &(exp.clone(), lab(&exp)));
}

/// input {"xs": [..], "idx": [..], "n": size} with len(idx) == len(xs), idx[i] < n
fn chk_scatter(ctx: &mut Ctx, input: &Value) {
    let (xs, idx, n) = match (us(&input["xs"]), us(&input["idx"]), num(&input["n"])) {
        (Some(xs), Some(idx), Some(n)) if small(&xs) && n <= 4096 && idx.len() == xs.len() && idx.iter().all(|&i| i < n) => (xs, idx, n),
        _ => return,
    };
    let c = "scatter";
    ctx.case(c, input, xs.len() > 1);
    // x[idx[i]] = self[i], executed for i = 0, 1, ...; positions never written are unspecified
    let mut exp: Vec<Option<usize>> = vec![None; n];
    for i in 0..xs.len() {
        exp[idx[i]] = Some(xs[i]);
    }
    // with nothing to scatter there is no element to fill a generic array with: the result is empty
    let exp_len = if xs.is_empty() { 0 } else { n };
    let (ax, lx) = (VecArray(xs.clone()), VecArray(lab(&xs)));
    match guard(|| (ax.scatter(&idx, n).0, lx.scatter(&idx, n).0)) {
        Err(p) => ctx.fail(c, "C07.no-panic", input, json!(format!("scatter panicked: {}", p)), json!(format!("{:?}", exp))),
        Ok((g, gl)) => {
            if g.len() != exp_len || gl.len() != exp_len {
                return ctx.fail(c, "C07.scatter-len", input, json!({"usize": g, "generic": gl}), json!(exp_len));
            }
            if xs.is_empty() {
                return;
            }
            for p in 0..n {
                if let Some(v) = exp[p] {
                    if g[p] != v || gl[p] != format!("s{}", v) {
                        return ctx.fail(c, "C07.scatter", input, json!({"usize": g, "generic": gl}), json!(format!("position {} holds {}; full: {:?}", p, v, exp)));
                    }
                }
            }
        }
    }
}

/// input {"base": [..], "idx": [..], "vals": [..], "c": v} with idx[i] < len(base), len(vals) == len(idx)
fn chk_scatter_assign(ctx: &mut Ctx, input: &Value) {
    let (base, idx, vals, cst) = match (us(&input["base"]), us(&input["idx"]), us(&input["vals"]), num(&input["c"])) {
        (Some(b), Some(i), Some(v), Some(c)) if small(&b) && small(&v) && c < BIG && i.len() == v.len() && i.iter().all(|&k| k < b.len()) => (b, i, v, c),
        _ => return,
    };
    let c = "scatter_assign";
    ctx.case(c, input, idx.len() > 1);
    let aidx = VecArray(idx.clone());
    // self[ixs[i]] = values[i] in order
    let mut exp = base.clone();
    for i in 0..idx.len() {
        exp[idx[i]] = vals[i];
    }
    let got = guard(|| {
        let (mut a, mut l) = (VecArray(base.clone()), VecArray(lab(&base)));
        a.scatter_assign(&aidx, VecArray(vals.clone()));
        l.scatter_assign(&aidx, VecArray(lab(&vals)));
        (a.0, l.0)
    });
    want(ctx, c, "C07.scatter-assign", "scatter_assign", input, got, &(exp.clone(), lab(&exp)));
    // self[ixs] = constant
    let mut exp = base.clone();
    for &i in &idx {
        exp[i] = cst;
    }
    let got = guard(|| {
        let (mut a, mut l) = (VecArray(base.clone()), VecArray(lab(&base)));
        a.scatter_assign_constant(&aidx, cst);
        l.scatter_assign_constant(&aidx, format!("s{}", cst));
        (a.0, l.0)
    });
    want(ctx, c, "C07.scatter-assign-constant", "scatter_assign_constant", input, got, &(exp.clone(), lab(&exp)));
    // self[ixs[i]] -= rhs[i], accumulating over repeated indices; inside the precondition only when nothing underflows
    let mut exp: Vec<usize> = base.clone();
    let mut ok = true;
    for i in 0..idx.len() {
        match exp[idx[i]].checked_sub(vals[i]) {
            Some(v) => exp[idx[i]] = v,
            None => ok = false,
        }
    }
    if ok {
        let got = guard(|| {
            let mut a = VecArray(base.clone());
            a.scatter_sub_assign(&aidx, &VecArray(vals.clone()));
            a.0
        });
        want(ctx, c, "C07.scatter-sub-assign", "scatter_sub_assign", input, got, &exp);
    }
}

/// input {"xs": [..], "ys": [..], "c": v, "d": v} with len(xs) == len(ys), d > 0
fn chk_arith(ctx: &mut Ctx, input: &Value) {
    let (xs, ys, k, d) = match (us(&input["xs"]), us(&input["ys"]), num(&input["c"]), num(&input["d"])) {
        (Some(x), Some(y), Some(c), Some(d)) if small(&x) && small(&y) && x.len() == y.len() && c < (1 << 20) && d > 0 && x.iter().all(|&v| v < (1 << 20)) => (x, y, c, d),
        _ => return,
    };
    let c = "arith";
    ctx.case(c, input, xs.len() > 1);
    let (ax, ay) = (VecArray(xs.clone()), VecArray(ys.clone()));
    let n = xs.len();
    let sum: Vec<usize> = (0..n).map(|i| xs[i] + ys[i]).collect();
    want(ctx, c, "C07.add", "xs + ys", input, guard(|| (ax.clone() + ay.clone()).0), &sum);
    want(ctx, c, "C07.sub", "(xs + ys) - ys", input, guard(|| (VecArray(sum.clone()) - ay.clone()).0), &xs);
    want(ctx, c, "C07.sub", "(xs + ys) - xs", input, guard(|| (VecArray(sum.clone()) - ax.clone()).0), &ys);
    if (0..n).all(|i| xs[i] >= ys[i]) {
        want(ctx, c, "C07.sub", "xs - ys", input, guard(|| (ax.clone() - ay.clone()).0), &(0..n).map(|i| xs[i] - ys[i]).collect());
    }
    want(ctx, c, "C07.add-constant", "c + &xs", input, guard(|| (k + &ax).0), &xs.iter().map(|&v| k + v).collect());
    want(ctx, c, "C07.mul-constant-add", "xs.mul_constant_add(c, ys)", input, guard(|| ax.mul_constant_add(k, &ay).0), &(0..n).map(|i| xs[i] * k + ys[i]).collect());
    let (mut q, mut r) = (vec![], vec![]);
    for &v in &xs {
        // the unique (q, r) with v == q*d + r and r < d
        let mut qq = 0;
        while (qq + 1) * d <= v {
            qq += 1;
        }
        q.push(qq);
        r.push(v - qq * d);
    }
    want(ctx, c, "C07.quot-rem", "xs.quot_rem(d)", input, guard(|| { let (a, b) = ax.quot_rem(d); (a.0, b.0) }), &(q, r));
    let mut mx: Option<usize> = None;
    for &v in &xs {
        if mx.map_or(true, |m| v > m) {
            mx = Some(v);
        }
    }
    want(ctx, c, "C07.max", "max", input, guard(|| ax.max()), &mx);
    let mut cs = vec![0usize];
    for &v in &xs {
        cs.push(cs[cs.len() - 1] + v);
    }
    want(ctx, c, "C07.sum", "sum", input, guard(|| ax.sum()), &cs[n]);
    want(ctx, c, "C07.cumulative-sum", "cumulative_sum", input, guard(|| ax.cumulative_sum().0), &cs);
}

/// input {"start": a, "stop": b} with a <= b
fn chk_arange(ctx: &mut Ctx, input: &Value) {
    let (a, b) = match (num(&input["start"]), num(&input["stop"])) {
        (Some(a), Some(b)) if a <= b && b - a <= 4096 && b < BIG => (a, b),
        _ => return,
    };
    ctx.case("arange", input, a > 0 && b > a);
    let mut exp = vec![];
    let mut v = a;
    while v < b {
        exp.push(v);
        v += 1;
    }
    want(ctx, "arange", "C07.arange", "arange", input, guard(|| A::arange(&a, &b).0), &exp);
}

/// input {"counts": [..], "vals": [..], "xs": [..]} with len(vals) == len(counts); xs is used for the
/// segmented sum when len(xs) == sum(counts)
fn chk_segments(ctx: &mut Ctx, input: &Value) {
    let (counts, vals, xs) = match (us(&input["counts"]), us(&input["vals"]), us(&input["xs"])) {
        (Some(c), Some(v), Some(x)) if small(&c) && small(&v) && small(&x) && c.len() == v.len() && c.iter().sum::<usize>() <= 4096 => (c, v, x),
        _ => return,
    };
    let c = "segments";
    ctx.case(c, input, counts.len() > 1 && counts.iter().any(|&k| k > 1));
    let ac = VecArray(counts.clone());
    let mut rep = vec![];
    let mut seg = vec![];
    for i in 0..counts.len() {
        for j in 0..counts[i] {
            rep.push(vals[i]);
            seg.push(j);
        }
    }
    want(ctx, c, "C07.repeat", "counts.repeat(vals)", input, guard(|| ac.repeat(&vals).0), &rep);
    want(ctx, c, "C07.segmented-arange", "counts.segmented_arange()", input, guard(|| ac.segmented_arange().0), &seg);
    if xs.len() == counts.iter().sum::<usize>() {
        let mut sums = vec![];
        let mut p = 0;
        for &k in &counts {
            let mut s = 0;
            for j in 0..k {
                s += xs[p + j];
            }
            p += k;
            sums.push(s);
        }
        want(ctx, c, "C07.segmented-sum", "counts.segmented_sum(xs)", input, guard(|| ac.segmented_sum(&VecArray(xs.clone())).0), &sums);
    }
}

fn is_permutation(p: &[usize], n: usize) -> bool {
    let mut seen = vec![false; n];
    p.len() == n && p.iter().all(|&i| i < n && !std::mem::replace(&mut seen[i], true))
}

/// any order in which the keys are non-decreasing is accepted; within equal keys the values may come
/// in any order, so compare the sorted (key, value) pairs block by block
fn conforming_sort_by<T: Ord + Clone + Debug>(vals: &[T], keys: &[T], got: &[T]) -> bool {
    if got.len() != vals.len() {
        return false;
    }
    let mut pairs: Vec<(T, T)> = keys.iter().cloned().zip(vals.iter().cloned()).collect();
    // selection sort on the key only
    for i in 0..pairs.len() {
        let mut m = i;
        for j in i + 1..pairs.len() {
            if pairs[j].0 < pairs[m].0 {
                m = j;
            }
        }
        pairs.swap(i, m);
    }
    let mut i = 0;
    while i < pairs.len() {
        let mut j = i;
        while j < pairs.len() && pairs[j].0 == pairs[i].0 {
            j += 1;
        }
        let mut want: Vec<T> = pairs[i..j].iter().map(|p| p.1.clone()).collect();
        let mut have: Vec<T> = got[i..j].to_vec();
        want.sort();
        have.sort();
        if want != have {
            return false;
        }
        i = j;
    }
    true
}

/// input {"xs": [..], "keys": [..]} (keys used for sort_by when len(keys) == len(xs))
fn chk_sorting(ctx: &mut Ctx, input: &Value) {
    let (xs, keys) = match (us(&input["xs"]), us(&input["keys"])) {
        (Some(x), Some(k)) if small(&x) && small(&k) => (x, k),
        _ => return,
    };
    let c = "sorting";
    ctx.case(c, input, xs.len() > 2 && xs.windows(2).any(|w| w[0] > w[1]));
    let (ax, lx) = (VecArray(xs.clone()), VecArray(lab(&xs)));
    let ls = lab(&xs);
    match guard(|| (ax.argsort().0, lx.argsort().0)) {
        Err(p) => ctx.fail(c, "C07.no-panic", input, json!(format!("argsort panicked: {}", p)), json!("a sorting permutation")),
        Ok((p, pl)) => {
            if !is_permutation(&p, xs.len()) || !is_permutation(&pl, xs.len()) {
                ctx.fail(c, "C07.argsort-permutation", input, json!({"usize": p, "generic": pl}), json!(format!("a permutation of 0..{}", xs.len())));
            } else if p.windows(2).any(|w| xs[w[0]] > xs[w[1]]) || pl.windows(2).any(|w| ls[w[0]] > ls[w[1]]) {
                ctx.fail(c, "C07.argsort-sorts", input, json!({"usize": p, "generic": pl}), json!("gathering by the result is non-decreasing"));
            }
        }
    }
    if keys.len() == xs.len() {
        let (ak, lk) = (VecArray(keys.clone()), VecArray(lab(&keys)));
        match guard(|| (ax.sort_by(&ak).0, lx.sort_by(&lk).0)) {
            Err(p) => ctx.fail(c, "C07.no-panic", input, json!(format!("sort_by panicked: {}", p)), json!("values ordered by key")),
            Ok((g, gl)) => {
                if !conforming_sort_by(&xs, &keys, &g) || !conforming_sort_by(&ls, &lab(&keys), &gl) {
                    ctx.fail(c, "C07.sort-by", input, json!({"usize": g, "generic": gl}), json!("the values rearranged so that their keys are non-decreasing"));
                }
            }
        }
    }
}

/// input {"xs": [..], "size": n} (bincount when every x < size)
fn chk_counting(ctx: &mut Ctx, input: &Value) {
    let (xs, size) = match (us(&input["xs"]), num(&input["size"])) {
        (Some(x), Some(s)) if small(&x) && s <= 4096 => (x, s),
        _ => return,
    };
    let c = "counting";
    ctx.case(c, input, xs.len() > 1);
    let ax = VecArray(xs.clone());
    if xs.iter().all(|&v| v < size) {
        let mut exp = vec![];
        for v in 0..size {
            exp.push(xs.iter().filter(|&&x| x == v).count());
        }
        want(ctx, c, "C07.bincount", "bincount", input, guard(|| ax.bincount(size).0), &exp);
    }
    match guard(|| ax.sparse_bincount()) {
        Err(p) => ctx.fail(c, "C07.no-panic", input, json!(format!("sparse_bincount panicked: {}", p)), json!("(values, counts)")),
        Ok((u, k)) => {
            let (u, k) = (u.0, k.0);
            let mut ok = u.len() == k.len();
            // each listed value occurs, is listed once, and carries its number of occurrences
            for i in 0..u.len().min(k.len()) {
                ok &= k[i] > 0 && xs.iter().filter(|&&x| x == u[i]).count() == k[i];
                ok &= !u[..i].contains(&u[i]);
            }
            // each occurring value is listed
            ok &= xs.iter().all(|x| u.contains(x));
            if !ok {
                ctx.fail(c, "C07.sparse-bincount", input, json!({"values": u, "counts": k}), json!("each occurring value once, with its count"));
            }
        }
    }
    let mut z = vec![];
    for i in 0..xs.len() {
        if xs[i] == 0 {
            z.push(i);
        }
    }
    want(ctx, c, "C07.zero", "zero", input, guard(|| ax.zero().0), &z);
}

/// label[u] == label[v] iff u and v are joined by a chain of edges (naive fixpoint)
fn o_closure(n: usize, a: &[usize], b: &[usize]) -> Vec<usize> {
    let mut lab: Vec<usize> = (0..n).collect();
    loop {
        let mut changed = false;
        for i in 0..a.len() {
            let m = lab[a[i]].min(lab[b[i]]);
            if lab[a[i]] != m || lab[b[i]] != m {
                lab[a[i]] = m;
                lab[b[i]] = m;
                changed = true;
            }
        }
        if !changed {
            return lab;
        }
    }
}

/// a dense numbering 0..k with `same` deciding which positions share a number
fn dense_numbering_violation(got: &[usize], k: usize, classes: &[usize]) -> Option<String> {
    let n = classes.len();
    if got.len() != n {
        return Some(format!("{} labels for {} positions", got.len(), n));
    }
    if let Some(v) = got.iter().find(|&&v| v >= k) {
        return Some(format!("label {} is not below the reported count {}", v, k));
    }
    if let Some(cl) = (0..k).find(|cl| !got.contains(cl)) {
        return Some(format!("number {} of 0..{} is unused", cl, k));
    }
    for u in 0..n {
        for v in 0..u {
            if (got[u] == got[v]) != (classes[u] == classes[v]) {
                return Some(format!("positions {} and {}: together = {}, expected {}", v, u, got[u] == got[v], classes[u] == classes[v]));
            }
        }
    }
    None
}

/// input {"s": [..], "t": [..], "n": nodes} with len(s) == len(t), entries < n
fn chk_components(ctx: &mut Ctx, input: &Value) {
    let (s, t, n) = match (us(&input["s"]), us(&input["t"]), num(&input["n"])) {
        (Some(s), Some(t), Some(n)) if n <= 512 && s.len() <= 4096 && s.len() == t.len() && s.iter().chain(t.iter()).all(|&v| v < n) => (s, t, n),
        _ => return,
    };
    let c = "components";
    let classes = o_closure(n, &s, &t);
    let merged = (0..n).any(|u| classes[u] != u);
    ctx.case(c, input, merged && (0..n).any(|u| classes[u] != classes[0]));
    let (asrc, atgt) = (VecArray(s.clone()), VecArray(t.clone()));
    let calls: [(&str, Result<(Vec<usize>, usize), String>); 2] = [
        ("NaturalArray::connected_components", guard(|| { let (l, k) = <A as NaturalArray<VecKind>>::connected_components(&asrc, &atgt, n); (l.0, k) })),
        ("vec::connected_components", guard(|| connected_components(&s, &t, n))),
    ];
    for (what, got) in calls {
        match got {
            Err(p) => ctx.fail(c, "C07.no-panic", input, json!(format!("{} panicked: {}", what, p)), json!(classes)),
            Ok((l, k)) => {
                if let Some(why) = dense_numbering_violation(&l, k, &classes) {
                    let clause = if why.contains("together = true") { "C07.components-apart" } else if why.contains("together = false") { "C07.components-together" } else { "C07.components-dense" };
                    ctx.fail(c, clause, input, json!({"call": what, "labels": l, "count": k, "why": why}), json!({"classes": classes}));
                }
            }
        }
    }
}

/// input {"xs": [..]}
fn chk_to_dense(ctx: &mut Ctx, input: &Value) {
    let xs = match us(&input["xs"]) {
        Some(x) if x.len() <= 512 => x,
        _ => return,
    };
    ctx.case("to_dense", input, xs.len() > 2);
    match guard(|| to_dense(&xs)) {
        Err(p) => ctx.fail("to_dense", "C07.no-panic", input, json!(format!("to_dense panicked: {}", p)), json!("a dense renumbering")),
        Ok((l, k)) => {
            if let Some(why) = dense_numbering_violation(&l, k, &xs) {
                ctx.fail("to_dense", "C07.to-dense", input, json!({"labels": l, "count": k, "why": why}), json!("equal entries get equal numbers, distinct entries distinct numbers, numbers are exactly 0..k"));
            }
        }
    }
}

// ------------------------------------------------------------------------------------------------
// generators
// ------------------------------------------------------------------------------------------------
fn all_tables(len: usize, n: usize) -> Vec<Vec<usize>> {
    let mut out = vec![vec![]];
    for _ in 0..len {
        let mut next = vec![];
        for t in &out {
            for v in 0..n {
                let mut t2 = t.clone();
                t2.push(v);
                next.push(t2);
            }
        }
        out = next;
    }
    out
}
fn all_arrays(max_len: usize, n: usize) -> Vec<Vec<usize>> {
    (0..=max_len).flat_map(|l| all_tables(l, n)).collect()
}
fn corner_arrays() -> Vec<Vec<usize>> {
    vec![
        vec![],
        vec![0],
        vec![7],
        vec![0, 0, 0],
        vec![1, 2, 3],
        vec![3, 2, 1],
        vec![2, 2, 2, 2],
        vec![0, 1, 0, 2, 0, 3],
        vec![5, 0, 0],
        vec![0, 0, 5],
        vec![1000, 3, 1000, 0, 999],
        vec![1, 1, 2, 2, 1, 1],
        vec![9, 8, 7, 6, 5, 4, 3, 2, 1, 0],
        vec![0, 1, 2, 3, 4, 5, 6, 7, 8, 9],
        vec![4, 4, 0, 4, 4, 0, 4],
    ]
}
fn rand_array(r: &mut Rng, max_len: usize, n: usize) -> Vec<usize> {
    let len = r.below(max_len + 1);
    r.vec_below(len, n)
}
fn shuffled(r: &mut Rng, n: usize) -> Vec<usize> {
    let mut t: Vec<usize> = (0..n).collect();
    for i in (1..n).rev() {
        let j = r.below(i + 1);
        t.swap(i, j);
    }
    t
}
/// merges two groups of 2^k nodes in binomial-tree order (always two equally large trees), through
/// arbitrary members; optionally joins the two groups at the end
fn binomial_edges(r: &mut Rng, k: usize, join: bool, random_members: bool) -> (Vec<usize>, Vec<usize>, usize) {
    let m = 1usize << k;
    let (mut a, mut b) = (vec![], vec![]);
    for base in [0, m] {
        for d in 0..k {
            let half = 1usize << d;
            let mut start = base;
            while start < base + m {
                let (x, y) = if random_members { (start + r.below(half), start + half + r.below(half)) } else { (start + half - 1, start + 2 * half - 1) };
                if r.chance(1, 2) {
                    a.push(x);
                    b.push(y);
                } else {
                    a.push(y);
                    b.push(x);
                }
                start += 2 * half;
            }
        }
    }
    if join {
        a.push(m - 1);
        b.push(2 * m - 1);
    }
    (a, b, 2 * m)
}

pub fn run(ctx: &mut Ctx) {
    if let Some((name, input)) = ctx.replay.clone() {
        for (n, c) in CHECKS {
            if *n == name {
                c(ctx, &input);
            }
        }
        return;
    }
    let corners = corner_arrays();
    let tiny = all_arrays(3, 3); // 40 arrays
    let thorough = ctx.thorough();

    // ---- basics: corner x corner, tiny x tiny
    for (i, xs) in corners.iter().enumerate() {
        for (j, ys) in corners.iter().enumerate() {
            chk_basics(ctx, &json!({"xs": xs, "ys": ys, "x": i, "n": j % 4}));
        }
    }
    for xs in &tiny {
        for ys in &tiny {
            chk_basics(ctx, &json!({"xs": xs, "ys": ys, "x": xs.len(), "n": ys.len()}));
        }
    }
    for _ in 0..ctx.budget(2500, 200000) {
        let (xs, ys) = (rand_array(&mut ctx.rng, 9, 50), rand_array(&mut ctx.rng, 9, 50));
        let v = json!({"xs": xs, "ys": ys, "x": ctx.rng.below(100), "n": ctx.rng.below(12)});
        chk_basics(ctx, &v);
    }

    // ---- ranges: every 0 <= a <= b <= n for n <= 7, in all range forms
    for n in 0..=7usize {
        let xs: Vec<usize> = (0..n).map(|i| 10 + 3 * i).collect();
        for a in 0..=n {
            for b in a..=n {
                chk_ranges(ctx, &json!({"xs": xs, "a": a, "b": b}));
            }
        }
    }
    for _ in 0..ctx.budget(1500, 100000) {
        let xs = rand_array(&mut ctx.rng, 12, 50);
        let b = ctx.rng.below(xs.len() + 1);
        let a = ctx.rng.below(b + 1);
        chk_ranges(ctx, &json!({"xs": xs, "a": a, "b": b}));
    }

    // ---- gather: every index table of length <= 3 (<= 4 thorough) into arrays of length <= 4
    for n in 0..=4usize {
        let xs: Vec<usize> = (0..n).map(|i| 20 + 7 * i).collect();
        for len in 0..=(if thorough { 4 } else { 3 }) {
            if n == 0 && len > 0 {
                continue;
            }
            for idx in all_tables(len, n) {
                chk_gather(ctx, &json!({"xs": xs, "idx": idx}));
            }
        }
    }
    for xs in &corners {
        if !xs.is_empty() {
            let n = xs.len();
            chk_gather(ctx, &json!({"xs": xs, "idx": (0..n).rev().collect::<Vec<_>>()}));
            chk_gather(ctx, &json!({"xs": xs, "idx": vec![n - 1; 3 * n]}));
            chk_gather(ctx, &json!({"xs": xs, "idx": Vec::<usize>::new()}));
        }
    }
    for _ in 0..ctx.budget(4000, 400000) {
        let n = ctx.rng.range(1, 9);
        let xs = ctx.rng.vec_below(n, 30);
        let len = ctx.rng.below(2 * n + 2);
        let idx = ctx.rng.vec_below(len, n);
        chk_gather(ctx, &json!({"xs": xs, "idx": idx}));
    }

    // ---- scatter: every index table of length <= 3 (<= 4) into n <= 4 (distinct values, so that the
    //      winner among repeated indices is visible), plus larger n than needed
    for len in 0..=(if thorough { 4usize } else { 3 }) {
        let xs: Vec<usize> = (0..len).map(|i| 20 + 7 * i).collect();
        for n in 0..=4usize {
            if n == 0 && len > 0 {
                continue;
            }
            for idx in all_tables(len, n) {
                chk_scatter(ctx, &json!({"xs": xs, "idx": idx, "n": n}));
            }
        }
    }
    chk_scatter(ctx, &json!({"xs": [], "idx": [], "n": 0}));
    chk_scatter(ctx, &json!({"xs": [], "idx": [], "n": 5}));
    chk_scatter(ctx, &json!({"xs": [0, 2, 1, 2], "idx": [2, 1, 0, 2], "n": 3}));
    for _ in 0..ctx.budget(4000, 400000) {
        let n = ctx.rng.range(1, 9);
        let len = ctx.rng.below(2 * n + 2);
        let xs = if ctx.rng.chance(1, 2) { shuffled(&mut ctx.rng, len) } else { ctx.rng.vec_below(len, 5) };
        // surjective index tables (permutations / with repeats) half of the time
        let idx = if len >= n && ctx.rng.chance(1, 2) {
            let mut t = shuffled(&mut ctx.rng, n);
            for _ in n..len {
                t.push(ctx.rng.below(n));
            }
            let p = shuffled(&mut ctx.rng, len);
            p.iter().map(|&i| t[i]).collect()
        } else {
            ctx.rng.vec_below(len, n)
        };
        chk_scatter(ctx, &json!({"xs": xs, "idx": idx, "n": n}));
    }

    // ---- scatter-assign forms: every index table of length <= 3 into a base of length <= 3
    for n in 0..=3usize {
        let base: Vec<usize> = (0..n).map(|i| 50 + i).collect();
        for len in 0..=3usize {
            if n == 0 && len > 0 {
                continue;
            }
            let vals: Vec<usize> = (0..len).map(|i| 3 + 2 * i).collect();
            for idx in all_tables(len, n) {
                chk_scatter_assign(ctx, &json!({"base": base, "idx": idx, "vals": vals, "c": 9}));
            }
        }
    }
    chk_scatter_assign(ctx, &json!({"base": [0, 1, 2, 3, 4, 5], "idx": [0, 2, 4], "vals": [1, 1, 1], "c": 10}));
    chk_scatter_assign(ctx, &json!({"base": [10, 10], "idx": [1, 1, 1, 1, 1], "vals": [2, 2, 2, 2, 2], "c": 0}));
    chk_scatter_assign(ctx, &json!({"base": [3, 0], "idx": [0, 0, 0], "vals": [1, 1, 1], "c": 0}));
    for _ in 0..ctx.budget(4000, 400000) {
        let n = ctx.rng.range(1, 8);
        let len = ctx.rng.below(2 * n + 2);
        let idx = ctx.rng.vec_below(len, n);
        let vals = ctx.rng.vec_below(len, 6);
        // large enough bases half of the time so that repeated subtraction stays inside the precondition
        let lo = if ctx.rng.chance(1, 2) { 6 * len } else { 0 };
        let base: Vec<usize> = (0..n).map(|_| lo + ctx.rng.below(8)).collect();
        let v = json!({"base": base, "idx": idx, "vals": vals, "c": ctx.rng.below(20)});
        chk_scatter_assign(ctx, &v);
    }

    // ---- arithmetic, max, sums
    for xs in &tiny {
        let ys: Vec<usize> = xs.iter().enumerate().map(|(i, &v)| (v + i) % 3).collect();
        for (k, d) in [(0usize, 1usize), (1, 2), (3, 3)] {
            chk_arith(ctx, &json!({"xs": xs, "ys": ys, "c": k, "d": d}));
        }
    }
    for xs in &corners {
        let ys: Vec<usize> = xs.iter().rev().cloned().collect();
        for (k, d) in [(0usize, 1usize), (2, 1000), (7, 4), (1, 1001)] {
            chk_arith(ctx, &json!({"xs": xs, "ys": ys, "c": k, "d": d}));
        }
    }
    for _ in 0..ctx.budget(4000, 400000) {
        let len = ctx.rng.below(10);
        let m = if ctx.rng.chance(1, 4) { 1000 } else { 12 };
        let xs = ctx.rng.vec_below(len, m);
        let ys = ctx.rng.vec_below(len, m);
        let v = json!({"xs": xs, "ys": ys, "c": ctx.rng.below(9), "d": ctx.rng.range(1, 13)});
        chk_arith(ctx, &v);
    }

    // ---- arange: all 0 <= start <= stop <= 8
    for a in 0..=8usize {
        for b in a..=8 {
            chk_arange(ctx, &json!({"start": a, "stop": b}));
        }
    }
    chk_arange(ctx, &json!({"start": 1000, "stop": 1003}));
    chk_arange(ctx, &json!({"start": 1000, "stop": 1000}));

    // ---- repeat / segmented arange / segmented sum: all count arrays of length <= 4 with entries <= 2
    //      (<= 3 thorough); zero-sized segments first, last, adjacent, everywhere
    let seg = |ctx: &mut Ctx, counts: &[usize]| {
        let vals: Vec<usize> = (0..counts.len()).map(|i| 5 + 2 * i).collect();
        let total: usize = counts.iter().sum();
        let xs: Vec<usize> = (0..total).map(|i| 1 + (i * 7) % 5).collect();
        chk_segments(ctx, &json!({"counts": counts, "vals": vals, "xs": xs}));
    };
    for counts in all_arrays(4, if thorough { 4 } else { 3 }) {
        seg(ctx, &counts);
    }
    for counts in [vec![2usize, 3, 0, 5], vec![0, 0, 0, 0, 0], vec![1, 2, 0], vec![0, 7], vec![7, 0], vec![0, 0, 3, 0, 0, 2, 0], vec![1; 12], vec![12], vec![2, 4]] {
        seg(ctx, &counts);
    }
    chk_segments(ctx, &json!({"counts": [2, 4], "vals": [0, 0], "xs": [1, 2, 3, 4, 5, 6]}));
    chk_segments(ctx, &json!({"counts": [1, 2, 0], "vals": [0, 0, 0], "xs": [1, 2, 3]}));
    for _ in 0..ctx.budget(4000, 400000) {
        let len = ctx.rng.below(8);
        let counts: Vec<usize> = (0..len).map(|_| if ctx.rng.chance(1, 3) { 0 } else { ctx.rng.below(5) }).collect();
        let vals = ctx.rng.vec_below(len, 40);
        let total: usize = counts.iter().sum();
        let xs = ctx.rng.vec_below(total, 30);
        chk_segments(ctx, &json!({"counts": counts, "vals": vals, "xs": xs}));
    }

    // ---- argsort / sort_by: all arrays of length <= 4 with entries <= 2 (<= 5, <= 3 thorough)
    for xs in all_arrays(if thorough { 5 } else { 4 }, 3).iter().chain(corners.iter()) {
        let keys: Vec<usize> = xs.iter().enumerate().map(|(i, &v)| (v * 2 + i) % 3).collect();
        chk_sorting(ctx, &json!({"xs": xs, "keys": keys}));
        chk_sorting(ctx, &json!({"xs": (0..xs.len()).map(|i| 10 * (i + 1)).collect::<Vec<_>>(), "keys": xs}));
    }
    chk_sorting(ctx, &json!({"xs": [10, 20, 30, 40], "keys": [3, 1, 0, 2]}));
    for _ in 0..ctx.budget(4000, 400000) {
        let len = ctx.rng.below(12);
        let m = if ctx.rng.chance(1, 2) { 4 } else { 200 };
        let xs = ctx.rng.vec_below(len, m);
        let keys = if ctx.rng.chance(1, 3) { shuffled(&mut ctx.rng, len) } else { ctx.rng.vec_below(len, m) };
        chk_sorting(ctx, &json!({"xs": xs, "keys": keys}));
    }

    // ---- bincount / sparse bincount / zero
    for xs in all_arrays(4, 3).iter().chain(corners.iter()) {
        let m = xs.iter().max().map_or(0, |m| m + 1);
        for size in [m, m + 1, m + 3] {
            chk_counting(ctx, &json!({"xs": xs, "size": size}));
        }
    }
    chk_counting(ctx, &json!({"xs": [], "size": 0}));
    chk_counting(ctx, &json!({"xs": [0, 3, 1, 3, 0, 3, 3], "size": 4}));
    for _ in 0..ctx.budget(4000, 400000) {
        let len = ctx.rng.below(14);
        let m = if ctx.rng.chance(1, 3) { 500 } else { 5 };
        let xs = ctx.rng.vec_below(len, m);
        let size = xs.iter().max().map_or(0, |m| m + 1) + ctx.rng.below(3);
        chk_counting(ctx, &json!({"xs": xs, "size": size}));
        chk_to_dense(ctx, &json!({"xs": xs}));
    }
    for xs in all_arrays(4, 3).iter().chain(corners.iter()) {
        chk_to_dense(ctx, &json!({"xs": xs}));
    }
    chk_to_dense(ctx, &json!({"xs": [0, 2, 5, 5, 7]}));

    // ---- connected components: every edge list with <= 3 edges over n <= 4 nodes (<= 2 edges over 5)
    let cc = |ctx: &mut Ctx, s: &[usize], t: &[usize], n: usize| chk_components(ctx, &json!({"s": s, "t": t, "n": n}));
    for n in 0..=5usize {
        let max_e = if n <= 3 { 4 } else if n == 4 { 3 } else { 2 };
        for e in 0..=max_e {
            if n == 0 && e > 0 {
                continue;
            }
            let ends = all_tables(e, n);
            for s in &ends {
                for t in &ends {
                    cc(ctx, s, t, n);
                }
            }
        }
    }
    for m in [2usize, 3, 5, 8, 17, 40, 100] {
        let fwd: Vec<usize> = (0..m - 1).collect();
        let nxt: Vec<usize> = (1..m).collect();
        let rev: Vec<usize> = fwd.iter().rev().cloned().collect();
        let rnx: Vec<usize> = nxt.iter().rev().cloned().collect();
        cc(ctx, &fwd, &nxt, m); // path
        cc(ctx, &nxt, &fwd, m); // path, edges flipped
        cc(ctx, &rev, &rnx, m); // path, far end first
        cc(ctx, &fwd, &nxt, m + 2); // path and two isolated nodes
        cc(ctx, &vec![m - 1; m - 1], &fwd, m); // star
        cc(ctx, &(0..m).collect::<Vec<_>>(), &(0..m).collect::<Vec<_>>(), m); // self loops only
        cc(ctx, &[], &[], m); // no edges
        cc(ctx, &vec![0; 3 * m], &vec![1; 3 * m], m); // one edge repeated more often than there are nodes
        cc(ctx, &(0..m).collect::<Vec<_>>(), &(0..m).map(|i| (i + 2) % m).collect::<Vec<_>>(), m); // one or two rings
        if m >= 4 {
            cc(ctx, &(0..m - 2).collect::<Vec<_>>(), &(2..m).collect::<Vec<_>>(), m); // two interleaved paths
        }
    }
    for k in [1usize, 2, 3, 4, 5, 6] {
        for join in [false, true] {
            for random_members in [false, true] {
                for _ in 0..(if random_members { 4 } else { 1 }) {
                    let (a, b, n) = binomial_edges(&mut ctx.rng, k, join, random_members);
                    cc(ctx, &a, &b, n);
                    cc(ctx, &a, &b, n + 1);
                }
            }
        }
    }
    for i in 0..ctx.budget(20000, 1000000) {
        let n = ctx.rng.range(1, 12);
        let e = if i % 5 == 0 { ctx.rng.range(n, 2 * n + 2) } else { ctx.rng.below(n) };
        let mut s = ctx.rng.vec_below(e, n);
        let mut t = ctx.rng.vec_below(e, n);
        if i % 7 == 0 && e > 0 {
            // repeat one edge and add a self loop
            s.push(s[0]);
            t.push(t[0]);
            s.push(t[0]);
            t.push(t[0]);
        }
        cc(ctx, &s, &t, n);
    }

    ctx.notes.push(
        "rule: inputs are plain usize arrays (the generic twin is the String array \"s<value>\"). exhaustive: basics on all pairs of arrays len<=3 entries<=2; ranges on every 0<=a<=b<=n, n<=7, \
         in the forms .., a.., ..b, a..b, ..=b-1, a..=b-1 and the (Bound,Bound) forms incl. excluded start; gather/scatter/scatter-assign on every index table of length<=3 (4 thorough) over sizes<=4; \
         arange on 0<=start<=stop<=8; repeat/segmented arange/segmented sum on all size arrays len<=4 entries<=2 (3 thorough); argsort/sort_by on all arrays len<=4 (5 thorough) entries<=2; \
         bincount/sparse bincount/zero/to_dense on all arrays len<=4 entries<=2; connected components on every edge list with <=4 edges over <=3 nodes, <=3 edges over 4 nodes, <=2 edges over 5 nodes, \
         paths/stars/rings/self-loops/repeated edges up to 100 nodes, binomial-tree merges of 2x2^k nodes k<=6 (32+32 and 64+64). random: lengths<=14, values<=1000, graphs n<=12 with up to 2n+2 edges. \
         non-trivial = more than one element processed (per check: index list longer than 1, array longer than 1/2, unsorted input for sorting, components with a merge and at least two classes). \
         accepted freedom: argsort any sorting permutation; sort_by any order within equal keys; component/to_dense labels any dense numbering; sparse bincount any order; scatter positions never written unspecified, \
         scatter of an empty array returns the empty array."
            .into(),
    );
}
