//! The plain (list-based) model of open hypergraphs used by the property-level oracles, with
//! conversions to/from the strict and lax representations of /repo, a deep well-formedness
//! check on raw public fields, a witness-producing isomorphism search, and reference
//! implementations of the categorical operations written directly from their definitions.
use crate::ctx::Rng;
use open_hypergraphs::array::vec::*;
use open_hypergraphs::finite_function::FiniteFunction;
use open_hypergraphs::indexed_coproduct::IndexedCoproduct;
use open_hypergraphs::lax;
use open_hypergraphs::semifinite::SemifiniteFunction;
use open_hypergraphs::strict::hypergraph::Hypergraph;
use open_hypergraphs::strict::open_hypergraph::OpenHypergraph;
use serde_json::{json, Value};

pub type FF = FiniteFunction<VecKind>;
pub type IC = IndexedCoproduct<VecKind, FF>;
pub type SF<T> = SemifiniteFunction<VecKind, T>;
pub type SOH = OpenHypergraph<VecKind, u8, u8>;
pub type SH = Hypergraph<VecKind, u8, u8>;
pub type LOH = lax::OpenHypergraph<u8, u8>;

/// plain open hypergraph: node labels, edge labels, ordered source/target lists, interfaces
#[derive(Clone, Debug, PartialEq, Eq, Hash)]
pub struct M {
    pub w: Vec<u8>,
    pub x: Vec<u8>,
    pub src: Vec<Vec<usize>>,
    pub tgt: Vec<Vec<usize>>,
    pub s: Vec<usize>,
    pub t: Vec<usize>,
}

impl M {
    pub fn empty() -> M {
        M { w: vec![], x: vec![], src: vec![], tgt: vec![], s: vec![], t: vec![] }
    }
    pub fn json(&self) -> Value {
        json!({"w": self.w, "x": self.x, "src": self.src, "tgt": self.tgt, "s": self.s, "t": self.t})
    }
    pub fn from_json(v: &Value) -> Option<M> {
        let us = |v: &Value| -> Option<Vec<usize>> { v.as_array()?.iter().map(|x| x.as_u64().map(|y| y as usize)).collect() };
        let u8s = |v: &Value| -> Option<Vec<u8>> { v.as_array()?.iter().map(|x| x.as_u64().map(|y| y as u8)).collect() };
        let uss = |v: &Value| -> Option<Vec<Vec<usize>>> { v.as_array()?.iter().map(|x| us(x)).collect() };
        Some(M { w: u8s(v.get("w")?)?, x: u8s(v.get("x")?)?, src: uss(v.get("src")?)?, tgt: uss(v.get("tgt")?)?, s: us(v.get("s")?)?, t: us(v.get("t")?)? })
    }
    pub fn valid(&self) -> bool {
        let n = self.w.len();
        self.src.len() == self.x.len()
            && self.tgt.len() == self.x.len()
            && self.src.iter().chain(self.tgt.iter()).all(|l| l.iter().all(|&v| v < n))
            && self.s.iter().chain(self.t.iter()).all(|&v| v < n)
    }
    pub fn source_type(&self) -> Vec<u8> {
        self.s.iter().map(|&i| self.w[i]).collect()
    }
    pub fn target_type(&self) -> Vec<u8> {
        self.t.iter().map(|&i| self.w[i]).collect()
    }
    pub fn nontrivial(&self) -> bool {
        !self.w.is_empty() && (!self.x.is_empty() || self.s.len() + self.t.len() > 0)
    }

    // ---- conversions -------------------------------------------------------------------
    pub fn to_strict(&self) -> SOH {
        let n = self.w.len();
        let ic = |ls: &Vec<Vec<usize>>| -> IC {
            let sizes: Vec<usize> = ls.iter().map(|l| l.len()).collect();
            let vals: Vec<usize> = ls.iter().flatten().cloned().collect();
            IndexedCoproduct::from_semifinite(SemifiniteFunction(VecArray(sizes)), FiniteFunction::new(VecArray(vals), n).unwrap()).unwrap()
        };
        let h = Hypergraph::new(ic(&self.src), ic(&self.tgt), SemifiniteFunction(VecArray(self.w.clone())), SemifiniteFunction(VecArray(self.x.clone()))).unwrap();
        OpenHypergraph::new(FiniteFunction::new(VecArray(self.s.clone()), n).unwrap(), FiniteFunction::new(VecArray(self.t.clone()), n).unwrap(), h).unwrap()
    }
    pub fn to_lax(&self) -> LOH {
        let mut f = lax::OpenHypergraph::empty();
        f.hypergraph.nodes = self.w.clone();
        f.hypergraph.edges = self.x.clone();
        f.hypergraph.adjacency = (0..self.x.len())
            .map(|e| lax::Hyperedge {
                sources: self.src[e].iter().map(|&i| lax::NodeId(i)).collect(),
                targets: self.tgt[e].iter().map(|&i| lax::NodeId(i)).collect(),
            })
            .collect();
        f.sources = self.s.iter().map(|&i| lax::NodeId(i)).collect();
        f.targets = self.t.iter().map(|&i| lax::NodeId(i)).collect();
        f
    }
    /// read a lax diagram (ignoring pending unifications, which are returned separately)
    pub fn from_lax(f: &LOH) -> (M, Vec<(usize, usize)>) {
        let m = M {
            w: f.hypergraph.nodes.clone(),
            x: f.hypergraph.edges.clone(),
            src: f.hypergraph.adjacency.iter().map(|e| e.sources.iter().map(|n| n.0).collect()).collect(),
            tgt: f.hypergraph.adjacency.iter().map(|e| e.targets.iter().map(|n| n.0).collect()).collect(),
            s: f.sources.iter().map(|n| n.0).collect(),
            t: f.targets.iter().map(|n| n.0).collect(),
        };
        let q = f.hypergraph.quotient.0.iter().zip(f.hypergraph.quotient.1.iter()).map(|(a, b)| (a.0, b.0)).collect();
        (m, q)
    }
}

/// split a flat array by segment sizes (None if the sizes do not add up)
pub fn split(sizes: &[usize], vals: &[usize]) -> Option<Vec<Vec<usize>>> {
    let mut out = vec![];
    let mut p = 0usize;
    for &k in sizes {
        if p + k > vals.len() {
            return None;
        }
        out.push(vals[p..p + k].to_vec());
        p += k;
    }
    if p != vals.len() {
        return None;
    }
    Some(out)
}

/// deep well-formedness of a segmented array of finite functions, on raw fields
pub fn ic_wf(c: &IC, n_segments: Option<usize>, codomain: Option<usize>) -> Result<Vec<Vec<usize>>, String> {
    let sizes = &c.sources.table.0;
    let vals = &c.values.table.0;
    let sum: usize = sizes.iter().sum();
    if c.sources.target != sum + 1 {
        return Err(format!("sources.target {} != sum of sizes {} + 1", c.sources.target, sum));
    }
    if sum != vals.len() {
        return Err(format!("sum of sizes {} != values length {}", sum, vals.len()));
    }
    if let Some(k) = n_segments {
        if sizes.len() != k {
            return Err(format!("{} segments, expected {}", sizes.len(), k));
        }
    }
    if let Some(n) = codomain {
        if c.values.target != n {
            return Err(format!("values.target {} != {}", c.values.target, n));
        }
    }
    if let Some(v) = vals.iter().find(|&&v| v >= c.values.target) {
        return Err(format!("value {} out of range {}", v, c.values.target));
    }
    Ok(split(sizes, vals).unwrap())
}

/// deep well-formedness of a strict open hypergraph, reading only raw public fields; returns the model
pub fn strict_wf(f: &SOH) -> Result<M, String> {
    let n = f.h.w.0 .0.len();
    let k = f.h.x.0 .0.len();
    let src = ic_wf(&f.h.s, Some(k), Some(n)).map_err(|e| format!("h.s: {}", e))?;
    let tgt = ic_wf(&f.h.t, Some(k), Some(n)).map_err(|e| format!("h.t: {}", e))?;
    if f.s.target != n {
        return Err(format!("s.target {} != nodes {}", f.s.target, n));
    }
    if f.t.target != n {
        return Err(format!("t.target {} != nodes {}", f.t.target, n));
    }
    if f.s.table.0.iter().chain(f.t.table.0.iter()).any(|&v| v >= n) {
        return Err("interface entry out of range".into());
    }
    Ok(M { w: f.h.w.0 .0.clone(), x: f.h.x.0 .0.clone(), src, tgt, s: f.s.table.0.clone(), t: f.t.table.0.clone() })
}

// ------------------------------------------------------------------------------------------------
// isomorphism search (witness-producing): node bijection + edge bijection preserving labels,
// ordered incidence and both interfaces position by position
// ------------------------------------------------------------------------------------------------
pub fn iso(a: &M, b: &M) -> Option<(Vec<usize>, Vec<usize>)> {
    if a.w.len() != b.w.len() || a.x.len() != b.x.len() || a.s.len() != b.s.len() || a.t.len() != b.t.len() {
        return None;
    }
    let n = a.w.len();
    let k = a.x.len();
    const U: usize = usize::MAX;
    let mut pn = vec![U; n];
    let mut inv = vec![U; n];
    fn bind(pn: &mut Vec<usize>, inv: &mut Vec<usize>, a: &M, b: &M, u: usize, v: usize, trail: &mut Vec<usize>) -> bool {
        const U: usize = usize::MAX;
        if pn[u] != U {
            return pn[u] == v;
        }
        if inv[v] != U || a.w[u] != b.w[v] {
            return false;
        }
        pn[u] = v;
        inv[v] = u;
        trail.push(u);
        true
    }
    let mut trail = vec![];
    for (ia, ib) in a.s.iter().zip(b.s.iter()).chain(a.t.iter().zip(b.t.iter())) {
        if !bind(&mut pn, &mut inv, a, b, *ia, *ib, &mut trail) {
            return None;
        }
    }
    let mut pe = vec![U; k];
    let mut used = vec![false; k];
    fn rec(e: usize, a: &M, b: &M, pn: &mut Vec<usize>, inv: &mut Vec<usize>, pe: &mut Vec<usize>, used: &mut Vec<bool>) -> bool {
        const U: usize = usize::MAX;
        let k = a.x.len();
        if e == k {
            // remaining (isolated / unconstrained) nodes: match greedily by label
            let n = a.w.len();
            let mut trail = vec![];
            let mut ok = true;
            for u in 0..n {
                if pn[u] == U {
                    let mut found = false;
                    for v in 0..n {
                        if inv[v] == U && a.w[u] == b.w[v] {
                            pn[u] = v;
                            inv[v] = u;
                            trail.push(u);
                            found = true;
                            break;
                        }
                    }
                    if !found {
                        ok = false;
                        break;
                    }
                }
            }
            if !ok {
                for u in trail {
                    inv[pn[u]] = U;
                    pn[u] = U;
                }
            }
            return ok;
        }
        for f in 0..k {
            if used[f] || a.x[e] != b.x[f] || a.src[e].len() != b.src[f].len() || a.tgt[e].len() != b.tgt[f].len() {
                continue;
            }
            let mut trail = vec![];
            let mut ok = true;
            for (u, v) in a.src[e].iter().zip(b.src[f].iter()).chain(a.tgt[e].iter().zip(b.tgt[f].iter())) {
                if !bind(pn, inv, a, b, *u, *v, &mut trail) {
                    ok = false;
                    break;
                }
            }
            if ok {
                used[f] = true;
                pe[e] = f;
                if rec(e + 1, a, b, pn, inv, pe, used) {
                    return true;
                }
                used[f] = false;
                pe[e] = U;
            }
            for u in trail {
                inv[pn[u]] = U;
                pn[u] = U;
            }
        }
        false
    }
    if rec(0, a, b, &mut pn, &mut inv, &mut pe, &mut used) {
        Some((pn, pe))
    } else {
        None
    }
}

pub fn is_iso(a: &M, b: &M) -> bool {
    iso(a, b).is_some()
}

// ------------------------------------------------------------------------------------------------
// reference operations (definitions, not the library's algorithms)
// ------------------------------------------------------------------------------------------------
/// classes of the smallest equivalence relation on 0..n containing the pairs, numbered by first appearance
pub fn classes(n: usize, pairs: &[(usize, usize)]) -> (Vec<usize>, usize) {
    let mut cls: Vec<usize> = (0..n).collect();
    loop {
        let mut changed = false;
        for &(a, b) in pairs {
            let (ca, cb) = (cls[a], cls[b]);
            if ca != cb {
                let (lo, hi) = if ca < cb { (ca, cb) } else { (cb, ca) };
                for c in cls.iter_mut() {
                    if *c == hi {
                        *c = lo;
                    }
                }
                changed = true;
            }
        }
        if !changed {
            break;
        }
    }
    let mut remap = vec![usize::MAX; n];
    let mut k = 0;
    let mut out = vec![0; n];
    for i in 0..n {
        if remap[cls[i]] == usize::MAX {
            remap[cls[i]] = k;
            k += 1;
        }
        out[i] = remap[cls[i]];
    }
    (out, k)
}

/// quotient of a model by node identifications; None if a class carries two labels
pub fn quotient(m: &M, pairs: &[(usize, usize)]) -> Option<(M, Vec<usize>)> {
    let (q, k) = classes(m.w.len(), pairs);
    let mut w: Vec<Option<u8>> = vec![None; k];
    for (i, &l) in m.w.iter().enumerate() {
        match w[q[i]] {
            None => w[q[i]] = Some(l),
            Some(l0) if l0 != l => return None,
            _ => {}
        }
    }
    let mp = |l: &Vec<usize>| l.iter().map(|&v| q[v]).collect::<Vec<_>>();
    Some((
        M {
            w: w.into_iter().map(|x| x.unwrap()).collect(),
            x: m.x.clone(),
            src: m.src.iter().map(mp).collect(),
            tgt: m.tgt.iter().map(mp).collect(),
            s: mp(&m.s),
            t: mp(&m.t),
        },
        q,
    ))
}

pub fn tensor(f: &M, g: &M) -> M {
    let n = f.w.len();
    let sh = |l: &Vec<usize>| l.iter().map(|&v| v + n).collect::<Vec<_>>();
    M {
        w: [f.w.clone(), g.w.clone()].concat(),
        x: [f.x.clone(), g.x.clone()].concat(),
        src: f.src.iter().cloned().chain(g.src.iter().map(sh)).collect(),
        tgt: f.tgt.iter().cloned().chain(g.tgt.iter().map(sh)).collect(),
        s: [f.s.clone(), sh(&g.s)].concat(),
        t: [f.t.clone(), sh(&g.t)].concat(),
    }
}

/// sequential composition by definition: disjoint union, glue f.t[i] ~ g.s[i]
pub fn compose(f: &M, g: &M) -> Option<M> {
    if f.target_type() != g.source_type() {
        return None;
    }
    let n = f.w.len();
    let mut j = tensor(f, g);
    j.s = f.s.clone();
    j.t = g.t.iter().map(|&v| v + n).collect();
    let pairs: Vec<(usize, usize)> = f.t.iter().zip(g.s.iter()).map(|(&a, &b)| (a, b + n)).collect();
    quotient(&j, &pairs).map(|(m, _)| m)
}

pub fn identity(w: &[u8]) -> M {
    M { w: w.to_vec(), x: vec![], src: vec![], tgt: vec![], s: (0..w.len()).collect(), t: (0..w.len()).collect() }
}

/// symmetry a●b -> b●a
pub fn twist(a: &[u8], b: &[u8]) -> M {
    let (na, nb) = (a.len(), b.len());
    // nodes laid out as a ++ b; inputs in order, outputs b first then a
    M {
        w: [a.to_vec(), b.to_vec()].concat(),
        x: vec![],
        src: vec![],
        tgt: vec![],
        s: (0..na + nb).collect(),
        t: (na..na + nb).chain(0..na).collect(),
    }
}

pub fn dagger(f: &M) -> M {
    let mut g = f.clone();
    std::mem::swap(&mut g.s, &mut g.t);
    g
}

pub fn spider(s: &[usize], t: &[usize], w: &[u8]) -> Option<M> {
    if s.iter().chain(t.iter()).any(|&v| v >= w.len()) {
        return None;
    }
    Some(M { w: w.to_vec(), x: vec![], src: vec![], tgt: vec![], s: s.to_vec(), t: t.to_vec() })
}

pub fn singleton(x: u8, a: &[u8], b: &[u8]) -> M {
    let (na, nb) = (a.len(), b.len());
    M {
        w: [a.to_vec(), b.to_vec()].concat(),
        x: vec![x],
        src: vec![(0..na).collect()],
        tgt: vec![(na..na + nb).collect()],
        s: (0..na).collect(),
        t: (na..na + nb).collect(),
    }
}

// ------------------------------------------------------------------------------------------------
// generators
// ------------------------------------------------------------------------------------------------
#[derive(Clone, Copy)]
pub struct Bounds {
    pub nodes: usize,
    pub edges: usize,
    pub arity: usize,
    pub iface: usize,
    pub labels: usize,
}

pub const SMALL: Bounds = Bounds { nodes: 3, edges: 2, arity: 2, iface: 3, labels: 2 };
pub const MEDIUM: Bounds = Bounds { nodes: 5, edges: 3, arity: 3, iface: 4, labels: 2 };

pub fn random_model(r: &mut Rng, b: Bounds) -> M {
    let n = r.range(0, b.nodes);
    let labels = r.range(1, b.labels);
    let w: Vec<u8> = (0..n).map(|_| r.below(labels) as u8).collect();
    let k = if n == 0 && r.chance(1, 2) { 0 } else { r.range(0, b.edges) };
    let mut x = vec![];
    let mut src = vec![];
    let mut tgt = vec![];
    for _ in 0..k {
        x.push(r.below(2) as u8 + 10);
        let (a, c) = if n == 0 { (0, 0) } else { (r.range(0, b.arity), r.range(0, b.arity)) };
        src.push(r.vec_below(a, n.max(1)));
        tgt.push(r.vec_below(c, n.max(1)));
    }
    let (ls, lt) = if n == 0 { (0, 0) } else { (r.range(0, b.iface), r.range(0, b.iface)) };
    M { w, x, src, tgt, s: r.vec_below(ls, n.max(1)), t: r.vec_below(lt, n.max(1)) }
}

/// a model whose source type equals the given type (for building composable pairs)
pub fn random_model_with_source(r: &mut Rng, b: Bounds, ty: &[u8]) -> M {
    let mut m = random_model(r, b);
    // make sure every label of ty occurs, then choose the inputs among nodes with the right label
    for &l in ty {
        if !m.w.contains(&l) || r.chance(1, 3) {
            m.w.push(l);
        }
    }
    m.s = ty
        .iter()
        .map(|&l| {
            let cands: Vec<usize> = (0..m.w.len()).filter(|&i| m.w[i] == l).collect();
            cands[r.below(cands.len())]
        })
        .collect();
    m
}

/// a fixed list of corner cases every property check also runs on
pub fn corner_models() -> Vec<M> {
    vec![
        M::empty(),
        identity(&[0]),
        identity(&[0, 1]),
        M { w: vec![0], x: vec![], src: vec![], tgt: vec![], s: vec![], t: vec![] }, // isolated node
        M { w: vec![0], x: vec![], src: vec![], tgt: vec![], s: vec![0, 0], t: vec![0] }, // repeated boundary node
        M { w: vec![], x: vec![10], src: vec![vec![]], tgt: vec![vec![]], s: vec![], t: vec![] }, // zero-arity edge
        M { w: vec![0], x: vec![10], src: vec![vec![0, 0]], tgt: vec![vec![0, 0]], s: vec![0], t: vec![0] }, // self loop, repeated
        singleton(10, &[0, 1], &[1]),
        M { w: vec![0, 0], x: vec![10, 11], src: vec![vec![0], vec![1]], tgt: vec![vec![1], vec![0]], s: vec![0], t: vec![1] }, // 2-cycle
        M { w: vec![0, 1, 0], x: vec![10], src: vec![vec![0, 2]], tgt: vec![vec![1]], s: vec![0, 2, 0], t: vec![1, 1] },
    ]
}
