//! C03 — symmetric monoidal category laws hold up to genuine isomorphism.
//!
//! Every law is written as a pair of expressions (lhs, rhs) over operands f, g, h, k / object
//! lists a, b, c.  Both expressions are evaluated (1) by the REAL library (strict or lax
//! representation) and (2) by the plain reference operations of `model` (disjoint union, naive
//! closure of the boundary pairs, ...).  Clauses:
//!   * `C03.<law>`           library(lhs) ≅ library(rhs)             (model::iso, witness search)
//!   * `C03.<law>-defined`   library result is Some exactly when the boundary types match
//!   * `C03.<law>-ref`       each library side ≅ the reference value of that side
//!   * `C03.wf`              every library result is deeply well-formed
//!   * `C03.no-panic`        no library call panics
//!   * `C03.oracle-self`     (self check of this file) the two reference sides are isomorphic
//! Operands may carry pending unifications `q` (same-label pairs): the lax run keeps them pending
//! inside the operand, the strict run applies them first (reference quotient).
use crate::ctx::{guard, Ctx, Rng};
use crate::model::*;
use open_hypergraphs::array::vec::*;
use open_hypergraphs::category::*;
use open_hypergraphs::lax;
use open_hypergraphs::semifinite::SemifiniteFunction;
use serde_json::{json, Value};

type Check = fn(&mut Ctx, &Value);
const CHECKS: &[(&str, Check)] = &[
    ("assoc", chk_assoc),
    ("unit", chk_unit),
    ("tensor-assoc", chk_tensor_assoc),
    ("interchange", chk_interchange),
    ("twist-natural", chk_twist_natural),
    ("twist-inverse", chk_twist_inverse),
    ("hexagon", chk_hexagon),
];

// ------------------------------------------------------------------------------------------------
// helpers (self-contained; duplicated in c04.rs on purpose)
// ------------------------------------------------------------------------------------------------
/// operand: a plain model plus pending same-label identifications
#[derive(Clone, Debug)]
struct Opd {
    m: M,
    q: Vec<(usize, usize)>,
}
impl Opd {
    fn json(&self) -> Value {
        let mut v = self.m.json();
        if !self.q.is_empty() {
            v["q"] = json!(self.q.iter().map(|&(a, b)| vec![a, b]).collect::<Vec<_>>());
        }
        v
    }
    fn from_json(v: &Value) -> Option<Opd> {
        let m = M::from_json(v)?;
        if !m.valid() {
            return None;
        }
        let mut q = vec![];
        if let Some(arr) = v.get("q").and_then(|x| x.as_array()) {
            for p in arr {
                let p = p.as_array()?;
                if p.len() != 2 {
                    return None;
                }
                let (a, b) = (p[0].as_u64()? as usize, p[1].as_u64()? as usize);
                if a >= m.w.len() || b >= m.w.len() || m.w[a] != m.w[b] {
                    return None;
                }
                q.push((a, b));
            }
        }
        Some(Opd { m, q })
    }
    /// the diagram denoted by the operand
    fn sem(&self) -> M {
        quotient(&self.m, &self.q).expect("same-label identifications").0
    }
}

#[derive(Clone)]
enum D {
    S(SOH),
    L(LOH),
}

fn obj(w: &[u8]) -> SF<u8> {
    SemifiniteFunction(VecArray(w.to_vec()))
}

fn build(o: &Opd, lax_repr: bool) -> D {
    if lax_repr {
        let mut l = o.m.to_lax();
        for &(a, b) in &o.q {
            l.unify(lax::NodeId(a), lax::NodeId(b));
        }
        D::L(l)
    } else {
        D::S(o.sem().to_strict())
    }
}

/// read a library value back into the plain model (deep well-formedness; pending identifications of
/// a lax value are applied with the reference quotient)
fn d_model(d: &D) -> Result<M, String> {
    match d {
        D::S(s) => strict_wf(s),
        D::L(l) => {
            let h = &l.hypergraph;
            if h.adjacency.len() != h.edges.len() {
                return Err(format!("lax: {} adjacency entries for {} edges", h.adjacency.len(), h.edges.len()));
            }
            if h.quotient.0.len() != h.quotient.1.len() {
                return Err("lax: quotient lists of different length".into());
            }
            let (m, q) = M::from_lax(l);
            if !m.valid() {
                return Err(format!("lax: node id out of range in {}", m.json()));
            }
            if q.iter().any(|&(a, b)| a >= m.w.len() || b >= m.w.len()) {
                return Err(format!("lax: pending identification out of range {:?}", q));
            }
            quotient(&m, &q).map(|x| x.0).ok_or_else(|| format!("lax: pending identifications {:?} join different labels in {}", q, m.json()))
        }
    }
}

enum E {
    V(usize),
    Id(Vec<u8>),
    Tw(Vec<u8>, Vec<u8>),
    C(Box<E>, Box<E>),
    T(Box<E>, Box<E>),
}
fn v(i: usize) -> E {
    E::V(i)
}
fn id(w: &[u8]) -> E {
    E::Id(w.to_vec())
}
fn tw(a: &[u8], b: &[u8]) -> E {
    E::Tw(a.to_vec(), b.to_vec())
}
fn c(a: E, b: E) -> E {
    E::C(Box::new(a), Box::new(b))
}
fn t(a: E, b: E) -> E {
    E::T(Box::new(a), Box::new(b))
}
fn cat(a: &[u8], b: &[u8]) -> Vec<u8> {
    [a, b].concat()
}

/// evaluate with the real library (may panic: callers wrap it in `guard`)
fn eval_lib(e: &E, vars: &[D], lax_repr: bool) -> Option<D> {
    Some(match e {
        E::V(i) => vars[*i].clone(),
        E::Id(w) => {
            if lax_repr {
                D::L(<LOH as Arrow>::identity(w.clone()))
            } else {
                D::S(<SOH as Arrow>::identity(obj(w)))
            }
        }
        E::Tw(a, b) => {
            if lax_repr {
                D::L(<LOH as SymmetricMonoidal>::twist(a.clone(), b.clone()))
            } else {
                D::S(<SOH as SymmetricMonoidal>::twist(obj(a), obj(b)))
            }
        }
        E::C(a, b) => {
            let (x, y) = (eval_lib(a, vars, lax_repr)?, eval_lib(b, vars, lax_repr)?);
            match (&x, &y) {
                (D::S(x), D::S(y)) => D::S(Arrow::compose(x, y)?),
                (D::L(x), D::L(y)) => D::L(Arrow::compose(x, y)?),
                _ => unreachable!(),
            }
        }
        E::T(a, b) => {
            let (x, y) = (eval_lib(a, vars, lax_repr)?, eval_lib(b, vars, lax_repr)?);
            match (&x, &y) {
                (D::S(x), D::S(y)) => D::S(Monoidal::tensor(x, y)),
                (D::L(x), D::L(y)) => D::L(Monoidal::tensor(x, y)),
                _ => unreachable!(),
            }
        }
    })
}

/// evaluate with the reference operations (definitions)
fn eval_ref(e: &E, vars: &[M]) -> Option<M> {
    Some(match e {
        E::V(i) => vars[*i].clone(),
        E::Id(w) => identity(w),
        E::Tw(a, b) => twist(a, b),
        E::C(a, b) => compose(&eval_ref(a, vars)?, &eval_ref(b, vars)?)?,
        E::T(a, b) => tensor(&eval_ref(a, vars)?, &eval_ref(b, vars)?),
    })
}

fn is_lax(input: &Value) -> bool {
    input["repr"].as_str() == Some("lax")
}

/// Evaluate one law; returns true when its hypotheses held (all compositions defined).
fn law(ctx: &mut Ctx, check: &str, name: &str, input: &Value, ops: &[Opd], lhs: &E, rhs: &E) -> bool {
    let lax_repr = is_lax(input);
    let refs: Vec<M> = ops.iter().map(|o| o.sem()).collect();
    let vars: Vec<D> = match guard(|| ops.iter().map(|o| build(o, lax_repr)).collect::<Vec<D>>()) {
        Ok(v) => v,
        Err(p) => {
            ctx.fail(check, "C03.no-panic", input, json!(format!("building the operands: {}", p)), json!("operands are valid"));
            return false;
        }
    };
    let mut got: Vec<Option<M>> = vec![];
    let mut exp: Vec<Option<M>> = vec![];
    for (side, e) in [("lhs", lhs), ("rhs", rhs)] {
        let r = eval_ref(e, &refs);
        let mut mine = None;
        match guard(|| eval_lib(e, &vars, lax_repr)) {
            Err(p) => ctx.fail(check, "C03.no-panic", input, json!(format!("{} {}: panic: {}", name, side, p)), json!("no panic")),
            Ok(x) => {
                if x.is_some() != r.is_some() {
                    ctx.fail(
                        check,
                        &format!("C03.{}-defined", name),
                        input,
                        json!(format!("{}: library {}", side, if x.is_some() { "Some" } else { "None" })),
                        json!(if r.is_some() { "Some (boundary types match)" } else { "None (boundary types differ)" }),
                    );
                }
                if let Some(d) = x {
                    match d_model(&d) {
                        Err(why) => ctx.fail(check, "C03.wf", input, json!(format!("{} {}: {}", name, side, why)), json!("well-formed result")),
                        Ok(m) => {
                            if let Some(r) = &r {
                                if !is_iso(&m, r) {
                                    ctx.fail(check, &format!("C03.{}-ref", name), input, json!({"side": side, "library": m.json()}), r.json());
                                }
                            }
                            mine = Some(m);
                        }
                    }
                }
            }
        }
        got.push(mine);
        exp.push(r);
    }
    if let (Some(rl), Some(rr)) = (&exp[0], &exp[1]) {
        if !is_iso(rl, rr) {
            ctx.fail(check, "C03.oracle-self", input, json!({"law": name, "lhs": rl.json()}), rr.json());
        }
        if let (Some(ml), Some(mr)) = (&got[0], &got[1]) {
            if !is_iso(ml, mr) {
                ctx.fail(check, &format!("C03.{}", name), input, json!({"lhs": ml.json()}), json!({"rhs": mr.json()}));
            }
        }
        true
    } else {
        false
    }
}

fn u8s(v: &Value) -> Option<Vec<u8>> {
    v.as_array()?.iter().map(|x| x.as_u64().map(|y| y as u8)).collect()
}

fn opds(input: &Value, names: &[&str]) -> Option<Vec<Opd>> {
    names.iter().map(|n| Opd::from_json(&input[*n])).collect()
}

// ------------------------------------------------------------------------------------------------
// checks
// ------------------------------------------------------------------------------------------------
/// input {"repr", "f","g","h"}:  (f;g);h ≅ f;(g;h)
fn chk_assoc(ctx: &mut Ctx, input: &Value) {
    let Some(o) = opds(input, &["f", "g", "h"]) else { return };
    let r: Vec<M> = o.iter().map(|x| x.sem()).collect();
    let composable = r[0].target_type() == r[1].source_type() && r[1].target_type() == r[2].source_type();
    ctx.case("assoc", input, composable && r.iter().filter(|m| m.nontrivial()).count() >= 2);
    law(ctx, "assoc", "assoc", input, &o, &c(c(v(0), v(1)), v(2)), &c(v(0), c(v(1), v(2))));
}

/// input {"repr","f"}: id;f ≅ f ≅ f;id, f⊗id_I ≅ f ≅ id_I⊗f, id_a⊗id_b ≅ id_{a·b}, id;id ≅ id
fn chk_unit(ctx: &mut Ctx, input: &Value) {
    let Some(o) = opds(input, &["f"]) else { return };
    let f = o[0].sem();
    let (a, b) = (f.source_type(), f.target_type());
    ctx.case("unit", input, f.nontrivial());
    law(ctx, "unit", "left-unit", input, &o, &c(id(&a), v(0)), &v(0));
    law(ctx, "unit", "right-unit", input, &o, &c(v(0), id(&b)), &v(0));
    law(ctx, "unit", "tensor-right-unit", input, &o, &t(v(0), id(&[])), &v(0));
    law(ctx, "unit", "tensor-left-unit", input, &o, &t(id(&[]), v(0)), &v(0));
    law(ctx, "unit", "tensor-of-identities", input, &o, &t(id(&a), id(&b)), &id(&cat(&a, &b)));
    law(ctx, "unit", "identity-idempotent", input, &o, &c(id(&b), id(&b)), &id(&b));
    // a wrong unit must not be accepted: f ; id_{b'} with b' != b has to be undefined
    if !b.is_empty() {
        let mut b2 = b.clone();
        b2[0] ^= 1;
        law(ctx, "unit", "right-unit-mismatch", input, &o, &c(v(0), id(&b2)), &c(v(0), id(&b2)));
    }
}

/// input {"repr","f","g","h"}: (f⊗g)⊗h ≅ f⊗(g⊗h)
fn chk_tensor_assoc(ctx: &mut Ctx, input: &Value) {
    let Some(o) = opds(input, &["f", "g", "h"]) else { return };
    let nt = o.iter().filter(|x| x.m.nontrivial() || !x.m.x.is_empty()).count() >= 2;
    ctx.case("tensor-assoc", input, nt);
    law(ctx, "tensor-assoc", "tensor-assoc", input, &o, &t(t(v(0), v(1)), v(2)), &t(v(0), t(v(1), v(2))));
}

/// input {"repr","f","g","h","k"}: (f⊗g);(h⊗k) ≅ (f;h)⊗(g;k) whenever f;h and g;k are defined
fn chk_interchange(ctx: &mut Ctx, input: &Value) {
    let Some(o) = opds(input, &["f", "g", "h", "k"]) else { return };
    let r: Vec<M> = o.iter().map(|x| x.sem()).collect();
    let hyp = r[0].target_type() == r[2].source_type() && r[1].target_type() == r[3].source_type();
    ctx.case("interchange", input, hyp && r.iter().filter(|m| m.nontrivial()).count() >= 2);
    law(ctx, "interchange", "interchange", input, &o, &c(t(v(0), v(1)), t(v(2), v(3))), &t(c(v(0), v(2)), c(v(1), v(3))));
}

/// input {"repr","f","g"}: f:a→b, g:c→d.  (f⊗g);σ(b,d) ≅ σ(a,c);(g⊗f), and naturality in each argument separately
fn chk_twist_natural(ctx: &mut Ctx, input: &Value) {
    let Some(o) = opds(input, &["f", "g"]) else { return };
    let (f, g) = (o[0].sem(), o[1].sem());
    let (a, b, cc, d) = (f.source_type(), f.target_type(), g.source_type(), g.target_type());
    ctx.case("twist-natural", input, f.nontrivial() && g.nontrivial());
    law(ctx, "twist-natural", "twist-natural", input, &o, &c(t(v(0), v(1)), tw(&b, &d)), &c(tw(&a, &cc), t(v(1), v(0))));
    law(ctx, "twist-natural", "twist-natural-1", input, &o, &c(t(v(0), id(&cc)), tw(&b, &cc)), &c(tw(&a, &cc), t(id(&cc), v(0))));
    law(ctx, "twist-natural", "twist-natural-2", input, &o, &c(t(id(&a), v(1)), tw(&a, &d)), &c(tw(&a, &cc), t(v(1), id(&a))));
}

/// input {"repr","a","b"}: σ(a,b);σ(b,a) ≅ id(a·b); σ(a,I) ≅ id(a) ≅ σ(I,a); σ(a,b) has the definition's wiring
fn chk_twist_inverse(ctx: &mut Ctx, input: &Value) {
    let (Some(a), Some(b)) = (u8s(&input["a"]), u8s(&input["b"])) else { return };
    ctx.case("twist-inverse", input, !a.is_empty() && !b.is_empty());
    let ab = cat(&a, &b);
    law(ctx, "twist-inverse", "twist-self-inverse", input, &[], &c(tw(&a, &b), tw(&b, &a)), &id(&ab));
    law(ctx, "twist-inverse", "twist-unit-right", input, &[], &tw(&a, &[]), &id(&a));
    law(ctx, "twist-inverse", "twist-unit-left", input, &[], &tw(&[], &b), &id(&b));
    // composing with the identities of the stated boundary types must be defined (types of σ)
    law(ctx, "twist-inverse", "twist-type", input, &[], &c(c(id(&ab), tw(&a, &b)), id(&cat(&b, &a))), &tw(&a, &b));
}

/// input {"repr","a","b","c"}: both hexagons (strict monoidal: associators are identities)
fn chk_hexagon(ctx: &mut Ctx, input: &Value) {
    let (Some(a), Some(b), Some(cc)) = (u8s(&input["a"]), u8s(&input["b"]), u8s(&input["c"])) else { return };
    ctx.case("hexagon", input, [&a, &b, &cc].iter().filter(|x| !x.is_empty()).count() >= 2);
    law(ctx, "hexagon", "hexagon-1", input, &[], &tw(&a, &cat(&b, &cc)), &c(t(tw(&a, &b), id(&cc)), t(id(&b), tw(&a, &cc))));
    law(ctx, "hexagon", "hexagon-2", input, &[], &tw(&cat(&a, &b), &cc), &c(t(id(&a), tw(&b, &cc)), t(tw(&a, &cc), id(&b))));
}

// ------------------------------------------------------------------------------------------------
// generators
// ------------------------------------------------------------------------------------------------
fn sp(w: Vec<u8>, s: Vec<usize>, t: Vec<usize>) -> M {
    M { w, x: vec![], src: vec![], tgt: vec![], s, t }
}

/// corner list of this property (on top of model::corner_models)
fn corners() -> Vec<M> {
    let mut v = corner_models();
    v.extend(vec![
        sp(vec![0, 0, 1], vec![0, 1, 2], vec![1, 0, 2]), // operation-free, non-identity wiring (a permutation)
        sp(vec![0], vec![0, 0], vec![0, 0]),            // s == t but not injective: merges, is NOT an identity
        sp(vec![0], vec![], vec![0, 0]),                // cup
        sp(vec![0], vec![0, 0], vec![]),                // cap
        sp(vec![0, 0], vec![0, 1], vec![0, 0]),         // non-surjective target leg, dangling node 1
        sp(vec![0, 0], vec![0], vec![0, 1]),            // injective target, non-surjective source
        sp(vec![0, 1, 0], vec![0], vec![2]),            // isolated nodes, disconnected interface
        // 5 parallel edges between two nodes (multiplicity > number of nodes)
        M { w: vec![0, 0], x: vec![10; 5], src: vec![vec![0]; 5], tgt: vec![vec![1]; 5], s: vec![0], t: vec![1] },
        // one edge using the same node 5 times on each side; the boundary repeats it 4 times
        M { w: vec![0], x: vec![10], src: vec![vec![0; 5]], tgt: vec![vec![0; 5]], s: vec![0; 4], t: vec![0; 4] },
        // non-monogamous: node 0 feeds two edges, node 1 is produced twice; distinguishable edge labels
        M { w: vec![0, 0], x: vec![10, 11], src: vec![vec![0], vec![0]], tgt: vec![vec![1], vec![1]], s: vec![0], t: vec![1, 1] },
        // 3-cycle through the boundary
        M { w: vec![0, 0, 0], x: vec![10, 10, 11], src: vec![vec![0], vec![1], vec![2]], tgt: vec![vec![1], vec![2], vec![0]], s: vec![0, 1], t: vec![2, 0] },
        // zero-arity edges next to nodes
        M { w: vec![1], x: vec![10, 11], src: vec![vec![], vec![]], tgt: vec![vec![], vec![0]], s: vec![0], t: vec![0] },
        // 8 parallel boundary wires on one node while another node stays apart: more identifications than nodes,
        // yet more than one class
        sp(vec![0, 0], vec![0], vec![0; 8]),
        sp(vec![0, 0], vec![0; 8], vec![1, 0]),
        identity(&[0, 0]),
        twist(&[0], &[0]),
        twist(&[0, 1], &[1]),
    ]);
    v
}

/// pairs (a,b), a_j·2^l ~ b_(j·2^l + 2^(l-1)) for the given levels; level 0 is a_i ~ b_i: unions in binomial-tree order
fn binomial_pairs(m: usize, levels: &[usize]) -> (Vec<usize>, Vec<usize>) {
    let (mut a, mut b) = (vec![], vec![]);
    for &l in levels {
        if l == 0 {
            for i in 0..m {
                a.push(i);
                b.push(i);
            }
        } else {
            let step = 1usize << l;
            let mut j = 0;
            while j + step / 2 < m {
                a.push(j);
                b.push(j + step / 2);
                j += step;
            }
        }
    }
    (a, b)
}

fn random_q(r: &mut Rng, m: &M) -> Vec<(usize, usize)> {
    let n = m.w.len();
    let mut q = vec![];
    if n == 0 {
        return q;
    }
    for _ in 0..r.below(3) {
        let a = r.below(n);
        let cands: Vec<usize> = (0..n).filter(|&i| m.w[i] == m.w[a]).collect();
        q.push((a, cands[r.below(cands.len())]));
    }
    q
}

fn maybe_q(r: &mut Rng, m: M, lax_repr: bool) -> Opd {
    let q = if lax_repr && r.chance(1, 2) { random_q(r, &m) } else { vec![] };
    Opd { m, q }
}

/// a random operand whose DENOTED source type is `ty` (if given)
fn rand_opd(r: &mut Rng, b: Bounds, ty: Option<&[u8]>, lax_repr: bool) -> Opd {
    let m = match ty {
        Some(ty) => random_model_with_source(r, b, ty),
        None => random_model(r, b),
    };
    maybe_q(r, m, lax_repr)
}

/// all maps {0..len} → {0..n} for len ≤ maxlen
fn all_maps(n: usize, maxlen: usize) -> Vec<Vec<usize>> {
    let mut out = vec![vec![]];
    if n == 0 {
        return out;
    }
    let mut layer: Vec<Vec<usize>> = vec![vec![]];
    for _ in 0..maxlen {
        let mut next = vec![];
        for l in &layer {
            for x in 0..n {
                let mut l2 = l.clone();
                l2.push(x);
                next.push(l2);
            }
        }
        out.extend(next.iter().cloned());
        layer = next;
    }
    out
}

/// all operation-free diagrams with one label, ≤ maxn nodes, legs of length ≤ maxleg
fn all_spiders(maxn: usize, maxleg: usize) -> Vec<M> {
    let mut out = vec![];
    for n in 0..=maxn {
        let maps = all_maps(n, maxleg);
        for s in &maps {
            for t in &maps {
                out.push(sp(vec![0; n], s.clone(), t.clone()));
            }
        }
    }
    out
}

fn all_types(maxlen: usize) -> Vec<Vec<u8>> {
    all_maps(2, maxlen).into_iter().map(|l| l.into_iter().map(|x| x as u8).collect()).collect()
}

pub fn run(ctx: &mut Ctx) {
    if let Some((name, input)) = ctx.replay.clone() {
        for (n, chk) in CHECKS {
            if *n == name {
                chk(ctx, &input);
            }
        }
        return;
    }
    let thorough = ctx.thorough();
    let cs = corners();
    let j = |m: &M| m.json();

    for repr in ["strict", "lax"] {
        let lax_repr = repr == "lax";
        // ---------------- object-level laws: exhaustive over type lists with labels {0,1} --------------
        let tys = all_types(if thorough { 3 } else { 2 });
        for a in &tys {
            for b in &tys {
                chk_twist_inverse(ctx, &json!({"repr": repr, "a": a, "b": b}));
            }
        }
        let tys3 = all_types(if thorough { 3 } else { 2 });
        for a in &tys3 {
            for b in &tys3 {
                for cc in &tys3 {
                    if !thorough && a.len() + b.len() + cc.len() > 4 {
                        continue;
                    }
                    chk_hexagon(ctx, &json!({"repr": repr, "a": a, "b": b, "c": cc}));
                }
            }
        }
        // long object lists (more wires than any diagram has nodes elsewhere)
        chk_twist_inverse(ctx, &json!({"repr": repr, "a": [0, 1, 0, 0, 1, 1, 0], "b": [1, 1, 0, 1, 0]}));
        chk_hexagon(ctx, &json!({"repr": repr, "a": [0, 1, 0, 0], "b": [1, 1, 0, 1, 0], "c": [0, 0, 1]}));
        chk_hexagon(ctx, &json!({"repr": repr, "a": [0, 0], "b": [0, 0], "c": [0, 0]}));

        // ---------------- corner diagrams -------------------------------------------------------------
        for f in &cs {
            chk_unit(ctx, &json!({"repr": repr, "f": j(f)}));
            for g in &cs {
                chk_twist_natural(ctx, &json!({"repr": repr, "f": j(f), "g": j(g)}));
                for h in &cs {
                    // every triple for associativity (most are not composable: both sides must be None)
                    chk_assoc(ctx, &json!({"repr": repr, "f": j(f), "g": j(g), "h": j(h)}));
                }
            }
        }
        // tensor associativity on a diagonal-ish subset of triples (cheap, all defined)
        for (i, f) in cs.iter().enumerate() {
            for (k, g) in cs.iter().enumerate() {
                let h = &cs[(i * 7 + k * 3 + 1) % cs.len()];
                chk_tensor_assoc(ctx, &json!({"repr": repr, "f": j(f), "g": j(g), "h": j(h)}));
            }
        }
        // interchange on all pairs of composable corner pairs
        let mut pairs = vec![];
        for f in &cs {
            for h in &cs {
                if f.target_type() == h.source_type() {
                    pairs.push((f.clone(), h.clone()));
                }
            }
        }
        let stride = if thorough { 1 } else { 5 };
        for (i, (f, h)) in pairs.iter().enumerate() {
            for (k, (g, kk)) in pairs.iter().enumerate() {
                if (i + k) % stride != 0 {
                    continue;
                }
                chk_interchange(ctx, &json!({"repr": repr, "f": j(f), "g": j(g), "h": j(h), "k": j(kk)}));
            }
        }
        // interchange where only the tensors compose (f;h undefined although (f⊗g);(h⊗k) is defined)
        chk_interchange(ctx, &json!({"repr": repr, "f": j(&identity(&[0, 1])), "g": j(&identity(&[0])), "h": j(&identity(&[0])), "k": j(&identity(&[1, 0]))}));

        // ---------------- exhaustive: operation-free diagrams, one label ---------------------------------
        // all composable triples with ≤2 nodes and legs ≤2 (thorough) / legs ≤1 plus a stride sample (quick)
        let sps = all_spiders(2, 2);
        let mut cnt = 0usize;
        for f in &sps {
            for g in &sps {
                if f.t.len() != g.s.len() {
                    continue;
                }
                for h in &sps {
                    if g.t.len() != h.s.len() {
                        continue;
                    }
                    cnt += 1;
                    if !thorough && cnt % 7 != 0 {
                        continue;
                    }
                    chk_assoc(ctx, &json!({"repr": repr, "f": j(f), "g": j(g), "h": j(h)}));
                }
            }
        }
        // all pairs of spiders: unit laws need one, naturality two
        for (i, f) in sps.iter().enumerate() {
            chk_unit(ctx, &json!({"repr": repr, "f": j(f)}));
            for (k, g) in sps.iter().enumerate() {
                if !thorough && (i * 31 + k) % 17 != 0 {
                    continue;
                }
                chk_twist_natural(ctx, &json!({"repr": repr, "f": j(f), "g": j(g)}));
            }
        }

        // ---------------- deep union-find trees: 32+32(+32) nodes merged in binomial-tree order -----------
        for (l1, l2) in [(vec![0usize, 1, 2], vec![0usize, 3, 4, 5]), (vec![0, 1, 2, 3, 4, 5], vec![0]), (vec![1, 2, 3, 4, 5], vec![5, 4, 3, 2, 1, 0]), (vec![5, 4, 3, 2, 1, 0], vec![0, 1, 2, 3])] {
            let m = 32;
            let (ft, gs) = binomial_pairs(m, &l1);
            let (gt, hs) = binomial_pairs(m, &l2);
            let f = sp(vec![0; m], vec![0, m - 1], ft);
            let g = sp(vec![0; m], gs, gt);
            let mut h = sp(vec![0; m], hs, vec![m - 1, 0, 17]);
            h.x = vec![10];
            h.src = vec![vec![3, 31]];
            h.tgt = vec![vec![16]];
            chk_assoc(ctx, &json!({"repr": repr, "f": j(&f), "g": j(&g), "h": j(&h)}));
            chk_interchange(ctx, &json!({"repr": repr, "f": j(&f), "g": j(&g), "h": j(&g), "k": j(&h)}));
            chk_twist_natural(ctx, &json!({"repr": repr, "f": j(&f), "g": j(&h)}));
        }
        // long chain: f.t = 0..m-1, g.s pairs i with i+1 → one class through a path of length 2m
        {
            let m = 40;
            let f = sp(vec![0; m], vec![0], (0..m - 1).chain(1..m).collect());
            let g = sp(vec![0; m], (0..m - 1).chain(0..m - 1).collect(), vec![m - 1, 0]);
            let h = sp(vec![0; 2], vec![0, 1], vec![1]);
            chk_assoc(ctx, &json!({"repr": repr, "f": j(&f), "g": j(&g), "h": j(&h)}));
        }

        // ---------------- seeded random --------------------------------------------------------------
        let n = ctx.budget(2000, 90000);
        for i in 0..n {
            let b = if i % 4 == 0 { MEDIUM } else { SMALL };
            // composable chain f;g;h (5/6) or arbitrary (1/6)
            let f = rand_opd(&mut ctx.rng, b, None, lax_repr);
            let chain = !ctx.rng.chance(1, 6);
            let fty = f.sem().target_type();
            let g = rand_opd(&mut ctx.rng, b, if chain { Some(&fty) } else { None }, lax_repr);
            let gty = g.sem().target_type();
            let h = rand_opd(&mut ctx.rng, b, if chain { Some(&gty) } else { None }, lax_repr);
            // random_model_with_source fixes the source type of the plain model; pending identifications
            // keep labels, hence the denoted source type is the same list
            chk_assoc(ctx, &json!({"repr": repr, "f": f.json(), "g": g.json(), "h": h.json()}));
            if i % 5 == 0 {
                chk_tensor_assoc(ctx, &json!({"repr": repr, "f": f.json(), "g": g.json(), "h": h.json()}));
                chk_unit(ctx, &json!({"repr": repr, "f": g.json()}));
            }
            // interchange: two composable pairs (f;g) and (p;k)
            let p = rand_opd(&mut ctx.rng, b, None, lax_repr);
            let pty = p.sem().target_type();
            let k = rand_opd(&mut ctx.rng, b, Some(&pty), lax_repr);
            chk_interchange(ctx, &json!({"repr": repr, "f": f.json(), "g": p.json(), "h": g.json(), "k": k.json()}));
            chk_twist_natural(ctx, &json!({"repr": repr, "f": f.json(), "g": k.json()}));
        }
    }
    ctx.notes.push(
        "rule: each law is evaluated on the real library (strict and lax) and on the reference operations; sides compared with model::iso. \
         inputs: (a) corner list (model::corner_models + 15 C03 corners: permutations, s==t non-injective, cup/cap, dangling nodes, 5 parallel edges on 2 nodes, \
         a node used 5x by one edge, non-monogamous, 3-cycle, zero-arity edges, twists) — all triples for assoc, all pairs for twist naturality, all pairs of composable pairs for interchange (stride 5 in quick); \
         (b) exhaustive: type lists over labels {0,1} of length ≤2 (quick) / ≤3 (thorough) for self-inverse (pairs) and hexagons (triples); all operation-free diagrams with ≤2 nodes and legs ≤2 (59 diagrams): every composable triple for assoc (1/7 sample in quick), every pair for naturality (1/17 sample in quick); \
         (c) 32+32+32-node binomial-order merges and a 40-node path; (d) seeded random SMALL(3 nodes,2 edges,arity 2,iface 3,labels 2)/MEDIUM(5,3,3,4,2) chains f;g;h composable by construction in 5/6 of the cases, 2000 (quick) / 90000 (thorough) per representation, lax operands carry 0-2 pending same-label identifications with probability 1/2 (also on the right operand). \
         non-trivial = the law's hypotheses hold (compositions defined) and at least two operands have a node and an edge or interface (object laws: at least two non-empty lists)"
            .into(),
    );
}
