//! C09 — quotienting a lax diagram merges exactly the unified nodes, atomically.
//!
//! Oracle (plain loops, from the statement): the classes of the smallest equivalence relation
//! containing the recorded pairs are computed by label propagation to a fixpoint (no union-find);
//! the call must fail iff some class carries two node labels.  On success the RETURNED map q is
//! validated on its own (domain, codomain, surjective, q[i]==q[j] <=> same class — any numbering of
//! the classes is accepted) and then the whole after-state is recomputed from (before-state, q):
//! every reference replaced by its image, edges/labels/order untouched, new node q[i] labelled like
//! i, no pending pairs.  On failure the after-state must equal the before-state field by field
//! (including the pending pairs).  Small cases are additionally compared up to isomorphism with
//! model::quotient.
use crate::ctx::{guard, Ctx, Rng};
use crate::model::*;
use open_hypergraphs::lax;
use open_hypergraphs::lax::NodeId;
use serde_json::{json, Value};

type Check = fn(&mut Ctx, &Value);
const CHECKS: &[(&str, Check)] = &[("quotient_open", chk_open), ("quotient_hyper", chk_hyper), ("sequence", chk_sequence)];

use std::sync::atomic::{AtomicUsize, Ordering};
static N_OK: AtomicUsize = AtomicUsize::new(0);
static N_ERR: AtomicUsize = AtomicUsize::new(0);

type Pairs = Vec<(usize, usize)>;
type LH = lax::Hypergraph<u8, u8>;

fn pairs_from_json(v: &Value) -> Option<Pairs> {
    v.as_array()?
        .iter()
        .map(|p| {
            let a = p.as_array()?;
            if a.len() != 2 {
                return None;
            }
            Some((a[0].as_u64()? as usize, a[1].as_u64()? as usize))
        })
        .collect()
}
fn pairs_json(p: &Pairs) -> Value {
    json!(p.iter().map(|&(a, b)| vec![a, b]).collect::<Vec<_>>())
}
fn state_json(m: &M, p: &Pairs) -> Value {
    json!({"m": m.json(), "pending": pairs_json(p)})
}

/// classes of the generated equivalence relation: class id = least member; plain fixpoint iteration
fn own_classes(n: usize, pairs: &Pairs) -> Vec<usize> {
    let mut c: Vec<usize> = (0..n).collect();
    loop {
        let mut changed = false;
        for &(a, b) in pairs {
            let m = c[a].min(c[b]);
            if c[a] != m {
                c[a] = m;
                changed = true;
            }
            if c[b] != m {
                c[b] = m;
                changed = true;
            }
        }
        // propagate: everybody takes the id of its id
        for i in 0..n {
            if c[c[i]] != c[i] {
                c[i] = c[c[i]];
                changed = true;
            }
        }
        if !changed {
            return c;
        }
    }
}

/// does some class carry two different labels?
fn conflict(w: &[u8], cls: &[usize]) -> bool {
    (0..w.len()).any(|i| w[cls[i]] != w[i])
}

fn build(m: &M, pairs: &Pairs) -> LOH {
    let mut f = m.to_lax();
    for &(a, b) in pairs {
        f.unify(NodeId(a), NodeId(b));
    }
    f
}

/// Evaluate every clause for ONE quotient call.
/// before = plain state before the call, `res` = guarded result (Ok(q table,target) / Err(q)),
/// after = plain state read back from the real object after the call.
/// returns Some(true) if the call succeeded and everything held, Some(false) if it failed (as it
/// should) and everything held, None if some clause was violated.
fn judge(
    ctx: &mut Ctx,
    check: &str,
    input: &Value,
    before: &(M, Pairs),
    res: &Result<Result<(Vec<usize>, usize), (Vec<usize>, usize)>, String>,
    after: &(M, Pairs),
    open: bool,
) -> Option<bool> {
    let (m0, p0) = before;
    let (m1, p1) = after;
    let n = m0.w.len();
    let cls = own_classes(n, p0);
    let bad = conflict(&m0.w, &cls);
    let mut ok = true;
    match res {
        Ok(Ok(_)) => {
            N_OK.fetch_add(1, Ordering::Relaxed);
        }
        Ok(Err(_)) => {
            N_ERR.fetch_add(1, Ordering::Relaxed);
        }
        _ => {}
    }
    match res {
        Err(p) => {
            ctx.fail(check, "C09.no-panic", input, json!(format!("panic: {}", p)), json!(if bad { "Err" } else { "Ok" }));
            return None;
        }
        Ok(Err(_)) => {
            if !bad {
                ctx.fail(check, "C09.fails-iff-conflict", input, json!("Err"), json!("Ok: every class carries one label"));
                ok = false;
            }
            // atomic: nothing changed, field by field
            if m1.w != m0.w {
                ok &= ctx.expect(false, check, "C09.atomic-nodes", input, json!(m1.w), json!(m0.w));
            }
            if m1.x != m0.x || m1.src != m0.src || m1.tgt != m0.tgt {
                ok &= ctx.expect(false, check, "C09.atomic-edges", input, m1.json(), m0.json());
            }
            if m1.s != m0.s || m1.t != m0.t {
                ok &= ctx.expect(false, check, "C09.atomic-interfaces", input, json!([m1.s, m1.t]), json!([m0.s, m0.t]));
            }
            if p1 != p0 {
                ok &= ctx.expect(false, check, "C09.atomic-pending", input, pairs_json(p1), pairs_json(p0));
            }
            if ok {
                Some(false)
            } else {
                None
            }
        }
        Ok(Ok((q, qt))) => {
            if bad {
                ctx.fail(check, "C09.fails-iff-conflict", input, json!({"result": "Ok", "q": q, "after": state_json(m1, p1)}), json!("Err: a class carries two labels"));
                return None;
            }
            let k = {
                let mut reps: Vec<usize> = cls.clone();
                reps.sort();
                reps.dedup();
                reps.len()
            };
            // the map itself
            if q.len() != n {
                ctx.fail(check, "C09.map-domain", input, json!(q), json!(n));
                return None;
            }
            if *qt != k || m1.w.len() != k {
                ctx.fail(check, "C09.map-codomain", input, json!({"q.target": qt, "new nodes": m1.w.len()}), json!(k));
                return None;
            }
            let mut hit = vec![false; k];
            for &v in q {
                if v >= k {
                    ctx.fail(check, "C09.map-range", input, json!(q), json!(k));
                    return None;
                }
                hit[v] = true;
            }
            if hit.iter().any(|h| !h) {
                ctx.fail(check, "C09.surjective", input, json!(q), json!(k));
                return None;
            }
            for i in 0..n {
                for j in 0..i {
                    if (q[i] == q[j]) != (cls[i] == cls[j]) {
                        ctx.fail(check, "C09.fibres", input, json!({"q": q, "i": i, "j": j}), json!(cls));
                        return None;
                    }
                }
            }
            // the after-state recomputed from (before, q)
            let mp = |l: &Vec<usize>| l.iter().map(|&v| q[v]).collect::<Vec<_>>();
            let mut w = vec![0u8; k];
            for i in 0..n {
                w[q[i]] = m0.w[i];
            }
            let e = M {
                w,
                x: m0.x.clone(),
                src: m0.src.iter().map(mp).collect(),
                tgt: m0.tgt.iter().map(mp).collect(),
                s: if open { mp(&m0.s) } else { vec![] },
                t: if open { mp(&m0.t) } else { vec![] },
            };
            if m1.w != e.w {
                ok &= ctx.expect(false, check, "C09.labels", input, json!({"q": q, "nodes": m1.w}), json!(e.w));
            }
            if m1.x != e.x || m1.src.len() != e.src.len() || m1.tgt.len() != e.tgt.len() {
                ok &= ctx.expect(false, check, "C09.edges-untouched", input, m1.json(), e.json());
            } else if m1.src != e.src || m1.tgt != e.tgt {
                ok &= ctx.expect(false, check, "C09.references", input, json!({"q": q, "src": m1.src, "tgt": m1.tgt}), json!({"src": e.src, "tgt": e.tgt}));
            }
            if m1.s != e.s || m1.t != e.t {
                ok &= ctx.expect(false, check, "C09.interfaces", input, json!({"q": q, "s": m1.s, "t": m1.t}), json!({"s": e.s, "t": e.t}));
            }
            if !p1.is_empty() {
                ok &= ctx.expect(false, check, "C09.cleared", input, pairs_json(p1), json!([]));
            }
            // cross-check with the reference quotient, up to isomorphism (small cases only)
            if ok && n <= 8 && m0.x.len() <= 4 {
                let mut mm = m0.clone();
                if !open {
                    mm.s = vec![];
                    mm.t = vec![];
                }
                match quotient(&mm, p0) {
                    Some((r, _)) => {
                        if !is_iso(m1, &r) {
                            ok &= ctx.expect(false, check, "C09.iso-reference", input, m1.json(), r.json());
                        }
                    }
                    None => {
                        ok &= ctx.expect(false, check, "C09.iso-reference", input, m1.json(), json!("reference quotient undefined"));
                    }
                }
            }
            if ok {
                Some(true)
            } else {
                None
            }
        }
    }
}

fn ff_pair(r: Result<FF, FF>) -> Result<(Vec<usize>, usize), (Vec<usize>, usize)> {
    match r {
        Ok(q) => Ok((q.table.0, q.target)),
        Err(q) => Err((q.table.0, q.target)),
    }
}

fn read_hyper(h: &LH) -> (M, Pairs) {
    M::from_lax(&lax::OpenHypergraph { sources: vec![], targets: vec![], hypergraph: h.clone() })
}

fn decode(input: &Value) -> Option<(M, Pairs)> {
    let m = M::from_json(input.get("m")?)?;
    let p = pairs_from_json(input.get("pairs")?)?;
    let n = m.w.len();
    if !m.valid() || p.iter().any(|&(a, b)| a >= n || b >= n) {
        return None;
    }
    Some((m, p))
}

fn nontrivial(m: &M, p: &Pairs) -> bool {
    p.iter().any(|&(a, b)| a != b) && (!m.x.is_empty() || m.s.len() + m.t.len() > 0)
}

/// input: {"m": model, "pairs": [[a,b]..]} — OpenHypergraph::quotient, then a second call (idempotence
/// after success; same failure and still untouched after failure)
fn chk_open(ctx: &mut Ctx, input: &Value) {
    const C: &str = "quotient_open";
    let (m, p) = match decode(input) {
        Some(x) => x,
        None => return,
    };
    ctx.case(C, input, nontrivial(&m, &p));
    let mut f = build(&m, &p);
    let snapshot = f.clone();
    let before = M::from_lax(&f);
    if before.0 != m || before.1 != p {
        ctx.fail(C, "C09.setup", input, state_json(&before.0, &before.1), state_json(&m, &p));
        return;
    }
    let res = guard(|| ff_pair(f.quotient()));
    let after = M::from_lax(&f);
    let verdict = judge(ctx, C, input, &before, &res, &after, true);
    match verdict {
        None => {}
        Some(false) => {
            // whole-struct equality as well (covers any field the plain reading does not look at)
            if f != snapshot {
                ctx.fail(C, "C09.atomic-struct", input, json!(format!("{:?}", f)), json!(format!("{:?}", snapshot)));
            }
            // a second attempt fails the same way and still changes nothing
            let res2 = guard(|| ff_pair(f.quotient()));
            let after2 = M::from_lax(&f);
            if judge(ctx, C, input, &after, &res2, &after2, true) == Some(false) && f != snapshot {
                ctx.fail(C, "C09.atomic-struct", input, json!(format!("{:?}", f)), json!(format!("{:?}", snapshot)));
            }
        }
        Some(true) => {
            if !f.hypergraph.is_strict() {
                ctx.fail(C, "C09.cleared", input, json!("is_strict() == false"), json!(true));
            }
            let snap2 = f.clone();
            let res2 = guard(|| ff_pair(f.quotient()));
            let after2 = M::from_lax(&f);
            match &res2 {
                Ok(Ok((q2, t2))) => {
                    let id: Vec<usize> = (0..after.0.w.len()).collect();
                    if f != snap2 {
                        ctx.fail(C, "C09.idempotent", input, state_json(&after2.0, &after2.1), state_json(&after.0, &after.1));
                    } else if *q2 != id || *t2 != id.len() {
                        // with an unchanged diagram the second map must fix every node
                        ctx.fail(C, "C09.idempotent-map", input, json!({"q": q2, "target": t2}), json!(id));
                    }
                }
                Ok(Err(_)) => ctx.fail(C, "C09.idempotent", input, json!("second quotient: Err"), json!("Ok")),
                Err(e) => ctx.fail(C, "C09.idempotent", input, json!(format!("second quotient panicked: {}", e)), json!("Ok")),
            }
        }
    }
}

/// input: {"m": model, "pairs": [[a,b]..]} — Hypergraph::quotient on the underlying hypergraph
/// (interfaces of m are ignored)
fn chk_hyper(ctx: &mut Ctx, input: &Value) {
    const C: &str = "quotient_hyper";
    let (mut m, p) = match decode(input) {
        Some(x) => x,
        None => return,
    };
    m.s = vec![];
    m.t = vec![];
    ctx.case(C, input, p.iter().any(|&(a, b)| a != b) && !m.x.is_empty());
    let mut h: LH = build(&m, &p).hypergraph;
    let snapshot = h.clone();
    let before = read_hyper(&h);
    let res = guard(|| ff_pair(h.quotient()));
    let after = read_hyper(&h);
    match judge(ctx, C, input, &before, &res, &after, false) {
        None => {}
        Some(false) => {
            if h != snapshot {
                ctx.fail(C, "C09.atomic-struct", input, json!(format!("{:?}", h)), json!(format!("{:?}", snapshot)));
            }
        }
        Some(true) => {
            let snap2 = h.clone();
            let res2 = guard(|| ff_pair(h.quotient()));
            let id: Vec<usize> = (0..after.0.w.len()).collect();
            match res2 {
                Ok(Ok((q2, t2))) if h == snap2 && q2 == id && t2 == id.len() => {}
                other => {
                    let a2 = read_hyper(&h);
                    ctx.fail(C, "C09.idempotent", input, json!({"second": format!("{:?}", other), "after": state_json(&a2.0, &a2.1)}), state_json(&after.0, &after.1));
                }
            }
        }
    }
}

/// input: {"m": model, "steps": [["u",a,b] | ["q"] | ["n",label] | ["l",i,label] | ["e",label,[src],[tgt]]]}
/// node indices in steps are reduced modulo the current number of nodes (steps naming a node are
/// skipped while there is none); every "q" step is judged against the plain state kept alongside
fn chk_sequence(ctx: &mut Ctx, input: &Value) {
    const C: &str = "sequence";
    let m = match input.get("m").and_then(M::from_json) {
        Some(m) if m.valid() => m,
        _ => return,
    };
    let steps = match input.get("steps").and_then(|s| s.as_array()) {
        Some(s) => s.clone(),
        None => return,
    };
    let nq = steps.iter().filter(|s| s[0] == "q").count();
    ctx.case(C, input, nq >= 2 && steps.iter().any(|s| s[0] == "u"));
    let mut f = m.to_lax();
    let mut st: (M, Pairs) = (m, vec![]);
    let num = |v: &Value| v.as_u64().map(|x| x as usize);
    let list = |v: &Value| -> Option<Vec<usize>> { v.as_array()?.iter().map(|x| x.as_u64().map(|y| y as usize)).collect() };
    for (si, step) in steps.iter().enumerate() {
        let n = st.0.w.len();
        match step[0].as_str() {
            Some("u") => {
                if let (Some(a), Some(b), true) = (num(&step[1]), num(&step[2]), n > 0) {
                    let (a, b) = (a % n, b % n);
                    f.unify(NodeId(a), NodeId(b));
                    st.1.push((a, b));
                }
            }
            Some("n") => {
                if let Some(l) = num(&step[1]) {
                    f.new_node(l as u8);
                    st.0.w.push(l as u8);
                }
            }
            Some("l") => {
                if let (Some(i), Some(l), true) = (num(&step[1]), num(&step[2]), n > 0) {
                    f.hypergraph.nodes[i % n] = l as u8;
                    st.0.w[i % n] = l as u8;
                }
            }
            Some("e") => {
                if let (Some(x), Some(s), Some(t)) = (num(&step[1]), list(&step[2]), list(&step[3])) {
                    if n > 0 || (s.is_empty() && t.is_empty()) {
                        let s: Vec<usize> = s.iter().map(|v| v % n.max(1)).collect();
                        let t: Vec<usize> = t.iter().map(|v| v % n.max(1)).collect();
                        f.new_edge(x as u8, lax::Hyperedge { sources: s.iter().map(|&i| NodeId(i)).collect(), targets: t.iter().map(|&i| NodeId(i)).collect() });
                        st.0.x.push(x as u8);
                        st.0.src.push(s);
                        st.0.tgt.push(t);
                    }
                }
            }
            Some("q") => {
                let before = M::from_lax(&f);
                if before != st {
                    ctx.fail(C, "C09.sequence-state", input, json!({"step": si, "state": state_json(&before.0, &before.1)}), state_json(&st.0, &st.1));
                    return;
                }
                let snapshot = f.clone();
                let res = guard(|| ff_pair(f.quotient()));
                let after = M::from_lax(&f);
                match judge(ctx, C, input, &before, &res, &after, true) {
                    None => return,
                    Some(false) => {
                        if f != snapshot {
                            ctx.fail(C, "C09.atomic-struct", input, json!({"step": si, "after": format!("{:?}", f)}), json!(format!("{:?}", snapshot)));
                            return;
                        }
                    }
                    Some(true) => {}
                }
                st = after;
            }
            _ => {}
        }
    }
}

// ------------------------------------------------------------------------------------------------
// generators
// ------------------------------------------------------------------------------------------------

/// a diagram on n nodes in which every node is referenced from every kind of place
fn decorated(w: Vec<u8>) -> M {
    let n = w.len();
    let all: Vec<usize> = (0..n).collect();
    let rev: Vec<usize> = (0..n).rev().collect();
    M {
        w,
        x: vec![10, 11],
        src: vec![all.clone(), if n > 0 { vec![n - 1, 0] } else { vec![] }],
        tgt: vec![rev.clone(), vec![]],
        s: all.iter().chain(all.iter()).cloned().collect(),
        t: rev,
    }
}

/// pair lists on n = 2^k nodes that build deep union-find trees
fn chain_families(n: usize) -> Vec<(&'static str, Pairs)> {
    let mut out: Vec<(&'static str, Pairs)> = vec![];
    out.push(("chain-up", (0..n - 1).map(|i| (i, i + 1)).collect()));
    out.push(("chain-down", (0..n - 1).rev().map(|i| (i + 1, i)).collect()));
    out.push(("chain-up-flipped", (0..n - 1).map(|i| (i + 1, i)).collect()));
    out.push(("star-in", (1..n).map(|i| (i, 0)).collect()));
    out.push(("star-out", (1..n).map(|i| (n - 1, i - 1)).collect()));
    // binomial-tree order: merge equal-sized blocks, via their first / last / mixed elements
    for variant in 0..4 {
        let mut p: Pairs = vec![];
        let mut r = 1;
        while r < n {
            let mut i = 0;
            while i + r < n {
                let (a, b) = match variant {
                    0 => (i, i + r),
                    1 => (i + r, i),
                    2 => (i + r - 1, i + 2 * r - 1),
                    _ => (i + 2 * r - 1, i),
                };
                p.push((a, b));
                i += 2 * r;
            }
            r *= 2;
        }
        out.push((["binomial-first", "binomial-first-flipped", "binomial-last", "binomial-mixed"][variant], p));
    }
    // two halves merged separately (binomial), joined by one late pair between deep leaves
    {
        let h = n / 2;
        let mut p: Pairs = vec![];
        for base in [0, h] {
            let mut r = 1;
            while r < h {
                let mut i = 0;
                while i + r < h {
                    p.push((base + i + r, base + i));
                    i += 2 * r;
                }
                r *= 2;
            }
        }
        out.push(("two-halves-unjoined", p.clone()));
        p.push((h - 1, n - 1));
        out.push(("two-halves-joined", p));
    }
    // odd/even interleaving: two classes of n/2 built from long strides
    out.push(("interleaved", (0..n - 2).map(|i| (i + 2, i)).collect()));
    out
}

fn random_pairs(r: &mut Rng, m: &M, max_len: usize) -> Pairs {
    let n = m.w.len();
    if n == 0 {
        return vec![];
    }
    let len = r.range(0, max_len);
    let respect = r.below(4); // 0: ignore labels; otherwise mostly label-respecting
    let mut p: Pairs = vec![];
    for _ in 0..len {
        let a = r.below(n);
        let b = if respect > 0 && !r.chance(1, 12) {
            let c: Vec<usize> = (0..n).filter(|&i| m.w[i] == m.w[a]).collect();
            c[r.below(c.len())]
        } else {
            r.below(n)
        };
        p.push((a, b));
        if r.chance(1, 6) {
            p.push(if r.chance(1, 2) { (a, b) } else { (b, a) }); // repeated / flipped pair
        }
    }
    p
}

fn random_steps(r: &mut Rng, len: usize) -> Vec<Value> {
    let mut steps = vec![];
    for _ in 0..len {
        steps.push(match r.below(12) {
            0..=4 => json!(["u", r.below(8), r.below(8)]),
            5..=7 => json!(["q"]),
            8 => json!(["n", r.below(2)]),
            9 => json!(["l", r.below(8), r.below(2)]),
            10 => {
                let (a, b) = (r.range(0, 2), r.range(0, 2));
                json!(["e", 12 + r.below(2), r.vec_below(a, 8), r.vec_below(b, 8)])
            }
            _ => json!(["u", r.below(8), r.below(8)]),
        });
    }
    steps
}

fn tuples(len: usize, n: usize) -> Vec<Vec<usize>> {
    let mut out = vec![vec![]];
    for _ in 0..len {
        let mut next = vec![];
        for t in &out {
            for v in 0..n {
                let mut u: Vec<usize> = t.clone();
                u.push(v);
                next.push(u);
            }
        }
        out = next;
    }
    out
}

pub fn run(ctx: &mut Ctx) {
    if let Some((name, input)) = ctx.replay.clone() {
        for (n, c) in CHECKS {
            if *n == name {
                c(ctx, &input);
            }
        }
        return;
    }
    let thorough = ctx.thorough();
    let both = |ctx: &mut Ctx, m: &M, p: &Pairs| {
        let inp = json!({"m": m.json(), "pairs": pairs_json(p)});
        chk_open(ctx, &inp);
        chk_hyper(ctx, &inp);
    };

    // (a) corner models x fixed pair lists (filtered to the nodes that exist)
    let fixed: Vec<Pairs> = vec![
        vec![],
        vec![(0, 0)],
        vec![(0, 1)],
        vec![(1, 0)],
        vec![(0, 1), (0, 1)],
        vec![(0, 1), (1, 0)],
        vec![(0, 0), (1, 1), (2, 2)],
        vec![(0, 2)],
        vec![(2, 0), (0, 2), (2, 0), (0, 2), (2, 0)],
        vec![(0, 1), (1, 2)],
        vec![(1, 2), (0, 1)],
        vec![(2, 1), (1, 0), (0, 2)],
        vec![(0, 1); 9], // multiplicity larger than the number of nodes
    ];
    for m in corner_models() {
        for p in &fixed {
            if p.iter().all(|&(a, b)| a < m.w.len() && b < m.w.len()) {
                both(ctx, &m, p);
            }
        }
    }

    // (b) exhaustive: every labelling of n <= 4 nodes over {0,1} (decorated so that every node is referenced
    // from edges and both interfaces) x every pair list of length <= 2 (<= 3 for n <= 3; thorough: <= 3 for n = 4)
    for n in 0..=4usize {
        for wl in tuples(n, 2) {
            let m = decorated(wl.iter().map(|&v| v as u8).collect());
            let maxlen = if n <= 3 || thorough { 3 } else { 2 };
            for len in 0..=maxlen {
                if n == 0 && len > 0 {
                    continue;
                }
                for flat in tuples(2 * len, n) {
                    let p: Pairs = flat.chunks(2).map(|c| (c[0], c[1])).collect();
                    if !thorough && n == 3 && len == 3 && (flat[0] > flat[1]) {
                        continue; // quick: first pair in canonical order only
                    }
                    both(ctx, &m, &p);
                }
            }
        }
    }

    // (c) long chains / deep trees: 8, 16, 64 (= 32 + 32) nodes, one label; then the same with one node deep
    // inside relabelled (must fail and leave everything untouched), and with the second half relabelled
    for n in [8usize, 16, 64] {
        for (_name, p) in chain_families(n) {
            let m = decorated(vec![5; n]);
            both(ctx, &m, &p);
            for odd in [0, n / 2 - 1, n / 2, n - 3, n - 1] {
                let mut w = vec![5u8; n];
                w[odd] = 6;
                both(ctx, &decorated(w), &p);
            }
            let w: Vec<u8> = (0..n).map(|i| if i < n / 2 { 5 } else { 6 }).collect();
            both(ctx, &decorated(w), &p);
            let w: Vec<u8> = (0..n).map(|i| 5 + (i % 2) as u8).collect();
            both(ctx, &decorated(w), &p);
            // the same pairs listed twice and in reverse
            let mut pp = p.clone();
            pp.extend(p.iter().rev().map(|&(a, b)| (b, a)));
            both(ctx, &decorated(vec![5; n]), &pp);
        }
    }

    // (d) random diagrams with random pair lists
    let nrand = ctx.budget(15000, 800000);
    for i in 0..nrand {
        let b = if i % 3 == 0 { MEDIUM } else { SMALL };
        let mut m = random_model(&mut ctx.rng, b);
        if ctx.rng.chance(1, 3) {
            for l in m.w.iter_mut() {
                *l = 0;
            }
        }
        if ctx.rng.chance(1, 5) {
            // extra isolated / dangling nodes
            for _ in 0..ctx.rng.range(1, 3) {
                let l = ctx.rng.below(2) as u8;
                m.w.push(l);
            }
        }
        let p = random_pairs(&mut ctx.rng, &m, 6);
        both(ctx, &m, &p);
    }
    // medium-size random: 9..20 nodes, up to 30 pairs
    for _ in 0..ctx.budget(1500, 60000) {
        let n = ctx.rng.range(9, 20);
        let labels = ctx.rng.range(1, 3);
        let w: Vec<u8> = (0..n).map(|_| ctx.rng.below(labels) as u8).collect();
        let mut m = decorated(w);
        let ls = ctx.rng.range(0, 6);
        m.s = ctx.rng.vec_below(ls, n);
        let p = random_pairs(&mut ctx.rng, &m, 30);
        both(ctx, &m, &p);
    }

    // (e) sequences of quotient calls interleaved with further unifications (and node/label/edge edits)
    let corners = corner_models();
    for m in &corners {
        for steps in [
            json!([["q"], ["q"]]),
            json!([["u", 0, 1], ["q"], ["q"], ["u", 0, 1], ["q"]]),
            json!([["u", 0, 1], ["u", 1, 2], ["q"], ["u", 0, 0], ["q"], ["n", 0], ["u", 0, 7], ["q"]]),
            json!([["n", 0], ["n", 1], ["u", 0, 1], ["u", 0, 2], ["q"], ["q"], ["l", 0, 0], ["l", 1, 0], ["l", 2, 0], ["l", 3, 0], ["l", 4, 0], ["q"], ["q"]]),
            json!([["u", 2, 0], ["q"], ["e", 12, [0, 1], [1]], ["u", 1, 0], ["q"], ["u", 0, 1], ["u", 1, 0], ["q"]]),
        ] {
            chk_sequence(ctx, &json!({"m": m.json(), "steps": steps}));
        }
    }
    // fail, repair the label, succeed; then merge further
    chk_sequence(
        ctx,
        &json!({"m": decorated(vec![0, 0, 1, 0]).json(), "steps": [["u", 0, 1], ["u", 1, 2], ["q"], ["q"], ["l", 2, 0], ["q"], ["q"], ["u", 0, 1], ["q"], ["l", 0, 1], ["u", 1, 0], ["q"]]}),
    );
    for _ in 0..ctx.budget(10000, 500000) {
        let bnd = if ctx.rng.chance(1, 2) { SMALL } else { MEDIUM };
        let mut m = random_model(&mut ctx.rng, bnd);
        if ctx.rng.chance(1, 2) {
            for l in m.w.iter_mut() {
                *l = 0;
            }
        }
        let len = ctx.rng.range(2, 14);
        let steps = random_steps(&mut ctx.rng, len);
        chk_sequence(ctx, &json!({"m": m.json(), "steps": steps}));
    }

    ctx.notes.push(format!("judged quotient calls: {} returned Ok, {} returned Err", N_OK.load(Ordering::Relaxed), N_ERR.load(Ordering::Relaxed)));
    ctx.notes.push(
        "rule: (diagram, list of unification pairs) evaluated on lax::OpenHypergraph::quotient and on lax::Hypergraph::quotient, each followed by a second call; \
         exhaustive: all labellings over {0,1} of n<=4 nodes (every node referenced from two edges and both interfaces) x all pair lists of length<=2 (<=3 for n<=3; thorough also n=4); \
         corners: 10 corner models x 13 fixed pair lists (self pairs, repeated, flipped, 9-fold multiplicity); \
         deep trees: n in {8,16,64} x 13 pair orders (chains up/down, stars, 4 binomial-tree orders, two halves of n/2 joined late, interleaved) x {one label, one odd node at 5 positions, half/half, alternating, doubled+reversed}; \
         random: SMALL/MEDIUM models (+dangling nodes, 1/3 single-label) with <=6 pairs biased to respect labels, and 9..20 nodes with <=30 pairs; \
         sequences: <=14 steps of unify / quotient / new node / relabel / new edge on corner and random models; \
         non-trivial = some pair (a,b) with a!=b and an edge or interface present (sequence: >=2 quotient steps and >=1 unify)"
            .into(),
    );
}
