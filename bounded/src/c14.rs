//! C14 — the optic transformation is well-typed, functorial and differentiates correctly.
//!
//! Oracles (all written from the property statement, plain loops over Vec):
//!  * `oracle`: the optic image of a plain model `f` BY DEFINITION — one block of nodes F(w)●R(w) per
//!    node of f, one disjoint copy of fwd(x) and rev(x) per operation x, glued along
//!    F A / F B / residual M / R B / R A — read off with the interleaved boundary
//!    (optic form) or with the boundary F A ● R B → F B ● R A (adapted form).  Compared up to `model::iso`.
//!  * functoriality: model::compose / model::tensor / model::identity on the library's own images.
//!  * derivative: an independent reverse-mode interpreter over ℤ/2⁶⁴ on the plain model, itself
//!    cross-checked against forward-mode (tangent) propagation, compared with
//!    `strict::eval::eval` of the adapted optic (and with a plain interpreter run on the adapted diagram).
use crate::ctx::{guard, Ctx, Rng};
use crate::model::*;
use open_hypergraphs::array::vec::*;
use open_hypergraphs::indexed_coproduct::IndexedCoproduct;
use open_hypergraphs::lax;
use open_hypergraphs::lax::optic::Optic as LaxOptic;
use open_hypergraphs::operations::Operations;
use open_hypergraphs::semifinite::SemifiniteFunction;
use open_hypergraphs::strict::functor::optic::Optic as StrictOptic;
use open_hypergraphs::strict::functor::traits::Functor as StrictFunctor;
use serde_json::{json, Value};

type Check = fn(&mut Ctx, &Value);
const CHECKS: &[(&str, Check)] = &[
    ("optic", chk_optic),
    ("map_object", chk_map_object),
    ("map_operations", chk_map_operations),
    ("functor", chk_functor),
    ("deriv", chk_deriv),
    ("chain", chk_chain),
];

type ICS = IndexedCoproduct<VecKind, SF<u8>>;

/// self-test aid: C14_ONLY=name[,name] restricts a run to the named checks (unset: all checks)
fn skipped(name: &str) -> bool {
    match std::env::var("C14_ONLY") {
        Ok(v) if !v.is_empty() => !v.split(',').any(|n| n == name),
        _ => false,
    }
}

// ------------------------------------------------------------------------------------------------
// polynomial circuit theory over Z/2^64 (single object 0)
// ------------------------------------------------------------------------------------------------
const ADD: u8 = 0;
const MUL: u8 = 1;
const NEG: u8 = 2;
const COPY: u8 = 3;
const DISCARD: u8 = 4;
const CONST0: u8 = 8; // CONST0 + k is the constant CONSTS[k]
const CONSTS: [u64; 8] = [0, 1, 2, 3, u64::MAX, 1 << 63, (1 << 32) + 1, 0x9E3779B97F4A7C15];
const POLY_OPS: usize = 16;

fn poly_type(op: u8) -> Option<(usize, usize)> {
    match op {
        ADD | MUL => Some((2, 1)),
        NEG => Some((1, 1)),
        COPY => Some((1, 2)),
        DISCARD => Some((1, 0)),
        c if c >= CONST0 && ((c - CONST0) as usize) < CONSTS.len() => Some((0, 1)),
        _ => None,
    }
}

fn poly_apply_op(op: u8, a: &[u64]) -> Option<Vec<u64>> {
    let (n, _) = poly_type(op)?;
    if a.len() != n {
        return None;
    }
    Some(match op {
        ADD => vec![a[0].wrapping_add(a[1])],
        MUL => vec![a[0].wrapping_mul(a[1])],
        NEG => vec![a[0].wrapping_neg()],
        COPY => vec![a[0], a[0]],
        DISCARD => vec![],
        c => vec![CONSTS[(c - CONST0) as usize]],
    })
}

/// the `apply` callback handed to strict::eval::eval
fn poly_apply_lib(ops: SF<u8>, args: IndexedCoproduct<VecKind, SF<u64>>) -> IndexedCoproduct<VecKind, SF<u64>> {
    let sizes = &args.sources.table.0;
    let vals = &args.values.0 .0;
    let mut p = 0usize;
    let mut osz = vec![];
    let mut ov = vec![];
    for (i, op) in ops.0 .0.iter().enumerate() {
        let k = sizes[i];
        let out = poly_apply_op(*op, &vals[p..p + k]).expect("apply: operation applied to the wrong number of arguments");
        p += k;
        osz.push(out.len());
        ov.extend(out);
    }
    IndexedCoproduct::from_semifinite(SemifiniteFunction(VecArray(osz)), SemifiniteFunction(VecArray(ov))).unwrap()
}

// ------------------------------------------------------------------------------------------------
// optic specification: forward / reverse object images, residuals, generator images
// ------------------------------------------------------------------------------------------------
#[derive(Clone, Debug, PartialEq)]
struct Spec {
    /// standard reverse-derivative lenses of the polynomial circuit theory (tables below ignored)
    poly: bool,
    /// the optic of the library's own tests: forward = the library's `Identity` functor (strict entry),
    /// reverse = dagger (x: A→B ↦ x: B→A), residuals empty
    iddag: bool,
    fobj: Vec<Vec<u8>>,
    robj: Vec<Vec<u8>>,
    res: Vec<Vec<u8>>,
    fmode: Vec<u8>,
    rmode: Vec<u8>,
}

const N_MODES: usize = 6;

fn u8ss(v: &Value) -> Option<Vec<Vec<u8>>> {
    v.as_array()?.iter().map(u8s).collect()
}
fn u8s(v: &Value) -> Option<Vec<u8>> {
    v.as_array()?.iter().map(|x| x.as_u64().filter(|&y| y < 256).map(|y| y as u8)).collect()
}
fn u64s(v: &Value) -> Option<Vec<u64>> {
    v.as_array()?.iter().map(|x| x.as_u64()).collect()
}

impl Spec {
    fn poly() -> Spec {
        let mut res = vec![vec![]; POLY_OPS];
        res[MUL as usize] = vec![0, 0];
        Spec { poly: true, iddag: false, fobj: vec![vec![0]], robj: vec![vec![0]], res, fmode: vec![0; POLY_OPS], rmode: vec![0; POLY_OPS] }
    }
    fn iddag() -> Spec {
        let id: Vec<Vec<u8>> = (0..NL as u8).map(|l| vec![l]).collect();
        Spec { poly: false, iddag: true, fobj: id.clone(), robj: id, res: vec![vec![]; NX], fmode: vec![0; NX], rmode: vec![0; NX] }
    }
    fn json(&self) -> Value {
        if self.poly {
            json!({"poly": true})
        } else if self.iddag {
            json!({"poly": false, "iddag": true})
        } else {
            json!({"poly": false, "fobj": self.fobj, "robj": self.robj, "res": self.res, "fmode": self.fmode, "rmode": self.rmode})
        }
    }
    fn from_json(v: &Value) -> Option<Spec> {
        if v.get("poly")?.as_bool()? {
            return Some(Spec::poly());
        }
        if v.get("iddag").and_then(|b| b.as_bool()) == Some(true) {
            return Some(Spec::iddag());
        }
        let s = Spec { poly: false, iddag: false, fobj: u8ss(v.get("fobj")?)?, robj: u8ss(v.get("robj")?)?, res: u8ss(v.get("res")?)?, fmode: u8s(v.get("fmode")?)?, rmode: u8s(v.get("rmode")?)? };
        let ok = s.fobj.len() == s.robj.len()
            && s.res.len() == s.fmode.len()
            && s.res.len() == s.rmode.len()
            && s.res.len() <= 6
            && s.fmode.iter().chain(s.rmode.iter()).all(|&m| (m as usize) < N_MODES);
        if ok {
            Some(s)
        } else {
            None
        }
    }
    /// the diagram only uses labels the spec knows (and, for poly, operations have their arity)
    fn covers(&self, f: &M) -> bool {
        if !f.valid() || f.w.iter().any(|&l| l as usize >= self.fobj.len()) || f.x.iter().any(|&l| l as usize >= self.res.len()) {
            return false;
        }
        if self.poly {
            for e in 0..f.x.len() {
                if poly_type(f.x[e]) != Some((f.src[e].len(), f.tgt[e].len())) {
                    return false;
                }
            }
        }
        true
    }
    fn f_ty(&self, a: &[u8]) -> Vec<u8> {
        a.iter().flat_map(|&l| self.fobj[l as usize].clone()).collect()
    }
    fn r_ty(&self, a: &[u8]) -> Vec<u8> {
        a.iter().flat_map(|&l| self.robj[l as usize].clone()).collect()
    }
    /// interleave(F A, R A): F(A0) R(A0) F(A1) R(A1) ...
    fn inter_ty(&self, a: &[u8]) -> Vec<u8> {
        a.iter().flat_map(|&l| [self.fobj[l as usize].clone(), self.robj[l as usize].clone()].concat()).collect()
    }
    /// forward generator image  F A → F B ● M_x
    fn fwd_image(&self, x: u8, a: &[u8], b: &[u8]) -> M {
        if self.poly {
            return poly_fwd(x);
        }
        if self.iddag {
            return singleton(x, a, b);
        }
        let t = [self.f_ty(b), self.res[x as usize].clone()].concat();
        shape(self.fmode[x as usize], 100 + x, &self.f_ty(a), &t)
    }
    /// reverse generator image  M_x ● R B → R A
    fn rev_image(&self, x: u8, a: &[u8], b: &[u8]) -> M {
        if self.poly {
            return poly_rev(x);
        }
        if self.iddag {
            return singleton(x, b, a);
        }
        let s = [self.res[x as usize].clone(), self.r_ty(b)].concat();
        shape(self.rmode[x as usize], 200 + x, &s, &self.r_ty(a))
    }
}

/// a diagram of type s → t in the target theory; `mode` selects its shape
fn shape(mode: u8, label: u8, s: &[u8], t: &[u8]) -> M {
    let (ns, nt) = (s.len(), t.len());
    match mode {
        // one operation
        0 => singleton(label, s, t),
        // two operations in sequence (monogamous, internal nodes)
        1 => M {
            w: [s.to_vec(), t.to_vec(), t.to_vec()].concat(),
            x: vec![label, label.wrapping_add(50)],
            src: vec![(0..ns).collect(), (ns..ns + nt).collect()],
            tgt: vec![(ns..ns + nt).collect(), (ns + nt..ns + 2 * nt).collect()],
            s: (0..ns).collect(),
            t: (ns + nt..ns + 2 * nt).collect(),
        },
        // no operation at all: dangling inputs and outputs (not monogamous unless both empty)
        2 => M { w: [s.to_vec(), t.to_vec()].concat(), x: vec![], src: vec![], tgt: vec![], s: (0..ns).collect(), t: (ns..ns + nt).collect() },
        // one operation, nodes numbered backwards (targets first), plus a zero-arity operation listed first
        3 => M {
            w: [t.iter().rev().cloned().collect::<Vec<_>>(), s.iter().rev().cloned().collect::<Vec<_>>()].concat(),
            x: vec![label.wrapping_add(50), label],
            src: vec![vec![], (0..ns).map(|i| nt + ns - 1 - i).collect()],
            tgt: vec![vec![], (0..nt).map(|i| nt - 1 - i).collect()],
            s: (0..ns).map(|i| nt + ns - 1 - i).collect(),
            t: (0..nt).map(|i| nt - 1 - i).collect(),
        },
        // identity wires wherever s[i] == t[i], one operation for the rest (monogamous)
        4 => {
            let mut w = vec![];
            let (mut sn, mut tn, mut es, mut et) = (vec![], vec![], vec![], vec![]);
            for i in 0..ns.max(nt) {
                if i < ns && i < nt && s[i] == t[i] {
                    w.push(s[i]);
                    sn.push(w.len() - 1);
                    tn.push(w.len() - 1);
                } else {
                    if i < ns {
                        w.push(s[i]);
                        sn.push(w.len() - 1);
                        es.push(w.len() - 1);
                    }
                    if i < nt {
                        w.push(t[i]);
                        tn.push(w.len() - 1);
                        et.push(w.len() - 1);
                    }
                }
            }
            M { w, x: vec![label], src: vec![es], tgt: vec![et], s: sn, t: tn }
        }
        // one operation plus a second consumer of all inputs (not monogamous when s is non-empty)
        _ => M {
            w: [s.to_vec(), t.to_vec()].concat(),
            x: vec![label, label.wrapping_add(50)],
            src: vec![(0..ns).collect(), (0..ns).collect()],
            tgt: vec![(ns..ns + nt).collect(), vec![]],
            s: (0..ns).collect(),
            t: (ns..ns + nt).collect(),
        },
    }
}

/// forward lens part: every operation is itself, except mul which also remembers its arguments
fn poly_fwd(x: u8) -> M {
    if x == MUL {
        // x1 x2 -> (x1*x2, x1, x2)
        M { w: vec![0; 7], x: vec![COPY, COPY, MUL], src: vec![vec![0], vec![1], vec![2, 4]], tgt: vec![vec![2, 3], vec![4, 5], vec![6]], s: vec![0, 1], t: vec![6, 3, 5] }
    } else {
        let (a, b) = poly_type(x).unwrap_or((0, 0));
        singleton(x, &vec![0; a], &vec![0; b])
    }
}

/// reverse lens part  M ● dY → dX
fn poly_rev(x: u8) -> M {
    match x {
        // dy -> (dy, dy)
        ADD => singleton(COPY, &[0], &[0, 0]),
        // (m1, m2, dy) -> (m2*dy, m1*dy)
        MUL => M { w: vec![0; 7], x: vec![COPY, MUL, MUL], src: vec![vec![2], vec![1, 3], vec![0, 4]], tgt: vec![vec![3, 4], vec![5], vec![6]], s: vec![0, 1, 2], t: vec![5, 6] },
        NEG => singleton(NEG, &[0], &[0]),
        // (dy1, dy2) -> dy1 + dy2
        COPY => singleton(ADD, &[0, 0], &[0]),
        // () -> 0
        DISCARD => singleton(CONST0, &[], &[0]),
        // dy -> ()
        _ => singleton(DISCARD, &[0], &[]),
    }
}

// ---- strict entry: forward / reverse functors and residual closure -------------------------------
struct SpecFun {
    spec: Spec,
    rev: bool,
}

fn ics(lists: &[Vec<u8>]) -> ICS {
    let sizes: Vec<usize> = lists.iter().map(|l| l.len()).collect();
    let vals: Vec<u8> = lists.iter().flatten().cloned().collect();
    IndexedCoproduct::from_semifinite(SemifiniteFunction(VecArray(sizes)), SemifiniteFunction(VecArray(vals))).unwrap()
}

fn split_u8(c: &ICS) -> Vec<Vec<u8>> {
    let mut out = vec![];
    let mut p = 0;
    for &k in c.sources.table.0.iter() {
        out.push(c.values.0 .0[p..p + k].to_vec());
        p += k;
    }
    out
}

impl StrictFunctor<VecKind, u8, u8, u8, u8> for SpecFun {
    fn map_object(&self, a: &SF<u8>) -> ICS {
        let tab = if self.rev { &self.spec.robj } else { &self.spec.fobj };
        ics(&a.0 .0.iter().map(|&l| tab[l as usize].clone()).collect::<Vec<_>>())
    }
    fn map_operations(&self, ops: Operations<VecKind, u8, u8>) -> SOH {
        let (a, b) = (split_u8(&ops.a), split_u8(&ops.b));
        let mut acc = M::empty();
        for (i, &x) in ops.x.0 .0.iter().enumerate() {
            let g = if self.rev { self.spec.rev_image(x, &a[i], &b[i]) } else { self.spec.fwd_image(x, &a[i], &b[i]) };
            acc = tensor(&acc, &g);
        }
        acc.to_strict()
    }
    fn map_arrow(&self, _f: &SOH) -> SOH {
        panic!("the forward/reverse parts are never applied to arrows")
    }
}

type SOptic = StrictOptic<SpecFun, SpecFun, VecKind, u8, u8, u8, u8>;
type LibIdentity = open_hypergraphs::strict::functor::identity::Identity;

fn strict_optic(spec: &Spec) -> SOptic {
    let s = spec.clone();
    StrictOptic::new(
        SpecFun { spec: spec.clone(), rev: false },
        SpecFun { spec: spec.clone(), rev: true },
        Box::new(move |ops: &Operations<VecKind, u8, u8>| ics(&ops.x.0 .0.iter().map(|&x| s.res[x as usize].clone()).collect::<Vec<_>>())),
    )
}

// ---- lax entry -----------------------------------------------------------------------------------
impl LaxOptic<u8, u8, u8, u8> for Spec {
    fn fwd_object(&self, o: &u8) -> Vec<u8> {
        self.fobj[*o as usize].clone()
    }
    fn fwd_operation(&self, a: &u8, source: &[u8], target: &[u8]) -> LOH {
        self.fwd_image(*a, source, target).to_lax()
    }
    fn rev_object(&self, o: &u8) -> Vec<u8> {
        self.robj[*o as usize].clone()
    }
    fn rev_operation(&self, a: &u8, source: &[u8], target: &[u8]) -> LOH {
        self.rev_image(*a, source, target).to_lax()
    }
    fn residual(&self, a: &u8) -> Vec<u8> {
        self.res[*a as usize].clone()
    }
}

// ------------------------------------------------------------------------------------------------
// definitions on the plain model
// ------------------------------------------------------------------------------------------------
/// every node is produced exactly once (input or operation output) and consumed exactly once
fn monogamous(m: &M) -> bool {
    let n = m.w.len();
    let mut ins = vec![0usize; n];
    let mut outs = vec![0usize; n];
    for &v in &m.s {
        ins[v] += 1;
    }
    for &v in &m.t {
        outs[v] += 1;
    }
    for e in 0..m.x.len() {
        for &v in &m.tgt[e] {
            ins[v] += 1;
        }
        for &v in &m.src[e] {
            outs[v] += 1;
        }
    }
    (0..n).all(|v| ins[v] == 1 && outs[v] == 1)
}

/// an order of the operations in which every operation comes after the producers of its inputs
/// (None when there is a directed cycle)
fn topo(m: &M) -> Option<Vec<usize>> {
    let k = m.x.len();
    let mut done = vec![false; k];
    let mut order = vec![];
    loop {
        let mut progress = false;
        for e in 0..k {
            if done[e] {
                continue;
            }
            // every source node must not be the output of an operation that is not done yet
            let blocked = m.src[e].iter().any(|v| (0..k).any(|p| !done[p] && m.tgt[p].contains(v)));
            if !blocked {
                done[e] = true;
                order.push(e);
                progress = true;
            }
        }
        if !progress {
            break;
        }
    }
    if order.len() == k {
        Some(order)
    } else {
        None
    }
}

/// plain interpreter: values of all nodes and of the outputs
fn run_circuit(m: &M, x: &[u64]) -> Option<(Vec<u64>, Vec<u64>)> {
    if x.len() != m.s.len() {
        return None;
    }
    let order = topo(m)?;
    let mut val: Vec<Option<u64>> = vec![None; m.w.len()];
    for (i, &v) in m.s.iter().enumerate() {
        val[v] = Some(x[i]);
    }
    for e in order {
        let args: Option<Vec<u64>> = m.src[e].iter().map(|&v| val[v]).collect();
        let out = poly_apply_op(m.x[e], &args?)?;
        if out.len() != m.tgt[e].len() {
            return None;
        }
        for (j, &v) in m.tgt[e].iter().enumerate() {
            val[v] = Some(out[j]);
        }
    }
    let outs: Option<Vec<u64>> = m.t.iter().map(|&v| val[v]).collect();
    let all: Vec<u64> = val.iter().map(|v| v.unwrap_or(0)).collect();
    Some((all, outs?))
}

/// reverse-mode: (f(x), J_f(x)^T dy)
fn reverse_mode(m: &M, x: &[u64], dy: &[u64]) -> Option<(Vec<u64>, Vec<u64>)> {
    if dy.len() != m.t.len() {
        return None;
    }
    let (val, y) = run_circuit(m, x)?;
    let order = topo(m)?;
    let mut adj = vec![0u64; m.w.len()];
    for (j, &v) in m.t.iter().enumerate() {
        adj[v] = adj[v].wrapping_add(dy[j]);
    }
    for &e in order.iter().rev() {
        let (s, t) = (&m.src[e], &m.tgt[e]);
        match m.x[e] {
            ADD => {
                adj[s[0]] = adj[s[0]].wrapping_add(adj[t[0]]);
                adj[s[1]] = adj[s[1]].wrapping_add(adj[t[0]]);
            }
            MUL => {
                let (a, b, d) = (val[s[0]], val[s[1]], adj[t[0]]);
                adj[s[0]] = adj[s[0]].wrapping_add(b.wrapping_mul(d));
                adj[s[1]] = adj[s[1]].wrapping_add(a.wrapping_mul(d));
            }
            NEG => adj[s[0]] = adj[s[0]].wrapping_add(adj[t[0]].wrapping_neg()),
            COPY => adj[s[0]] = adj[s[0]].wrapping_add(adj[t[0]]).wrapping_add(adj[t[1]]),
            _ => {}
        }
    }
    Some((y, m.s.iter().map(|&v| adj[v]).collect()))
}

/// forward-mode cross-check of the oracle: (J e_i) · dy for every input i
fn forward_mode(m: &M, x: &[u64], dy: &[u64]) -> Option<Vec<u64>> {
    let (val, _) = run_circuit(m, x)?;
    let order = topo(m)?;
    let mut out = vec![];
    for i in 0..m.s.len() {
        let mut tan = vec![0u64; m.w.len()];
        tan[m.s[i]] = 1;
        for &e in &order {
            let (s, t) = (&m.src[e], &m.tgt[e]);
            match m.x[e] {
                ADD => tan[t[0]] = tan[s[0]].wrapping_add(tan[s[1]]),
                MUL => tan[t[0]] = tan[s[0]].wrapping_mul(val[s[1]]).wrapping_add(val[s[0]].wrapping_mul(tan[s[1]])),
                NEG => tan[t[0]] = tan[s[0]].wrapping_neg(),
                COPY => {
                    tan[t[0]] = tan[s[0]];
                    tan[t[1]] = tan[s[0]];
                }
                DISCARD => {}
                _ => tan[t[0]] = 0,
            }
        }
        let mut acc = 0u64;
        for (j, &v) in m.t.iter().enumerate() {
            acc = acc.wrapping_add(tan[v].wrapping_mul(dy[j]));
        }
        out.push(acc);
    }
    Some(out)
}

struct Expected {
    optic: M,
    adapted: M,
    /// all generator images used are monogamous and acyclic
    gens_mono: bool,
}

/// the optic image of f by definition (see module doc)
fn oracle(spec: &Spec, f: &M) -> Expected {
    let mut g = M::empty();
    let mut fpos: Vec<Vec<usize>> = vec![];
    let mut rpos: Vec<Vec<usize>> = vec![];
    for &l in &f.w {
        let mut fp = vec![];
        for &o in &spec.fobj[l as usize] {
            g.w.push(o);
            fp.push(g.w.len() - 1);
        }
        let mut rp = vec![];
        for &o in &spec.robj[l as usize] {
            g.w.push(o);
            rp.push(g.w.len() - 1);
        }
        fpos.push(fp);
        rpos.push(rp);
    }
    let blocks = |pos: &Vec<Vec<usize>>, l: &Vec<usize>| -> Vec<usize> { l.iter().flat_map(|&v| pos[v].clone()).collect() };
    let mut pairs: Vec<(usize, usize)> = vec![];
    let mut gens_mono = true;
    for e in 0..f.x.len() {
        let a: Vec<u8> = f.src[e].iter().map(|&v| f.w[v]).collect();
        let b: Vec<u8> = f.tgt[e].iter().map(|&v| f.w[v]).collect();
        let fw = spec.fwd_image(f.x[e], &a, &b);
        let rv = spec.rev_image(f.x[e], &a, &b);
        gens_mono = gens_mono && monogamous(&fw) && monogamous(&rv) && topo(&fw).is_some() && topo(&rv).is_some();
        let o1 = g.w.len();
        g = tensor(&g, &fw);
        let o2 = g.w.len();
        g = tensor(&g, &rv);
        let (fa, fb, ra, rb) = (blocks(&fpos, &f.src[e]), blocks(&fpos, &f.tgt[e]), blocks(&rpos, &f.src[e]), blocks(&rpos, &f.tgt[e]));
        let nm = spec.res[f.x[e] as usize].len();
        assert_eq!(fw.s.len(), fa.len());
        assert_eq!(fw.t.len(), fb.len() + nm);
        assert_eq!(rv.s.len(), nm + rb.len());
        assert_eq!(rv.t.len(), ra.len());
        for k in 0..fa.len() {
            pairs.push((o1 + fw.s[k], fa[k])); // forward part reads F A
        }
        for k in 0..fb.len() {
            pairs.push((o1 + fw.t[k], fb[k])); // ... and writes F B
        }
        for k in 0..nm {
            pairs.push((o1 + fw.t[fb.len() + k], o2 + rv.s[k])); // residual: forward → matching reverse
        }
        for k in 0..rb.len() {
            pairs.push((o2 + rv.s[nm + k], rb[k])); // reverse part reads R B
        }
        for k in 0..ra.len() {
            pairs.push((o2 + rv.t[k], ra[k])); // ... and writes R A
        }
    }
    let inter = |l: &Vec<usize>| -> Vec<usize> { l.iter().flat_map(|&v| [fpos[v].clone(), rpos[v].clone()].concat()).collect() };
    let mut o = g.clone();
    o.s = inter(&f.s);
    o.t = inter(&f.t);
    let mut ad = g;
    ad.s = [blocks(&fpos, &f.s), blocks(&rpos, &f.t)].concat();
    ad.t = [blocks(&fpos, &f.t), blocks(&rpos, &f.s)].concat();
    Expected { optic: quotient(&o, &pairs).expect("oracle: labels agree by construction").0, adapted: quotient(&ad, &pairs).expect("oracle").0, gens_mono }
}

// ------------------------------------------------------------------------------------------------
// calling the library
// ------------------------------------------------------------------------------------------------
fn lax_to_model(r: &LOH) -> Result<M, String> {
    let (m, q) = M::from_lax(r);
    if !q.is_empty() {
        return Err(format!("result has {} pending identifications", q.len()));
    }
    if !m.valid() {
        return Err("result refers to nodes out of range".into());
    }
    Ok(m)
}

fn with_pending(f: &M, pending: &[(usize, usize)]) -> LOH {
    let mut lf = f.to_lax();
    for &(a, b) in pending {
        lf.hypergraph.quotient.0.push(lax::NodeId(a));
        lf.hypergraph.quotient.1.push(lax::NodeId(b));
    }
    lf
}

/// (optic image, adapted image) through the chosen entry point; Err = (clause, message)
fn lib_optic(spec: &Spec, f: &M, entry: &str, pending: &[(usize, usize)], fq: &M) -> Result<(M, Result<M, (String, String)>), (String, String)> {
    let e = |c: &str, m: String| (c.to_string(), m);
    if entry == "lax" {
        let lf = with_pending(f, pending);
        let c = guard(|| LaxOptic::map_arrow(spec, lf.clone())).map_err(|p| e("C14.no-panic", format!("map_arrow panicked: {}", p)))?;
        let c = lax_to_model(&c).map_err(|w| e("C14.wf", w))?;
        let a = guard(|| LaxOptic::map_adapted(spec, lf.clone()))
            .map_err(|p| e("C14.adapt-no-panic", format!("map_adapted panicked: {}", p)))
            .and_then(|a| lax_to_model(&a).map_err(|w| e("C14.adapt-wf", w)));
        Ok((c, a))
    } else if spec.iddag {
        let s = spec.clone();
        let o: StrictOptic<LibIdentity, SpecFun, VecKind, u8, u8, u8, u8> = StrictOptic::new(
            open_hypergraphs::strict::functor::identity::Identity,
            SpecFun { spec: spec.clone(), rev: true },
            Box::new(move |ops: &Operations<VecKind, u8, u8>| ics(&ops.x.0 .0.iter().map(|&x| s.res[x as usize].clone()).collect::<Vec<_>>())),
        );
        strict_entry(&o, fq)
    } else {
        strict_entry(&strict_optic(spec), fq)
    }
}

fn strict_entry<F: StrictFunctor<VecKind, u8, u8, u8, u8>>(o: &StrictOptic<F, SpecFun, VecKind, u8, u8, u8, u8>, fq: &M) -> Result<(M, Result<M, (String, String)>), (String, String)> {
    let e = |c: &str, m: String| (c.to_string(), m);
    {
        let sf = fq.to_strict();
        let c = guard(|| o.map_arrow(&sf)).map_err(|p| e("C14.no-panic", format!("map_arrow panicked: {}", p)))?;
        let cm = strict_wf(&c).map_err(|w| e("C14.wf", w))?;
        let (a, b) = (SemifiniteFunction(VecArray(fq.source_type())), SemifiniteFunction(VecArray(fq.target_type())));
        let ad = guard(|| o.adapt(&c, &a, &b))
            .map_err(|p| e("C14.adapt-no-panic", format!("adapt panicked: {}", p)))
            .and_then(|r| strict_wf(&r).map_err(|w| e("C14.adapt-wf", w)));
        Ok((cm, ad))
    }
}

fn pairs_from_json(v: &Value) -> Option<Vec<(usize, usize)>> {
    match v {
        Value::Null => Some(vec![]),
        _ => v.as_array()?.iter().map(|p| Some((p.get(0)?.as_u64()? as usize, p.get(1)?.as_u64()? as usize))).collect(),
    }
}

// ------------------------------------------------------------------------------------------------
// checks
// ------------------------------------------------------------------------------------------------
/// input: {"spec", "f": model, "entry": "strict"|"lax", "pending": [[a,b]..] (lax only, same-label pairs)}
fn chk_optic(ctx: &mut Ctx, input: &Value) {
    const N: &str = "optic";
    if skipped(N) {
        return;
    }
    let (spec, f) = match (Spec::from_json(&input["spec"]), M::from_json(&input["f"])) {
        (Some(s), Some(f)) if s.covers(&f) => (s, f),
        _ => return,
    };
    let entry = input["entry"].as_str().unwrap_or("strict");
    let pending = match pairs_from_json(&input["pending"]) {
        Some(p) if entry == "lax" || p.is_empty() => p,
        _ => return,
    };
    if pending.iter().any(|&(a, b)| a >= f.w.len() || b >= f.w.len() || f.w[a] != f.w[b]) {
        return;
    }
    // the diagram meant by a lax term with pending identifications is its quotient
    let fq = match quotient(&f, &pending) {
        Some((q, _)) => q,
        None => return,
    };
    ctx.case(N, input, !fq.x.is_empty() || (fq.nontrivial() && fq.s != fq.t));
    let exp = oracle(&spec, &fq);
    let (a_ty, b_ty) = (fq.source_type(), fq.target_type());
    let (c, ad) = match lib_optic(&spec, &f, entry, &pending, &fq) {
        Ok(r) => r,
        Err((clause, msg)) => return ctx.fail(N, &clause, input, json!(msg), exp.optic.json()),
    };
    // typing: interleave(F A, R A) → interleave(F B, R B)
    ctx.expect(c.source_type() == spec.inter_ty(&a_ty), N, "C14.type-source", input, json!(c.source_type()), json!(spec.inter_ty(&a_ty)));
    ctx.expect(c.target_type() == spec.inter_ty(&b_ty), N, "C14.type-target", input, json!(c.target_type()), json!(spec.inter_ty(&b_ty)));
    // the image is the definition's gluing (residual routing, wire bending)
    if !is_iso(&c, &exp.optic) {
        ctx.fail(N, "C14.optic-iso", input, c.json(), exp.optic.json());
    }
    let ad = match ad {
        Ok(a) => a,
        Err((clause, msg)) => return ctx.fail(N, &clause, input, json!(msg), exp.adapted.json()),
    };
    let s_ty = [spec.f_ty(&a_ty), spec.r_ty(&b_ty)].concat();
    let t_ty = [spec.f_ty(&b_ty), spec.r_ty(&a_ty)].concat();
    ctx.expect(ad.source_type() == s_ty, N, "C14.adapt-type-source", input, json!(ad.source_type()), json!(s_ty));
    ctx.expect(ad.target_type() == t_ty, N, "C14.adapt-type-target", input, json!(ad.target_type()), json!(t_ty));
    if !is_iso(&ad, &exp.adapted) {
        ctx.fail(N, "C14.adapt-iso", input, ad.json(), exp.adapted.json());
    }
    // "monogamous" is read as the library documents it (monogamous acyclic): a cyclic monogamous f whose
    // generator images contain identity wires has closed loops, i.e. isolated nodes, in ANY conforming image
    // (the definition's gluing included), so the clause is only claimed for acyclic f / generator images.
    if monogamous(&fq) && exp.gens_mono && topo(&fq).is_none() && !monogamous(&ad) {
        // the statement's clause "the adapted form is monogamous whenever f and the generator images are" read
        // literally also covers cyclic monogamous f; there it fails for every conforming image (the gluing by
        // definition included): recorded as a known finding, see known_findings.txt
        ctx.fail(N, "C14.adapt-monogamous-cyclic-f", input, ad.json(), json!("monogamous (f and all generator images are; f is cyclic)"));
    }
    if monogamous(&fq) && topo(&fq).is_some() && exp.gens_mono {
        if !monogamous(&ad) {
            ctx.fail(N, "C14.adapt-monogamous", input, ad.json(), json!("monogamous (f and all generator images are)"));
        }
        let lib_says = guard(|| ad.to_strict().is_monogamous());
        if lib_says != Ok(true) {
            ctx.fail(N, "C14.adapt-monogamous-lib", input, json!(format!("{:?}", lib_says)), json!(true));
        }
    }
}

/// input: {"spec", "a": [labels]}  — the optic's action on objects is a ↦ F(a) ● R(a), one segment per object
fn chk_map_object(ctx: &mut Ctx, input: &Value) {
    const N: &str = "map_object";
    if skipped(N) {
        return;
    }
    let (spec, a) = match (Spec::from_json(&input["spec"]), u8s(&input["a"])) {
        (Some(s), Some(a)) if a.iter().all(|&l| (l as usize) < s.fobj.len()) => (s, a),
        _ => return,
    };
    ctx.case(N, input, !a.is_empty());
    let o = strict_optic(&spec);
    let expected: Vec<Vec<u8>> = a.iter().map(|&l| [spec.fobj[l as usize].clone(), spec.robj[l as usize].clone()].concat()).collect();
    match guard(|| o.map_object(&SemifiniteFunction(VecArray(a.clone())))) {
        Err(p) => ctx.fail(N, "C14.no-panic", input, json!(p), json!(expected)),
        Ok(r) => {
            let sum: usize = r.sources.table.0.iter().sum();
            if r.sources.target != sum + 1 || sum != r.values.0 .0.len() {
                return ctx.fail(N, "C14.map-object-wf", input, json!(format!("{:?}", r)), json!(expected));
            }
            let got = split_u8(&r);
            ctx.expect(got == expected, N, "C14.map-object", input, json!(got), json!(expected));
        }
    }
}

/// input: {"spec", "ops": [[x, [A..], [B..]], ..]} — Optic::map_operations on a tensoring of operations
fn chk_map_operations(ctx: &mut Ctx, input: &Value) {
    const N: &str = "map_operations";
    if skipped(N) {
        return;
    }
    let spec = match Spec::from_json(&input["spec"]) {
        Some(s) => s,
        None => return,
    };
    let mut ops: Vec<(u8, Vec<u8>, Vec<u8>)> = vec![];
    for o in input["ops"].as_array().cloned().unwrap_or_default() {
        match (o.get(0).and_then(|v| v.as_u64()), o.get(1).and_then(u8s), o.get(2).and_then(u8s)) {
            (Some(x), Some(a), Some(b)) if x < 256 => ops.push((x as u8, a, b)),
            _ => return,
        }
    }
    let mut f = M::empty();
    for (x, a, b) in &ops {
        f = tensor(&f, &singleton(*x, a, b));
    }
    if !spec.covers(&f) {
        return;
    }
    ctx.case(N, input, !ops.is_empty());
    let exp = oracle(&spec, &f);
    let lib_ops = Operations::new(
        SemifiniteFunction(VecArray(ops.iter().map(|o| o.0).collect::<Vec<u8>>())),
        ics(&ops.iter().map(|o| o.1.clone()).collect::<Vec<_>>()),
        ics(&ops.iter().map(|o| o.2.clone()).collect::<Vec<_>>()),
    )
    .unwrap();
    let o = strict_optic(&spec);
    match guard(|| o.map_operations(lib_ops)) {
        Err(p) => ctx.fail(N, "C14.no-panic", input, json!(p), exp.optic.json()),
        Ok(r) => match strict_wf(&r) {
            Err(w) => ctx.fail(N, "C14.wf", input, json!(w), exp.optic.json()),
            Ok(m) => {
                ctx.expect(m.source_type() == spec.inter_ty(&f.source_type()), N, "C14.type-source", input, json!(m.source_type()), json!(spec.inter_ty(&f.source_type())));
                ctx.expect(m.target_type() == spec.inter_ty(&f.target_type()), N, "C14.type-target", input, json!(m.target_type()), json!(spec.inter_ty(&f.target_type())));
                if !is_iso(&m, &exp.optic) {
                    ctx.fail(N, "C14.operations-iso", input, m.json(), exp.optic.json());
                }
            }
        },
    }
}

/// input: {"spec", "op": "compose"|"tensor"|"identity", "f", "g", "entry"}
fn chk_functor(ctx: &mut Ctx, input: &Value) {
    const N: &str = "functor";
    if skipped(N) {
        return;
    }
    let spec = match Spec::from_json(&input["spec"]) {
        Some(s) => s,
        None => return,
    };
    let entry = input["entry"].as_str().unwrap_or("strict");
    let op = input["op"].as_str().unwrap_or("");
    let f = match M::from_json(&input["f"]) {
        Some(f) if spec.covers(&f) => f,
        _ => return,
    };
    let image = |m: &M| -> Result<M, (String, String)> { lib_optic(&spec, m, entry, &[], m).map(|r| r.0) };
    if op == "identity" {
        // only the type of f matters
        let a = f.source_type();
        ctx.case(N, input, !a.is_empty());
        let expected = identity(&spec.inter_ty(&a));
        match image(&identity(&a)) {
            Err((c, m)) => ctx.fail(N, &c, input, json!(m), expected.json()),
            Ok(r) => {
                if !is_iso(&r, &expected) {
                    ctx.fail(N, "C14.preserves-identity", input, r.json(), expected.json());
                }
            }
        }
        return;
    }
    let g = match M::from_json(&input["g"]) {
        Some(g) if spec.covers(&g) => g,
        _ => return,
    };
    let (h, clause) = match op {
        "compose" => match compose(&f, &g) {
            Some(h) => (h, "C14.preserves-composition"),
            None => return,
        },
        "tensor" => (tensor(&f, &g), "C14.preserves-tensor"),
        _ => return,
    };
    ctx.case(N, input, !f.x.is_empty() && !g.x.is_empty());
    let (of, og, oh) = match (image(&f), image(&g), image(&h)) {
        (Ok(a), Ok(b), Ok(c)) => (a, b, c),
        (a, b, c) => {
            for r in [a, b, c] {
                if let Err((cl, m)) = r {
                    ctx.fail(N, &cl, input, json!(m), json!("an image"));
                }
            }
            return;
        }
    };
    let expected = if op == "compose" { compose(&of, &og) } else { Some(tensor(&of, &og)) };
    match expected {
        None => ctx.fail(N, "C14.images-composable", input, json!({"target": of.target_type(), "source": og.source_type()}), json!("equal types")),
        Some(e) => {
            if !is_iso(&oh, &e) {
                ctx.fail(N, clause, input, oh.json(), e.json());
            }
        }
    }
}

/// is `f` a monogamous acyclic circuit of the polynomial theory?
fn is_circuit(f: &M) -> bool {
    Spec::poly().covers(f) && monogamous(f) && topo(f).is_some()
}

/// evaluate the adapted optic of `f` on `inp` with the library evaluator (and the plain interpreter);
/// reports failures, returns the library evaluator's outputs
fn eval_adapted(ctx: &mut Ctx, name: &str, input: &Value, f: &M, entry: &str, inp: &[u64], expected: &[u64]) -> Option<Vec<u64>> {
    let spec = Spec::poly();
    let ad = match lib_optic(&spec, f, entry, &[], f) {
        Err((c, m)) => {
            ctx.fail(name, &c, input, json!(m), json!(expected));
            return None;
        }
        Ok((_, Err((c, m)))) => {
            ctx.fail(name, &c, input, json!(m), json!(expected));
            return None;
        }
        Ok((_, Ok(ad))) => ad,
    };
    let (na, nb) = (f.s.len(), f.t.len());
    if !ctx.expect(ad.s.len() == na + nb && ad.t.len() == nb + na, name, "C14.deriv-type", input, json!([ad.s.len(), ad.t.len()]), json!([na + nb, nb + na])) {
        return None;
    }
    if !ctx.expect(monogamous(&ad) && topo(&ad).is_some(), name, "C14.deriv-monogamous-acyclic", input, ad.json(), json!("monogamous acyclic")) {
        return None;
    }
    // plain interpreter on the library's diagram: is the diagram itself right?
    let plain = run_circuit(&ad, inp).map(|r| r.1);
    ctx.expect(plain.as_deref() == Some(expected), name, "C14.deriv-value", input, json!(plain), json!(expected));
    // the library evaluator
    let sad = ad.to_strict();
    let inputs = VecArray(inp.to_vec());
    match guard(|| open_hypergraphs::strict::eval::eval::<VecKind, u8, u8, u64>(&sad, inputs, poly_apply_lib)) {
        Err(p) => {
            ctx.fail(name, "C14.deriv-evaluable", input, json!(format!("panic: {}", p)), json!(expected));
            None
        }
        Ok(None) => {
            ctx.fail(name, "C14.deriv-evaluable", input, json!("eval returned None"), json!(expected));
            None
        }
        Ok(Some(out)) => {
            ctx.expect(out.0 == expected, name, "C14.deriv-eval-value", input, json!(out.0), json!(expected));
            Some(out.0)
        }
    }
}

/// input: {"f": circuit, "x": [u64], "dy": [u64], "entry"}
fn chk_deriv(ctx: &mut Ctx, input: &Value) {
    const N: &str = "deriv";
    if skipped(N) {
        return;
    }
    let (f, x, dy) = match (M::from_json(&input["f"]), u64s(&input["x"]), u64s(&input["dy"])) {
        (Some(f), Some(x), Some(dy)) if is_circuit(&f) && x.len() == f.s.len() && dy.len() == f.t.len() => (f, x, dy),
        _ => return,
    };
    let entry = input["entry"].as_str().unwrap_or("strict");
    ctx.case(N, input, !f.x.is_empty());
    let (y, dx) = match reverse_mode(&f, &x, &dy) {
        Some(r) => r,
        None => return ctx.fail(N, "C14.oracle-selfcheck", input, json!("reverse-mode interpreter failed on a circuit"), json!("a value")),
    };
    let fm = forward_mode(&f, &x, &dy);
    if fm.as_ref() != Some(&dx) {
        return ctx.fail(N, "C14.oracle-selfcheck", input, json!({"reverse": dx, "forward": fm}), json!("equal"));
    }
    let expected = [y, dx].concat();
    let inp = [x, dy].concat();
    eval_adapted(ctx, N, input, &f, entry, &inp, &expected);
}

/// input: {"f": circuit A→B, "g": circuit B→C, "x", "dz", "entry"} — chain rule by optic composition:
/// D[f;g](x,dz) = let y=f(x); (z,dy)=D[g](y,dz); (_,dx)=D[f](x,dy) in (z,dx)
fn chk_chain(ctx: &mut Ctx, input: &Value) {
    const N: &str = "chain";
    if skipped(N) {
        return;
    }
    let (f, g, x, dz) = match (M::from_json(&input["f"]), M::from_json(&input["g"]), u64s(&input["x"]), u64s(&input["dz"])) {
        (Some(f), Some(g), Some(x), Some(dz)) if is_circuit(&f) && is_circuit(&g) && f.t.len() == g.s.len() && x.len() == f.s.len() && dz.len() == g.t.len() => (f, g, x, dz),
        _ => return,
    };
    let h = match compose(&f, &g) {
        Some(h) if is_circuit(&h) => h,
        _ => return,
    };
    let entry = input["entry"].as_str().unwrap_or("strict");
    ctx.case(N, input, !f.x.is_empty() && !g.x.is_empty());
    // expected values from the oracle
    let (y, _) = reverse_mode(&f, &x, &vec![0; f.t.len()]).unwrap();
    let (z, dy) = reverse_mode(&g, &y, &dz).unwrap();
    let (_, dx) = reverse_mode(&f, &x, &dy).unwrap();
    let (z2, dx2) = reverse_mode(&h, &x, &dz).unwrap();
    if z != z2 || dx != dx2 {
        return ctx.fail(N, "C14.oracle-selfcheck", input, json!({"composite": [z2, dx2], "chained": [z, dx]}), json!("equal"));
    }
    // the library: optic of the composite ...
    let whole = eval_adapted(ctx, N, input, &h, entry, &[x.clone(), dz.clone()].concat(), &[z.clone(), dx.clone()].concat());
    // ... against chaining the library's optics of the parts
    let rg = eval_adapted(ctx, N, input, &g, entry, &[y.clone(), dz].concat(), &[z, dy.clone()].concat());
    let rf = eval_adapted(ctx, N, input, &f, entry, &[x, dy].concat(), &[y, dx].concat());
    if let (Some(w), Some(rg), Some(rf)) = (whole, rg, rf) {
        let chained = [rg[..g.t.len()].to_vec(), rf[f.t.len()..].to_vec()].concat();
        ctx.expect(w == chained, N, "C14.chain-rule", input, json!(w), json!(chained));
    }
}

// ------------------------------------------------------------------------------------------------
// generators
// ------------------------------------------------------------------------------------------------
const NL: usize = 3; // source object labels 0..NL
const NX: usize = 4; // source operation labels 0..NX

fn shuffle<T>(r: &mut Rng, v: &mut Vec<T>) {
    for i in (1..v.len()).rev() {
        let j = r.below(i + 1);
        v.swap(i, j);
    }
}

/// renumber nodes and reorder edges at random (same diagram up to isomorphism, boundary order kept)
fn permute(r: &mut Rng, m: &M) -> M {
    let n = m.w.len();
    let mut p: Vec<usize> = (0..n).collect();
    shuffle(r, &mut p);
    let mut w = vec![0u8; n];
    for i in 0..n {
        w[p[i]] = m.w[i];
    }
    let mp = |l: &Vec<usize>| l.iter().map(|&v| p[v]).collect::<Vec<_>>();
    let mut eo: Vec<usize> = (0..m.x.len()).collect();
    shuffle(r, &mut eo);
    M { w, x: eo.iter().map(|&e| m.x[e]).collect(), src: eo.iter().map(|&e| mp(&m.src[e])).collect(), tgt: eo.iter().map(|&e| mp(&m.tgt[e])).collect(), s: mp(&m.s), t: mp(&m.t) }
}

fn relabel(r: &mut Rng, mut m: M) -> M {
    for x in m.x.iter_mut() {
        *x = r.below(NX) as u8;
    }
    m
}

fn rand_diagram(r: &mut Rng, b: Bounds) -> M {
    let b = Bounds { labels: NL, ..b };
    let m = random_model(r, b);
    relabel(r, m)
}

fn rand_diagram_from(r: &mut Rng, b: Bounds, ty: &[u8]) -> M {
    let b = Bounds { labels: NL, ..b };
    let m = random_model_with_source(r, b, ty);
    relabel(r, m)
}

/// random monogamous acyclic diagram with arbitrary typed operations
fn rand_monogamous(r: &mut Rng, max_in: usize, max_ops: usize, max_arity: usize) -> M {
    let mut m = M::empty();
    let mut open: Vec<usize> = vec![];
    for _ in 0..r.range(0, max_in) {
        m.w.push(r.below(NL) as u8);
        open.push(m.w.len() - 1);
    }
    m.s = open.clone();
    for _ in 0..r.range(0, max_ops) {
        let a = r.range(0, max_arity.min(open.len()));
        let c = r.range(0, max_arity);
        let mut src = vec![];
        for _ in 0..a {
            let i = r.below(open.len());
            src.push(open.swap_remove(i));
        }
        let mut tgt = vec![];
        for _ in 0..c {
            m.w.push(r.below(NL) as u8);
            tgt.push(m.w.len() - 1);
            open.push(m.w.len() - 1);
        }
        m.x.push(r.below(NX) as u8);
        m.src.push(src);
        m.tgt.push(tgt);
    }
    shuffle(r, &mut open);
    m.t = open;
    permute(r, &m)
}

fn rand_list(r: &mut Rng, max_len: usize, labels: usize) -> Vec<u8> {
    let n = r.range(0, max_len);
    (0..n).map(|_| r.below(labels) as u8).collect()
}

fn rand_spec(r: &mut Rng) -> Spec {
    // label pools: shared between F and R (type-correct mis-wirings possible) or disjoint
    let shared = r.chance(1, 2);
    let style = r.below(4);
    let fobj: Vec<Vec<u8>> = (0..NL)
        .map(|_| match style {
            0 => vec![r.below(3) as u8],
            _ => rand_list(r, 2, 3),
        })
        .collect();
    let robj: Vec<Vec<u8>> = (0..NL)
        .map(|_| {
            let l = match style {
                0 => vec![r.below(3) as u8],
                _ => rand_list(r, 2, 3),
            };
            if shared {
                l
            } else {
                l.iter().map(|&x| x + 3).collect()
            }
        })
        .collect();
    let res_style = r.below(3);
    let res: Vec<Vec<u8>> = (0..NX)
        .map(|_| match res_style {
            0 => vec![],
            _ => rand_list(r, 2, 3).iter().map(|&x| if shared { x } else { x + 6 }).collect(),
        })
        .collect();
    let mono_only = r.chance(1, 2);
    let mode = |r: &mut Rng| -> u8 {
        if mono_only {
            [0u8, 1, 3, 4][r.below(4)]
        } else {
            r.below(N_MODES) as u8
        }
    };
    let fmode = (0..NX).map(|_| mode(r)).collect();
    let rmode = (0..NX).map(|_| mode(r)).collect();
    Spec { poly: false, iddag: false, fobj, robj, res, fmode, rmode }
}

fn corner_specs() -> Vec<Spec> {
    let g = |fobj: Vec<Vec<u8>>, robj: Vec<Vec<u8>>, res: Vec<Vec<u8>>, fmode: Vec<u8>, rmode: Vec<u8>| Spec { poly: false, iddag: false, fobj, robj, res, fmode, rmode };
    vec![
        Spec::iddag(),
        // the configuration of the existing tests: identity-like forward, dagger-like reverse, empty residual
        g(vec![vec![0], vec![1], vec![2]], vec![vec![0], vec![1], vec![2]], vec![vec![]; 4], vec![0; 4], vec![0; 4]),
        // same labels everywhere, residuals empty / single / multiple
        g(vec![vec![0], vec![0], vec![0]], vec![vec![0], vec![0], vec![0]], vec![vec![], vec![0], vec![0, 0], vec![0, 0]], vec![0, 0, 0, 1], vec![0, 0, 0, 3]),
        // object images of length 0 / 1 / 2 mixed, different for F and R, residuals with distinct labels
        g(vec![vec![], vec![1], vec![1, 2]], vec![vec![4, 5], vec![], vec![3]], vec![vec![], vec![6], vec![6, 7], vec![7, 6]], vec![0, 1, 3, 4], vec![4, 3, 1, 0]),
        // forward images all empty
        g(vec![vec![], vec![], vec![]], vec![vec![1], vec![2, 1], vec![]], vec![vec![0], vec![], vec![0, 1], vec![]], vec![0, 0, 4, 2], vec![0, 4, 0, 5]),
        // everything empty: the optic of anything has no wires
        g(vec![vec![]; 3], vec![vec![]; 3], vec![vec![]; 4], vec![0, 2, 3, 4], vec![0, 2, 3, 4]),
        // length-2 images with repeated labels, operation-free / non-monogamous generator images
        g(vec![vec![0, 0], vec![0, 1], vec![1, 1]], vec![vec![0, 0], vec![1, 0], vec![0]], vec![vec![0], vec![0, 1], vec![], vec![1, 1]], vec![2, 5, 4, 0], vec![5, 2, 0, 4]),
    ]
}

// ---- polynomial circuits ---------------------------------------------------------------------------
fn rand_val(r: &mut Rng) -> u64 {
    const C: [u64; 8] = [0, 1, 2, 3, u64::MAX, 1 << 63, 1 << 32, 0xFFFF_FFFF];
    if r.chance(1, 2) {
        C[r.below(C.len())]
    } else {
        r.next()
    }
}

fn rand_vals(r: &mut Rng, n: usize) -> Vec<u64> {
    (0..n).map(|_| rand_val(r)).collect()
}

/// add one operation consuming the given open wires (by position in `open`)
fn push_op(m: &mut M, open: &mut Vec<usize>, op: u8, picks: &[usize]) {
    let (_, c) = poly_type(op).unwrap();
    let src: Vec<usize> = picks.iter().map(|&i| open[i]).collect();
    let mut sorted = picks.to_vec();
    sorted.sort();
    for &i in sorted.iter().rev() {
        open.remove(i);
    }
    let mut tgt = vec![];
    for _ in 0..c {
        m.w.push(0);
        tgt.push(m.w.len() - 1);
        open.push(m.w.len() - 1);
    }
    m.x.push(op);
    m.src.push(src);
    m.tgt.push(tgt);
}

fn rand_poly_op(r: &mut Rng, open: usize) -> u8 {
    loop {
        let op = match r.below(12) {
            0 | 1 => ADD,
            2 | 3 | 4 => MUL,
            5 => NEG,
            6 | 7 | 8 => COPY,
            9 => DISCARD,
            _ => CONST0 + r.below(CONSTS.len()) as u8,
        };
        if poly_type(op).unwrap().0 <= open {
            return op;
        }
    }
}

/// random monogamous acyclic circuit: any wiring (random choice of wires), any edge order, any numbering
fn rand_circuit(r: &mut Rng, max_in: usize, max_ops: usize, fixed_in: Option<usize>) -> M {
    let n_in = fixed_in.unwrap_or_else(|| r.range(0, max_in));
    let mut m = M::empty();
    m.w = vec![0; n_in];
    let mut open: Vec<usize> = (0..n_in).collect();
    m.s = open.clone();
    for _ in 0..r.range(0, max_ops) {
        let op = rand_poly_op(r, open.len());
        let a = poly_type(op).unwrap().0;
        let mut idx: Vec<usize> = (0..open.len()).collect();
        shuffle(r, &mut idx);
        idx.truncate(a);
        push_op(&mut m, &mut open, op, &idx);
    }
    // sometimes discard left-over wires
    if r.chance(1, 3) {
        let mut i = 0;
        while i < open.len() {
            if r.chance(1, 2) {
                push_op(&mut m, &mut open, DISCARD, &[i]);
            } else {
                i += 1;
            }
        }
    }
    shuffle(r, &mut open);
    m.t = open;
    permute(r, &m)
}

/// a circuit whose operations are all the same binary operation (every operation then carries the same
/// residual, so residuals of different operations are interchangeable as far as types go)
fn rand_uniform_circuit(r: &mut Rng, op: u8, max_in: usize) -> M {
    let n_in = r.range(2, max_in);
    let mut m = M::empty();
    m.w = vec![0; n_in];
    let mut open: Vec<usize> = (0..n_in).collect();
    m.s = open.clone();
    while open.len() >= 2 && !r.chance(1, 4) {
        let mut idx: Vec<usize> = (0..open.len()).collect();
        shuffle(r, &mut idx);
        idx.truncate(2);
        push_op(&mut m, &mut open, op, &idx);
    }
    shuffle(r, &mut open);
    m.t = open;
    permute(r, &m)
}

/// a circuit with exactly `n_in` inputs: extra inputs are discarded, missing ones come from constants
fn rand_circuit_from(r: &mut Rng, n_in: usize, max_ops: usize) -> M {
    rand_circuit(r, n_in, max_ops, Some(n_in))
}

/// all circuits built by at most `depth` operations from `ops` on `n_in` inputs, every ordered choice of
/// distinct open wires, outputs in every order (identity and reversal only when more than 3)
fn enum_circuits(n_in: usize, depth: usize, ops: &[u8], all_perms: bool) -> Vec<M> {
    fn perms(v: &[usize]) -> Vec<Vec<usize>> {
        if v.len() <= 1 {
            return vec![v.to_vec()];
        }
        let mut out = vec![];
        for i in 0..v.len() {
            let mut rest = v.to_vec();
            let x = rest.remove(i);
            for mut p in perms(&rest) {
                p.insert(0, x);
                out.push(p);
            }
        }
        out
    }
    fn tuples(n: usize, k: usize) -> Vec<Vec<usize>> {
        if k == 0 {
            return vec![vec![]];
        }
        let mut out = vec![];
        for t in tuples(n, k - 1) {
            for i in 0..n {
                if !t.contains(&i) {
                    let mut u = t.clone();
                    u.push(i);
                    out.push(u);
                }
            }
        }
        out
    }
    fn rec(m: &M, open: &Vec<usize>, depth: usize, ops: &[u8], all_perms: bool, out: &mut Vec<M>) {
        let outs = if all_perms && open.len() <= 3 { perms(open) } else { vec![open.clone(), open.iter().rev().cloned().collect()] };
        let mut seen: Vec<Vec<usize>> = vec![];
        for t in outs {
            if !seen.contains(&t) {
                seen.push(t.clone());
                let mut c = m.clone();
                c.t = t;
                out.push(c);
            }
        }
        if depth == 0 {
            return;
        }
        for &op in ops {
            let a = poly_type(op).unwrap().0;
            if a > open.len() {
                continue;
            }
            for picks in tuples(open.len(), a) {
                let mut c = m.clone();
                let mut o = open.clone();
                push_op(&mut c, &mut o, op, &picks);
                rec(&c, &o, depth - 1, ops, all_perms, out);
            }
        }
    }
    let mut m = M::empty();
    m.w = vec![0; n_in];
    m.s = (0..n_in).collect();
    let mut out = vec![];
    rec(&m, &m.s.clone(), depth, ops, all_perms, &mut out);
    out
}

/// reverse the listing order of the operations (so they are listed against the data flow)
fn reverse_edges(m: &M) -> M {
    let mut c = m.clone();
    c.x.reverse();
    c.src.reverse();
    c.tgt.reverse();
    c
}

fn corner_circuits() -> Vec<M> {
    let mut out = vec![];
    out.push(M::empty());
    out.push(identity(&[0]));
    out.push(identity(&[0, 0, 0]));
    out.push(twist(&[0], &[0, 0]));
    for op in [ADD, MUL, NEG, COPY, DISCARD, CONST0, CONST0 + 1, CONST0 + 4, CONST0 + 7] {
        let (a, b) = poly_type(op).unwrap();
        out.push(singleton(op, &vec![0; a], &vec![0; b]));
    }
    // x ↦ x² (copy ; mul), and with the copy outputs crossed
    let sq = M { w: vec![0; 4], x: vec![COPY, MUL], src: vec![vec![0], vec![1, 2]], tgt: vec![vec![1, 2], vec![3]], s: vec![0], t: vec![3] };
    out.push(sq.clone());
    out.push(reverse_edges(&sq));
    out.push(M { src: vec![vec![0], vec![2, 1]], ..sq.clone() });
    // x ↦ x^(2^k) by repeated squaring: a long chain (deep chain rule); edges listed backwards too
    for k in [3usize, 16, 40] {
        let mut m = M::empty();
        m.w = vec![0];
        m.s = vec![0];
        let mut open = vec![0usize];
        for _ in 0..k {
            push_op(&mut m, &mut open, COPY, &[0]);
            push_op(&mut m, &mut open, MUL, &[0, 1]);
        }
        m.t = open;
        out.push(reverse_edges(&m));
        out.push(m);
    }
    // (x, y) ↦ (x·y + x, −y·3) with shared inputs through copies; subtraction-like use of neg
    {
        let mut m = M::empty();
        m.w = vec![0, 0];
        m.s = vec![0, 1];
        let mut open = vec![0usize, 1];
        push_op(&mut m, &mut open, COPY, &[0]); // open: y x1 x2
        push_op(&mut m, &mut open, COPY, &[0]); // open: x1 x2 y1 y2
        push_op(&mut m, &mut open, MUL, &[0, 2]); // open: x2 y2 xy
        push_op(&mut m, &mut open, ADD, &[2, 0]); // open: y2 (xy+x)
        push_op(&mut m, &mut open, CONST0 + 3, &[]); // open: y2 s 3
        push_op(&mut m, &mut open, MUL, &[0, 2]); // open: s 3y
        push_op(&mut m, &mut open, NEG, &[1]); // open: s -3y
        m.t = open;
        out.push(m.clone());
        out.push(reverse_edges(&m));
    }
    // wide: 20 parallel multiplications, inputs interleaved the "wrong" way round
    {
        let k = 20;
        let mut m = M::empty();
        m.w = vec![0; 3 * k];
        m.s = (0..2 * k).collect();
        for i in 0..k {
            m.x.push(if i % 2 == 0 { MUL } else { ADD });
            m.src.push(vec![i, 2 * k - 1 - i]);
            m.tgt.push(vec![2 * k + i]);
        }
        m.t = (2 * k..3 * k).rev().collect();
        out.push(m);
    }
    // multiplications only: two crossed in parallel; a tree; eight in parallel
    out.push(M { w: vec![0; 6], x: vec![MUL, MUL], src: vec![vec![0, 2], vec![3, 1]], tgt: vec![vec![5], vec![4]], s: vec![0, 1, 2, 3], t: vec![4, 5] });
    out.push(M { w: vec![0; 7], x: vec![MUL, MUL, MUL], src: vec![vec![5, 4], vec![0, 3], vec![2, 1]], tgt: vec![vec![6], vec![4], vec![5]], s: vec![0, 1, 2, 3], t: vec![6] });
    out.push(M { w: vec![0; 24], x: vec![MUL; 8], src: (0..8).map(|i| vec![i, 15 - i]).collect(), tgt: (0..8).map(|i| vec![16 + (i * 3) % 8]).collect(), s: (0..16).collect(), t: (16..24).collect() });
    // copy tree then sum tree: x ↦ 8x
    {
        let mut m = M::empty();
        m.w = vec![0];
        m.s = vec![0];
        let mut open = vec![0usize];
        for _ in 0..7 {
            push_op(&mut m, &mut open, COPY, &[0]);
        }
        while open.len() > 1 {
            push_op(&mut m, &mut open, ADD, &[0, 1]);
        }
        m.t = open;
        out.push(m);
    }
    // an input discarded, an output that is a constant, a wire passing straight through
    out.push(M { w: vec![0; 3], x: vec![DISCARD, CONST0 + 2], src: vec![vec![0], vec![]], tgt: vec![vec![], vec![2]], s: vec![0, 1], t: vec![2, 1] });
    out
}

// ------------------------------------------------------------------------------------------------
pub fn run(ctx: &mut Ctx) {
    if let Some((name, input)) = ctx.replay.clone() {
        for (n, c) in CHECKS {
            if *n == name {
                c(ctx, &input);
            }
        }
        return;
    }
    let thorough = ctx.thorough();
    let entries = ["strict", "lax"];
    let specs = corner_specs();
    let poly = Spec::poly();

    // ---- (a) corner diagrams x corner specs x both entries -----------------------------------------
    let mut corners = corner_models();
    for m in corners.iter_mut() {
        for (i, x) in m.x.iter_mut().enumerate() {
            *x = ((*x as usize + i) % NX) as u8;
        }
    }
    // operation-free diagrams with non-identity wiring, isolated nodes, multiplicities
    corners.push(M { w: vec![0, 1, 2, 1], x: vec![], src: vec![], tgt: vec![], s: vec![2, 0, 0, 1], t: vec![1, 1, 2] });
    corners.push(twist(&[0, 2], &[1]));
    // parallel operations with multiplicity larger than the number of nodes
    corners.push(M { w: vec![1, 2], x: vec![0, 1, 0, 1, 2, 3], src: vec![vec![0], vec![0], vec![0, 0], vec![1], vec![], vec![1, 0]], tgt: vec![vec![1], vec![1], vec![1], vec![0, 0], vec![0], vec![]], s: vec![0], t: vec![1] });
    // all four operation labels once, mixed arities, monogamous
    corners.push(M { w: vec![0, 1, 2, 0, 1, 2, 0], x: vec![3, 2, 1, 0], src: vec![vec![5, 4], vec![2, 3], vec![1], vec![0]], tgt: vec![vec![6], vec![4, 5], vec![3], vec![1, 2]], s: vec![0], t: vec![6] });
    for spec in &specs {
        for f in &corners {
            for e in entries {
                chk_optic(ctx, &json!({"spec": spec.json(), "f": f.json(), "entry": e}));
            }
        }
        for a in [vec![], vec![0], vec![1], vec![2], vec![0, 1, 2], vec![2, 2, 0, 1, 0]] {
            chk_map_object(ctx, &json!({"spec": spec.json(), "a": a}));
            for e in entries {
                chk_functor(ctx, &json!({"spec": spec.json(), "op": "identity", "f": identity(&a).json(), "entry": e}));
            }
        }
        chk_map_operations(ctx, &json!({"spec": spec.json(), "ops": []}));
        chk_map_operations(ctx, &json!({"spec": spec.json(), "ops": [[0, [], []]]}));
        chk_map_operations(ctx, &json!({"spec": spec.json(), "ops": [[1, [0, 1], [2]], [2, [], [1, 1]], [3, [2, 2, 0], []], [1, [1], [0]], [0, [0], [0]]]}));
    }
    chk_map_object(ctx, &json!({"spec": poly.json(), "a": [0, 0, 0]}));
    // pending identifications on the lax entry
    for spec in &specs {
        let f = M { w: vec![0, 0, 1, 1, 0], x: vec![1, 2], src: vec![vec![0, 2], vec![3]], tgt: vec![vec![3], vec![4, 1]], s: vec![0, 1, 2], t: vec![4, 3] };
        for pend in [vec![[0, 1]], vec![[2, 3]], vec![[0, 1], [1, 4], [3, 2]], vec![[4, 4]]] {
            chk_optic(ctx, &json!({"spec": spec.json(), "f": f.json(), "entry": "lax", "pending": pend}));
        }
    }

    // ---- (b) exhaustive tiny diagrams ---------------------------------------------------------------
    // nodes ≤ 2 (labels 1.. by position), at most one operation with source/target lists of length ≤ 2,
    // interfaces of length ≤ 2 (≤ 1 quick); corner specs 2,3 (all corner specs thorough)
    {
        let lists = |n: usize, maxlen: usize| -> Vec<Vec<usize>> {
            let mut out = vec![vec![]];
            if maxlen >= 1 {
                for a in 0..n {
                    out.push(vec![a]);
                }
            }
            if maxlen >= 2 {
                for a in 0..n {
                    for b in 0..n {
                        out.push(vec![a, b]);
                    }
                }
            }
            out
        };
        let (el, il) = if thorough { (2, 2) } else { (2, 1) };
        let spec_ids: Vec<usize> = if thorough { (0..specs.len()).collect() } else { vec![2, 3] };
        let mut count = 0usize;
        for n in 0..=2usize {
            let w: Vec<u8> = (0..n).map(|i| (i + 1) as u8).collect();
            for with_edge in [false, true] {
                let srcs = if with_edge { lists(n, el) } else { vec![vec![]] };
                let tgts = if with_edge { lists(n, el) } else { vec![vec![]] };
                for es in &srcs {
                    for et in &tgts {
                        for s in lists(n, il) {
                            for t in lists(n, il) {
                                let f = if with_edge { M { w: w.clone(), x: vec![(es.len() + 2 * et.len()) as u8 % NX as u8], src: vec![es.clone()], tgt: vec![et.clone()], s: s.clone(), t: t.clone() } } else { M { w: w.clone(), x: vec![], src: vec![], tgt: vec![], s: s.clone(), t: t.clone() } };
                                for &si in &spec_ids {
                                    count += 1;
                                    chk_optic(ctx, &json!({"spec": specs[si].json(), "f": f.json(), "entry": entries[count % 2]}));
                                }
                            }
                        }
                    }
                }
            }
        }
    }

    // ---- (c) random diagrams and specs -----------------------------------------------------------------
    let n = ctx.budget(5000, 160000);
    for i in 0..n {
        let spec = if i % 5 == 0 { specs[ctx.rng.below(specs.len())].clone() } else { rand_spec(&mut ctx.rng) };
        let b = if i % 4 == 0 { MEDIUM } else { SMALL };
        let f = match i % 3 {
            0 => rand_monogamous(&mut ctx.rng, 3, 4, 3),
            _ => rand_diagram(&mut ctx.rng, b),
        };
        let entry = entries[ctx.rng.below(2)];
        let mut pending: Vec<[usize; 2]> = vec![];
        if entry == "lax" && !f.w.is_empty() && ctx.rng.chance(1, 4) {
            for _ in 0..ctx.rng.range(1, 3) {
                let a = ctx.rng.below(f.w.len());
                let cands: Vec<usize> = (0..f.w.len()).filter(|&v| f.w[v] == f.w[a]).collect();
                pending.push([a, cands[ctx.rng.below(cands.len())]]);
            }
        }
        chk_optic(ctx, &json!({"spec": spec.json(), "f": f.json(), "entry": entry, "pending": pending}));
    }
    let n = ctx.budget(1200, 40000);
    for i in 0..n {
        let spec = if i % 5 == 0 { specs[ctx.rng.below(specs.len())].clone() } else { rand_spec(&mut ctx.rng) };
        let b = if i % 4 == 0 { MEDIUM } else { SMALL };
        let f = if i % 3 == 0 { rand_monogamous(&mut ctx.rng, 3, 3, 2) } else { rand_diagram(&mut ctx.rng, b) };
        let entry = entries[ctx.rng.below(2)];
        if i % 2 == 0 {
            let g = rand_diagram_from(&mut ctx.rng, b, &f.target_type());
            chk_functor(ctx, &json!({"spec": spec.json(), "op": "compose", "f": f.json(), "g": g.json(), "entry": entry}));
        } else {
            let g = rand_diagram(&mut ctx.rng, b);
            chk_functor(ctx, &json!({"spec": spec.json(), "op": "tensor", "f": f.json(), "g": g.json(), "entry": entry}));
        }
    }
    let n = ctx.budget(600, 20000);
    for _ in 0..n {
        let spec = rand_spec(&mut ctx.rng);
        let k = ctx.rng.range(0, 4);
        let ops: Vec<Value> = (0..k).map(|_| json!([ctx.rng.below(NX), rand_list(&mut ctx.rng, 3, NL), rand_list(&mut ctx.rng, 3, NL)])).collect();
        chk_map_operations(ctx, &json!({"spec": spec.json(), "ops": ops}));
        let a = rand_list(&mut ctx.rng, 5, NL);
        chk_map_object(ctx, &json!({"spec": spec.json(), "a": a}));
    }

    // ---- (d) derivative clause --------------------------------------------------------------------------
    let circ_corners = corner_circuits();
    for f in &circ_corners {
        for e in entries {
            // the lens optic's image is also compared with the definition's gluing
            if f.x.len() <= 12 {
                chk_optic(ctx, &json!({"spec": poly.json(), "f": f.json(), "entry": e}));
            }
            for k in 0..3 {
                let (x, dy) = match k {
                    0 => (vec![3u64; f.s.len()], vec![1u64; f.t.len()]),
                    1 => ((0..f.s.len()).map(|i| (i as u64 + 2).wrapping_mul(0x1_0000_0001)).collect(), (0..f.t.len()).map(|i| u64::MAX - i as u64).collect()),
                    _ => (rand_vals(&mut ctx.rng, f.s.len()), rand_vals(&mut ctx.rng, f.t.len())),
                };
                chk_deriv(ctx, &json!({"f": f.json(), "x": x, "dy": dy, "entry": e}));
            }
        }
    }
    // exhaustive small circuits
    {
        let ops = [ADD, MUL, NEG, COPY, DISCARD, CONST0 + 2];
        let depth = if thorough { 3 } else { 2 };
        let mut count = 0usize;
        for n_in in 0..=2usize {
            for f in enum_circuits(n_in, depth, &ops, thorough || n_in < 2) {
                if thorough && f.x.len() == 3 && count % 3 != 0 {
                    count += 1;
                    continue;
                }
                count += 1;
                let x: Vec<u64> = (0..f.s.len()).map(|i| [5u64, u64::MAX - 6][i % 2]).collect();
                let dy: Vec<u64> = (0..f.t.len()).map(|i| [1u64, 3, 1 << 63, 7][i % 4]).collect();
                chk_deriv(ctx, &json!({"f": f.json(), "x": x, "dy": dy, "entry": entries[count % 2]}));
            }
        }
    }
    // random circuits
    let n = ctx.budget(2500, 80000);
    for i in 0..n {
        let f = match i % 10 {
            0 => rand_circuit(&mut ctx.rng, 6, 30, None),
            1 => rand_uniform_circuit(&mut ctx.rng, if i % 20 == 1 { MUL } else { ADD }, 8),
            _ => rand_circuit(&mut ctx.rng, 3, 8, None),
        };
        let x = rand_vals(&mut ctx.rng, f.s.len());
        let dy = rand_vals(&mut ctx.rng, f.t.len());
        let entry = entries[ctx.rng.below(2)];
        chk_deriv(ctx, &json!({"f": f.json(), "x": x, "dy": dy, "entry": entry}));
        if i % 4 == 0 && f.x.len() <= 8 {
            chk_optic(ctx, &json!({"spec": poly.json(), "f": f.json(), "entry": entry}));
        }
    }
    // chain rule: composable circuits
    let n = ctx.budget(500, 16000);
    for _ in 0..n {
        let f = rand_circuit(&mut ctx.rng, 3, 6, None);
        let g = rand_circuit_from(&mut ctx.rng, f.t.len(), 6);
        let x = rand_vals(&mut ctx.rng, f.s.len());
        let dz = rand_vals(&mut ctx.rng, g.t.len());
        let entry = entries[ctx.rng.below(2)];
        chk_chain(ctx, &json!({"f": f.json(), "g": g.json(), "x": x, "dz": dz, "entry": entry}));
        if ctx.rng.chance(1, 4) {
            chk_functor(ctx, &json!({"spec": poly.json(), "op": "compose", "f": f.json(), "g": g.json(), "entry": entry}));
        }
    }
    for (f, g) in [(&circ_corners[13], &circ_corners[13]), (&circ_corners[7], &circ_corners[4]), (&circ_corners[7], &circ_corners[5]), (&circ_corners[9], &circ_corners[8])] {
        for e in entries {
            let x = rand_vals(&mut ctx.rng, f.s.len());
            let dz = rand_vals(&mut ctx.rng, g.t.len());
            chk_chain(ctx, &json!({"f": f.json(), "g": g.json(), "x": x, "dz": dz, "entry": e}));
        }
    }

    ctx.notes.push(
        "rule: optic/functor/map_operations/map_object — (spec, diagram[s], entry) with spec = object images F,R (length 0..2 per label, 3 source \
         labels), residual per operation label (length 0..2, 4 labels), generator-image shape per label (6 shapes: single op, 2-chain, operation-free \
         dangling, reversed numbering + zero-arity op, identity wires + op, non-monogamous double consumer); 7 corner specs (incl. the library tests' Identity/dagger optic, run through the library's Identity functor) x (14 corner diagrams + \
         pending-identification lax terms); exhaustive diagrams with ≤2 nodes, ≤1 operation (arity lists ≤2), interfaces ≤1 quick / ≤2 \
         thorough; random: SMALL(3 nodes,2 edges,arity 2,iface 3) / MEDIUM(5,3,3,4) arbitrary diagrams and monogamous acyclic ones (≤3 inputs, ≤4 ops, \
         arity ≤3), random specs; oracle = gluing by definition compared up to isomorphism, for the interleaved and the adapted boundary. \
         deriv/chain — monogamous acyclic circuits over {add,mul,neg,copy,discard,const(8 values)} on Z/2^64: 33 corner circuits (chains of 80 ops, \
         20-wide tensor, crossed wires, reversed edge order), exhaustive circuits with ≤2 inputs and ≤2 (quick) / ≤3 (thorough, every 3rd of depth 3) \
         operations with every ordered wire choice and output order, random circuits ≤3 inputs/≤8 ops, ≤6 inputs/≤30 ops and multiplication-only / addition-only circuits on ≤8 inputs, with shuffled numbering \
         and edge order, inputs from corner values {0,1,2,3,-1,2^63,2^32,..} and uniform u64; expected (f(x), J^T dy) from a reverse-mode interpreter \
         cross-checked against forward mode; evaluated with strict::eval::eval and with a plain interpreter. \
         non-trivial = diagram has an operation (or a non-identity boundary) / circuit has an operation / both composites have operations."
            .into(),
    );
}
