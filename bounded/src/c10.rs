//! C10 — the lax and the strict representation agree and convert losslessly.
//!
//! Oracles (all from the statement, plain loops / model.rs reference operations):
//!  * meaning of a lax diagram = its plain model quotiented by the smallest equivalence containing
//!    the pending unification pairs (`model::quotient`, naive closure);
//!  * round trips are compared for EQUALITY on every raw field; "commutes with the operations" is
//!    compared up to a witness-producing isomorphism (`model::iso`), three ways: strict(lax op) vs
//!    strict op on strictified operands vs the reference operation on the meanings;
//!  * definedness: lax compose is Some iff the boundary TYPES are equal, lax_compose iff the
//!    boundary ARITIES are equal, the strict composite of the strictified operands iff the types are;
//!  * in-place tensor / append / coproduct: EQUAL data to the pure operation and to the literal
//!    juxtaposition.
use crate::ctx::{guard, Ctx, Rng};
use crate::model::*;
use open_hypergraphs::array::vec::*;
use open_hypergraphs::category::*;
use open_hypergraphs::finite_function::FiniteFunction;
use open_hypergraphs::lax;
use open_hypergraphs::semifinite::SemifiniteFunction;
use serde_json::{json, Value};

type Check = fn(&mut Ctx, &Value);
const CHECKS: &[(&str, Check)] = &[
    ("strict_roundtrip", chk_strict_roundtrip),
    ("lax_roundtrip", chk_lax_roundtrip),
    ("strictify", chk_strictify),
    ("compose", chk_compose),
    ("tensor", chk_tensor),
    ("identity", chk_identity),
    ("twist", chk_twist),
    ("spider", chk_spider),
    ("dagger", chk_dagger),
    ("singleton", chk_singleton),
    ("assign", chk_assign),
];

// ------------------------------------------------------------------------------------------------
// plain lax model
// ------------------------------------------------------------------------------------------------
#[derive(Clone, Debug, PartialEq)]
struct Lx {
    m: M,
    q: Vec<(usize, usize)>,
}

impl Lx {
    fn json(&self) -> Value {
        let mut v = self.m.json();
        v["q"] = json!(self.q.iter().map(|&(a, b)| vec![a, b]).collect::<Vec<_>>());
        v
    }
    fn from_json(v: &Value) -> Option<Lx> {
        let m = M::from_json(v)?;
        let mut q = vec![];
        if let Some(arr) = v.get("q").and_then(|x| x.as_array()) {
            for p in arr {
                let p = p.as_array()?;
                if p.len() != 2 {
                    return None;
                }
                q.push((p[0].as_u64()? as usize, p[1].as_u64()? as usize));
            }
        }
        Some(Lx { m, q })
    }
    fn valid(&self) -> bool {
        let n = self.m.w.len();
        self.m.valid() && self.q.iter().all(|&(a, b)| a < n && b < n)
    }
    /// the strict diagram this lax diagram denotes; None if a unification joins two labels
    fn meaning(&self) -> Option<M> {
        quotient(&self.m, &self.q).map(|(m, _)| m)
    }
    fn to_lax(&self) -> LOH {
        let mut l = self.m.to_lax();
        for &(a, b) in &self.q {
            l.hypergraph.quotient.0.push(lax::NodeId(a));
            l.hypergraph.quotient.1.push(lax::NodeId(b));
        }
        l
    }
    fn read(l: &LOH) -> Result<Lx, String> {
        let h = &l.hypergraph;
        if h.adjacency.len() != h.edges.len() {
            return Err(format!("{} adjacency entries for {} edge labels", h.adjacency.len(), h.edges.len()));
        }
        if h.quotient.0.len() != h.quotient.1.len() {
            return Err(format!("quotient lists of different length {} / {}", h.quotient.0.len(), h.quotient.1.len()));
        }
        let n = h.nodes.len();
        let (m, q) = M::from_lax(l);
        if !m.valid() || q.iter().any(|&(a, b)| a >= n || b >= n) {
            return Err("node id out of range".into());
        }
        Ok(Lx { m, q })
    }
    /// meaning of a lax diagram produced by the library
    fn read_meaning(l: &LOH) -> Result<M, String> {
        Lx::read(l)?.meaning().ok_or_else(|| "pending unifications join different labels".to_string())
    }
}

fn juxt(f: &Lx, g: &Lx) -> Lx {
    let n = f.m.w.len();
    let mut r = f.clone();
    for &l in &g.m.w {
        r.m.w.push(l);
    }
    for e in 0..g.m.x.len() {
        r.m.x.push(g.m.x[e]);
        r.m.src.push(g.m.src[e].iter().map(|&v| v + n).collect());
        r.m.tgt.push(g.m.tgt[e].iter().map(|&v| v + n).collect());
    }
    for &v in &g.m.s {
        r.m.s.push(v + n);
    }
    for &v in &g.m.t {
        r.m.t.push(v + n);
    }
    for &(a, b) in &g.q {
        r.q.push((a + n, b + n));
    }
    r
}

fn raw_ic(c: &IC) -> Value {
    json!({"sizes": c.sources.table.0, "sizes_target": c.sources.target, "values": c.values.table.0, "values_target": c.values.target})
}
fn raw_h(h: &SH) -> Value {
    json!({"h_s": raw_ic(&h.s), "h_t": raw_ic(&h.t), "w": h.w.0 .0, "x": h.x.0 .0})
}
fn raw(f: &SOH) -> Value {
    json!({"s": f.s.table.0, "s_target": f.s.target, "t": f.t.table.0, "t_target": f.t.target, "h": raw_h(&f.h)})
}

fn sf(v: &[u8]) -> SF<u8> {
    SemifiniteFunction(VecArray(v.to_vec()))
}

/// strictify a library-made lax diagram: the call must return and the result must be well formed
fn strictify(ctx: &mut Ctx, check: &str, input: &Value, what: &str, l: &LOH) -> Option<M> {
    let l2 = l.clone();
    match guard(move || l2.to_strict()) {
        Err(p) => {
            ctx.fail(check, "C10.to-strict-no-panic", input, json!(format!("{}: panic: {}", what, p)), json!("a strict diagram"));
            None
        }
        Ok(s) => match strict_wf(&s) {
            Err(why) => {
                ctx.fail(check, "C10.to-strict-wf", input, json!(format!("{}: {}", what, why)), json!("well-formed"));
                None
            }
            Ok(m) => Some(m),
        },
    }
}

fn wf(ctx: &mut Ctx, check: &str, input: &Value, what: &str, s: &SOH) -> Option<M> {
    match strict_wf(s) {
        Err(why) => {
            ctx.fail(check, "C10.strict-wf", input, json!(format!("{}: {}", what, why)), json!("well-formed"));
            None
        }
        Ok(m) => Some(m),
    }
}

fn one(input: &Value) -> Option<Lx> {
    match Lx::from_json(&input["f"]) {
        Some(f) if f.valid() => Some(f),
        _ => None,
    }
}
fn two(input: &Value) -> Option<(Lx, Lx)> {
    match (Lx::from_json(&input["f"]), Lx::from_json(&input["g"])) {
        (Some(f), Some(g)) if f.valid() && g.valid() => Some((f, g)),
        _ => None,
    }
}
fn u8s(v: &Value) -> Option<Vec<u8>> {
    v.as_array()?.iter().map(|x| x.as_u64().map(|y| y as u8)).collect()
}

// ------------------------------------------------------------------------------------------------
// round trips
// ------------------------------------------------------------------------------------------------
/// input: {"f": model} — strict -> lax -> strict is the identity on raw data
fn chk_strict_roundtrip(ctx: &mut Ctx, input: &Value) {
    let f = match one(input) {
        Some(f) => f.m,
        None => return,
    };
    const C: &str = "strict_roundtrip";
    ctx.case(C, input, f.nontrivial());
    let s = f.to_strict();
    let want = raw(&s);
    let s2 = s.clone();
    let l = match guard(move || LOH::from_strict(s2)) {
        Err(p) => return ctx.fail(C, "C10.from-strict-no-panic", input, json!(format!("panic: {}", p)), f.json()),
        Ok(l) => l,
    };
    match Lx::read_meaning(&l) {
        Err(why) => ctx.fail(C, "C10.from-strict-agrees", input, json!(why), f.json()),
        Ok(m) => {
            ctx.expect(is_iso(&m, &f), C, "C10.from-strict-agrees", input, m.json(), f.json());
        }
    }
    let l2 = l.clone();
    match guard(move || l2.to_strict()) {
        Err(p) => ctx.fail(C, "C10.to-strict-no-panic", input, json!(format!("panic: {}", p)), want.clone()),
        Ok(back) => {
            let r = raw(&back);
            ctx.expect(r == want, C, "C10.strict-lax-strict-unchanged", input, r, want.clone());
        }
    }
    // the same one level down: hypergraph without interfaces
    let h = s.h.clone();
    match guard(move || lax::Hypergraph::from_strict(h).to_hypergraph()) {
        Err(p) => ctx.fail(C, "C10.from-strict-no-panic", input, json!(format!("hypergraph: panic: {}", p)), raw_h(&s.h)),
        Ok(back) => {
            let (r, w) = (raw_h(&back), raw_h(&s.h));
            ctx.expect(r == w, C, "C10.hypergraph-strict-lax-strict-unchanged", input, r, w);
        }
    }
}

/// input: {"f": model} (a lax diagram WITHOUT pending unifications) — lax -> strict -> lax is the identity
fn chk_lax_roundtrip(ctx: &mut Ctx, input: &Value) {
    let f = match one(input) {
        Some(f) => Lx { m: f.m, q: vec![] },
        None => return,
    };
    const C: &str = "lax_roundtrip";
    ctx.case(C, input, f.m.nontrivial());
    let l = f.to_lax();
    ctx.expect(guard(|| l.hypergraph.is_strict()) == Ok(true), C, "C10.is-strict", input, json!("is_strict() != true"), json!(true));
    let l2 = l.clone();
    let s = match guard(move || l2.to_strict()) {
        Err(p) => return ctx.fail(C, "C10.to-strict-no-panic", input, json!(format!("panic: {}", p)), f.json()),
        Ok(s) => s,
    };
    match strict_wf(&s) {
        Err(why) => ctx.fail(C, "C10.to-strict-wf", input, json!(why), f.json()),
        Ok(m) => {
            ctx.expect(is_iso(&m, &f.m), C, "C10.strictify-agrees", input, m.json(), f.m.json());
        }
    }
    match guard(move || LOH::from_strict(s)) {
        Err(p) => ctx.fail(C, "C10.from-strict-no-panic", input, json!(format!("panic: {}", p)), f.json()),
        Ok(back) => {
            let same = back == l && Lx::read(&back).as_ref() == Ok(&f);
            ctx.expect(same, C, "C10.lax-strict-lax-unchanged", input, json!(format!("{:?}", back)), f.json());
        }
    }
    // hypergraph level
    let h = l.hypergraph.clone();
    match guard(move || lax::Hypergraph::from_strict(h.to_hypergraph())) {
        Err(p) => ctx.fail(C, "C10.from-strict-no-panic", input, json!(format!("hypergraph: panic: {}", p)), f.json()),
        Ok(back) => {
            ctx.expect(back == l.hypergraph, C, "C10.hypergraph-lax-strict-lax-unchanged", input, json!(format!("{:?}", back)), f.json());
        }
    }
}

/// input: {"f": lax model with label-consistent pending pairs} — strictification = quotient
fn chk_strictify(ctx: &mut Ctx, input: &Value) {
    let f = match one(input) {
        Some(f) => f,
        None => return,
    };
    let want = match f.meaning() {
        Some(m) => m,
        None => return,
    };
    const C: &str = "strictify";
    ctx.case(C, input, f.m.nontrivial() && want.w.len() < f.m.w.len());
    let l = f.to_lax();
    ctx.expect(guard(|| l.hypergraph.is_strict()) == Ok(f.q.is_empty()), C, "C10.is-strict", input, json!("is_strict() wrong"), json!(f.q.is_empty()));
    if let Some(m) = strictify(ctx, C, input, "to_strict", &l) {
        ctx.expect(is_iso(&m, &want), C, "C10.strictify-quotient", input, m.json(), want.json());
    }
    // in-place quotient first, then the (now unification-free) diagram: same meaning
    let mut l2 = l.clone();
    match guard(move || {
        let r = l2.quotient().is_ok();
        (r, l2)
    }) {
        Err(p) => ctx.fail(C, "C10.quotient-no-panic", input, json!(format!("panic: {}", p)), want.json()),
        Ok((ok, l2)) => {
            ctx.expect(ok, C, "C10.quotient-ok", input, json!("Err"), json!("Ok (labels are consistent)"));
            if ok {
                match Lx::read(&l2) {
                    Err(why) => ctx.fail(C, "C10.quotient-agrees", input, json!(why), want.json()),
                    Ok(r) => {
                        ctx.expect(r.q.is_empty() && is_iso(&r.m, &want), C, "C10.quotient-agrees", input, r.json(), want.json());
                    }
                }
                if let Some(m) = strictify(ctx, C, input, "quotient then to_strict", &l2) {
                    ctx.expect(is_iso(&m, &want), C, "C10.quotient-then-strictify", input, m.json(), want.json());
                }
            }
        }
    }
}

// ------------------------------------------------------------------------------------------------
// strictification commutes with the operations
// ------------------------------------------------------------------------------------------------
/// input: {"f": lax model, "g": lax model}
fn chk_compose(ctx: &mut Ctx, input: &Value) {
    let (f, g) = match two(input) {
        Some(x) => x,
        None => return,
    };
    let (mf, mg) = match (f.meaning(), g.meaning()) {
        (Some(a), Some(b)) => (a, b),
        _ => return,
    };
    const C: &str = "compose";
    let types_match = f.m.target_type() == g.m.source_type();
    let arity_match = f.m.t.len() == g.m.s.len();
    ctx.case(C, input, f.m.nontrivial() && g.m.nontrivial() && arity_match && !f.m.t.is_empty());
    let (lf, lg) = (f.to_lax(), g.to_lax());
    let oracle = compose(&mf, &mg);
    if oracle.is_some() != types_match {
        // cannot happen for label-consistent inputs; do not judge the library on an inconsistent oracle
        return;
    }
    let say = |o: &Option<LOH>| if o.is_some() { "Some" } else { "None" };
    // definedness
    let checked = [("compose", guard(|| Arrow::compose(&lf, &lg))), ("shr", guard(|| &lf >> &lg))];
    let unchecked = guard(|| lf.lax_compose(&lg));
    let mut results: Vec<(&str, LOH)> = vec![];
    for (how, r) in checked {
        match r {
            Err(p) => ctx.fail(C, "C10.compose-no-panic", input, json!(format!("{}: panic: {}", how, p)), json!(types_match)),
            Ok(o) => {
                ctx.expect(o.is_some() == types_match, C, "C10.compose-defined-iff-types-match", input, json!(format!("{}: {}", how, say(&o))), json!(types_match));
                if let Some(r) = o {
                    results.push((how, r));
                }
            }
        }
    }
    match unchecked {
        Err(p) => ctx.fail(C, "C10.compose-no-panic", input, json!(format!("lax_compose: panic: {}", p)), json!(arity_match)),
        Ok(o) => {
            ctx.expect(o.is_some() == arity_match, C, "C10.lax-compose-defined-iff-arities-match", input, json!(say(&o)), json!(arity_match));
            if let Some(r) = o {
                if types_match {
                    results.push(("lax_compose", r));
                } else {
                    // unchecked composite of mismatching types: still a readable lax diagram with the outer interfaces
                    match Lx::read(&r) {
                        Err(why) => ctx.fail(C, "C10.lax-compose-readable", input, json!(why), json!("valid node ids")),
                        Ok(x) => {
                            let ok = x.m.s.len() == f.m.s.len() && x.m.t.len() == g.m.t.len();
                            ctx.expect(ok, C, "C10.lax-compose-arity", input, json!([x.m.s.len(), x.m.t.len()]), json!([f.m.s.len(), g.m.t.len()]));
                        }
                    }
                }
            }
        }
    }
    // strict side
    let (sf_, sg_) = match (guard(|| lf.clone().to_strict()), guard(|| lg.clone().to_strict())) {
        (Ok(a), Ok(b)) => (a, b),
        (a, b) => return ctx.fail(C, "C10.to-strict-no-panic", input, json!(format!("operands: {:?} {:?}", a.err(), b.err())), json!("strict operands")),
    };
    let strict_side = match guard(|| Arrow::compose(&sf_, &sg_)) {
        Err(p) => return ctx.fail(C, "C10.compose-no-panic", input, json!(format!("strict compose: panic: {}", p)), json!(types_match)),
        Ok(o) => o,
    };
    ctx.expect(strict_side.is_some() == types_match, C, "C10.strict-compose-defined-agrees", input, json!(strict_side.is_some()), json!(types_match));
    let (oracle, strict_side) = match (oracle, strict_side) {
        (Some(o), Some(s)) => (o, s),
        _ => return,
    };
    let ms = match wf(ctx, C, input, "strict composite", &strict_side) {
        Some(m) => m,
        None => return,
    };
    ctx.expect(is_iso(&ms, &oracle), C, "C10.strict-compose-oracle", input, ms.json(), oracle.json());
    for (how, r) in &results {
        if let Some(m) = strictify(ctx, C, input, how, r) {
            ctx.expect(is_iso(&m, &ms), C, "C10.compose-commutes", input, json!({"how": how, "strict(f;g)": m.json()}), ms.json());
            ctx.expect(is_iso(&m, &oracle), C, "C10.compose-oracle", input, json!({"how": how, "strict(f;g)": m.json()}), oracle.json());
        }
    }
}

/// input: {"f": lax model, "g": lax model}
fn chk_tensor(ctx: &mut Ctx, input: &Value) {
    let (f, g) = match two(input) {
        Some(x) => x,
        None => return,
    };
    let (mf, mg) = match (f.meaning(), g.meaning()) {
        (Some(a), Some(b)) => (a, b),
        _ => return,
    };
    const C: &str = "tensor";
    ctx.case(C, input, f.m.nontrivial() && g.m.nontrivial());
    let (lf, lg) = (f.to_lax(), g.to_lax());
    let oracle = tensor(&mf, &mg);
    let l = match guard(|| lf.tensor(&lg)) {
        Err(p) => return ctx.fail(C, "C10.tensor-no-panic", input, json!(format!("panic: {}", p)), oracle.json()),
        Ok(l) => l,
    };
    let r = match guard(|| Monoidal::tensor(&lf.clone().to_strict(), &lg.clone().to_strict())) {
        Err(p) => return ctx.fail(C, "C10.tensor-no-panic", input, json!(format!("strict side: panic: {}", p)), oracle.json()),
        Ok(r) => r,
    };
    let mr = match wf(ctx, C, input, "strict tensor", &r) {
        Some(m) => m,
        None => return,
    };
    if let Some(ml) = strictify(ctx, C, input, "tensor", &l) {
        ctx.expect(is_iso(&ml, &mr), C, "C10.tensor-commutes", input, ml.json(), mr.json());
        ctx.expect(is_iso(&ml, &oracle), C, "C10.tensor-oracle", input, ml.json(), oracle.json());
    }
}

/// compare strict(lax constructor) / strict constructor / reference model
fn three_way(ctx: &mut Ctx, check: &str, clause: &str, input: &Value, l: Result<LOH, String>, s: Result<SOH, String>, oracle: &M) {
    let l = match l {
        Err(p) => return ctx.fail(check, "C10.constructor-no-panic", input, json!(format!("lax: panic: {}", p)), oracle.json()),
        Ok(l) => l,
    };
    let s = match s {
        Err(p) => return ctx.fail(check, "C10.constructor-no-panic", input, json!(format!("strict: panic: {}", p)), oracle.json()),
        Ok(s) => s,
    };
    let ms = match wf(ctx, check, input, "strict constructor", &s) {
        Some(m) => m,
        None => return,
    };
    ctx.expect(is_iso(&ms, oracle), check, &format!("{}-strict-oracle", clause), input, ms.json(), oracle.json());
    if let Some(ml) = strictify(ctx, check, input, "lax constructor", &l) {
        ctx.expect(is_iso(&ml, &ms), check, &format!("{}-commutes", clause), input, ml.json(), ms.json());
        ctx.expect(is_iso(&ml, oracle), check, &format!("{}-oracle", clause), input, ml.json(), oracle.json());
    }
}

/// input: {"w": [labels]}
fn chk_identity(ctx: &mut Ctx, input: &Value) {
    let w = match u8s(&input["w"]) {
        Some(w) => w,
        None => return,
    };
    ctx.case("identity", input, !w.is_empty());
    let oracle = identity(&w);
    three_way(ctx, "identity", "C10.identity", input, guard(|| LOH::identity(w.clone())), guard(|| <SOH as Arrow>::identity(sf(&w))), &oracle);
    three_way(ctx, "identity", "C10.identity", input, guard(|| <LOH as Arrow>::identity(w.clone())), guard(|| SOH::identity(sf(&w))), &oracle);
}

/// input: {"a": [labels], "b": [labels]}
fn chk_twist(ctx: &mut Ctx, input: &Value) {
    let (a, b) = match (u8s(&input["a"]), u8s(&input["b"])) {
        (Some(a), Some(b)) => (a, b),
        _ => return,
    };
    ctx.case("twist", input, !a.is_empty() && !b.is_empty());
    let oracle = twist(&a, &b);
    three_way(ctx, "twist", "C10.twist", input, guard(|| <LOH as SymmetricMonoidal>::twist(a.clone(), b.clone())), guard(|| <SOH as SymmetricMonoidal>::twist(sf(&a), sf(&b))), &oracle);
}

/// input: {"s": {"table","target"}, "t": {"table","target"}, "w": [labels]}
fn chk_spider(ctx: &mut Ctx, input: &Value) {
    let rd = |v: &Value| -> Option<(Vec<usize>, usize)> {
        let table: Vec<usize> = v.get("table")?.as_array()?.iter().map(|x| x.as_u64().map(|y| y as usize)).collect::<Option<_>>()?;
        let target = v.get("target")?.as_u64()? as usize;
        if table.iter().any(|&x| x >= target) {
            return None;
        }
        Some((table, target))
    };
    let ((st, sn), (tt, tn), w) = match (rd(&input["s"]), rd(&input["t"]), u8s(&input["w"])) {
        (Some(s), Some(t), Some(w)) => (s, t, w),
        _ => return,
    };
    const C: &str = "spider";
    let defined = sn == w.len() && tn == w.len();
    ctx.case(C, input, !w.is_empty() && st.len() + tt.len() > 0);
    let mk = |t: &Vec<usize>, n: usize| -> FF { FiniteFunction::new(VecArray(t.clone()), n).unwrap() };
    let l = guard(|| LOH::spider(mk(&st, sn), mk(&tt, tn), w.clone()));
    let l2 = guard(|| <LOH as Spider<VecKind>>::spider(mk(&st, sn), mk(&tt, tn), w.clone()));
    let s = guard(|| SOH::spider(mk(&st, sn), mk(&tt, tn), sf(&w)));
    let (l, l2, s) = match (l, l2, s) {
        (Ok(a), Ok(b), Ok(c)) => (a, b, c),
        (a, b, c) => return ctx.fail(C, "C10.constructor-no-panic", input, json!(format!("panic: {:?} {:?} {:?}", a.err(), b.err(), c.err().map(|e| e))), json!(defined)),
    };
    ctx.expect(l.is_some() == defined && l2.is_some() == defined, C, "C10.spider-lax-defined", input, json!([l.is_some(), l2.is_some()]), json!(defined));
    ctx.expect(s.is_some() == defined, C, "C10.spider-strict-defined", input, json!(s.is_some()), json!(defined));
    if !defined {
        return;
    }
    let oracle = match spider(&st, &tt, &w) {
        Some(o) => o,
        None => return,
    };
    if let (Some(l), Some(l2), Some(s)) = (l, l2, s) {
        three_way(ctx, C, "C10.spider", input, Ok(l), Ok(s.clone()), &oracle);
        three_way(ctx, C, "C10.spider", input, Ok(l2), Ok(s), &oracle);
    }
    // half spider (target leg = identity), when the shapes allow it
    if tt == (0..w.len()).collect::<Vec<_>>() {
        let lh = guard(|| <LOH as Spider<VecKind>>::half_spider(mk(&st, sn), w.clone()));
        let sh = guard(|| <SOH as Spider<VecKind>>::half_spider(mk(&st, sn), sf(&w)));
        if let (Ok(Some(lh)), Ok(Some(sh))) = (lh, sh) {
            three_way(ctx, C, "C10.half-spider", input, Ok(lh), Ok(sh), &oracle);
        } else {
            ctx.fail(C, "C10.half-spider-defined", input, json!("None or panic"), oracle.json());
        }
    }
}

/// input: {"f": lax model}
fn chk_dagger(ctx: &mut Ctx, input: &Value) {
    let f = match one(input) {
        Some(f) => f,
        None => return,
    };
    let mf = match f.meaning() {
        Some(m) => m,
        None => return,
    };
    ctx.case("dagger", input, f.m.nontrivial() && f.m.s != f.m.t);
    let lf = f.to_lax();
    let oracle = dagger(&mf);
    let l = guard(|| <LOH as Spider<VecKind>>::dagger(&lf));
    let s = guard(|| <SOH as Spider<VecKind>>::dagger(&lf.clone().to_strict()));
    three_way(ctx, "dagger", "C10.dagger", input, l, s, &oracle);
}

/// input: {"x": label, "a": [labels], "b": [labels]}
fn chk_singleton(ctx: &mut Ctx, input: &Value) {
    let (x, a, b) = match (input["x"].as_u64(), u8s(&input["a"]), u8s(&input["b"])) {
        (Some(x), Some(a), Some(b)) => (x as u8, a, b),
        _ => return,
    };
    ctx.case("singleton", input, a.len() + b.len() > 0);
    let oracle = singleton(x, &a, &b);
    three_way(ctx, "singleton", "C10.singleton", input, guard(|| LOH::singleton(x, a.clone(), b.clone())), guard(|| SOH::singleton(x, sf(&a), sf(&b))), &oracle);
}

// ------------------------------------------------------------------------------------------------
// in-place operations = pure operations
// ------------------------------------------------------------------------------------------------
/// input: {"f": lax model, "g": lax model}
fn chk_assign(ctx: &mut Ctx, input: &Value) {
    let (f, g) = match two(input) {
        Some(x) => x,
        None => return,
    };
    const C: &str = "assign";
    let mentions = g.m.s.len() + g.m.t.len() + g.q.len() + g.m.src.iter().chain(g.m.tgt.iter()).map(|l| l.len()).sum::<usize>();
    ctx.case(C, input, !f.m.w.is_empty() && mentions > 0);
    let (lf, lg) = (f.to_lax(), g.to_lax());
    let e = juxt(&f, &g);
    let n = f.m.w.len();
    let pure = guard(|| lf.tensor(&lg));
    let pure_h = guard(|| open_hypergraphs::verif_hooks::lax_hypergraph_coproduct(&lf.hypergraph, &lg.hypergraph));
    // tensor_assign
    match guard(|| {
        let mut a = lf.clone();
        a.tensor_assign(lg.clone());
        a
    }) {
        Err(p) => ctx.fail(C, "C10.assign-no-panic", input, json!(format!("tensor_assign: panic: {}", p)), e.json()),
        Ok(a) => {
            if let Ok(p) = &pure {
                ctx.expect(&a == p, C, "C10.tensor-assign-equals-tensor", input, json!(format!("{:?}", a)), json!(format!("{:?}", p)));
            }
            ctx.expect(Lx::read(&a).as_ref() == Ok(&e), C, "C10.tensor-assign-juxtaposition", input, json!(format!("{:?}", a)), e.json());
        }
    }
    // append: hypergraph as for the tensor, own interfaces untouched, rhs interfaces returned shifted
    match guard(|| {
        let mut a = lf.clone();
        let r = a.append(lg.clone());
        (a, r)
    }) {
        Err(p) => ctx.fail(C, "C10.assign-no-panic", input, json!(format!("append: panic: {}", p)), e.json()),
        Ok((a, (rs, rt))) => {
            let mut e2 = e.clone();
            e2.m.s = f.m.s.clone();
            e2.m.t = f.m.t.clone();
            if let Ok(p) = &pure {
                ctx.expect(a.hypergraph == p.hypergraph, C, "C10.append-equals-tensor-hypergraph", input, json!(format!("{:?}", a.hypergraph)), json!(format!("{:?}", p.hypergraph)));
                let tail_s: Vec<usize> = p.sources.iter().skip(lf.sources.len()).map(|x| x.0).collect();
                let tail_t: Vec<usize> = p.targets.iter().skip(lf.targets.len()).map(|x| x.0).collect();
                let got: (Vec<usize>, Vec<usize>) = (rs.iter().map(|x| x.0).collect(), rt.iter().map(|x| x.0).collect());
                ctx.expect(got == (tail_s.clone(), tail_t.clone()), C, "C10.append-returns-tensor-interfaces", input, json!(got), json!([tail_s, tail_t]));
            }
            ctx.expect(Lx::read(&a).as_ref() == Ok(&e2), C, "C10.append-juxtaposition", input, json!(format!("{:?}", a)), e2.json());
            let want_s: Vec<usize> = g.m.s.iter().map(|&v| v + n).collect();
            let want_t: Vec<usize> = g.m.t.iter().map(|&v| v + n).collect();
            let got: (Vec<usize>, Vec<usize>) = (rs.iter().map(|x| x.0).collect(), rt.iter().map(|x| x.0).collect());
            ctx.expect(got == (want_s.clone(), want_t.clone()), C, "C10.append-returned-interfaces", input, json!(got), json!([want_s, want_t]));
        }
    }
    // coproduct_assign on the bare hypergraphs
    match guard(|| {
        let mut a = lf.hypergraph.clone();
        a.coproduct_assign(lg.hypergraph.clone());
        a
    }) {
        Err(p) => ctx.fail(C, "C10.assign-no-panic", input, json!(format!("coproduct_assign: panic: {}", p)), e.json()),
        Ok(a) => {
            if let Ok(p) = &pure_h {
                ctx.expect(&a == p, C, "C10.coproduct-assign-equals-coproduct", input, json!(format!("{:?}", a)), json!(format!("{:?}", p)));
            }
            let mut e2 = e.clone();
            e2.m.s = vec![];
            e2.m.t = vec![];
            let o = lax::OpenHypergraph { sources: vec![], targets: vec![], hypergraph: a };
            ctx.expect(Lx::read(&o).as_ref() == Ok(&e2), C, "C10.coproduct-assign-juxtaposition", input, json!(format!("{:?}", o.hypergraph)), e2.json());
        }
    }
    if let (Err(p), _) | (_, Err(p)) = (pure.as_ref().map(|_| ()), pure_h.as_ref().map(|_| ())) {
        ctx.fail(C, "C10.assign-no-panic", input, json!(format!("pure tensor/coproduct: panic: {}", p)), e.json());
    }
}

// ------------------------------------------------------------------------------------------------
// generators
// ------------------------------------------------------------------------------------------------
const LARGE: Bounds = Bounds { nodes: 10, edges: 5, arity: 4, iface: 8, labels: 3 };

/// label-consistent pending pairs: both ends carry the same label
fn consistent_q(r: &mut Rng, w: &[u8], max_pairs: usize) -> Vec<(usize, usize)> {
    let n = w.len();
    if n == 0 || max_pairs == 0 {
        return vec![];
    }
    let k = r.range(1, max_pairs);
    (0..k)
        .map(|_| {
            let a = r.below(n);
            let cands: Vec<usize> = (0..n).filter(|&i| w[i] == w[a]).collect();
            (a, cands[r.below(cands.len())])
        })
        .collect()
}

fn random_lx(r: &mut Rng, b: Bounds) -> Lx {
    let m = random_model(r, b);
    let q = if r.chance(2, 5) { vec![] } else { consistent_q(r, &m.w, 4) };
    Lx { m, q }
}

/// a right operand for `f`: same boundary type (composable), same arity but another type, or arbitrary
fn random_partner(r: &mut Rng, b: Bounds, f: &Lx) -> Lx {
    let ty = f.m.target_type();
    let m = match r.below(6) {
        0 => random_model(r, b),
        1 if !ty.is_empty() => {
            // same arity, exactly one label differs
            let mut ty2 = ty.clone();
            let i = r.below(ty2.len());
            ty2[i] = if ty2[i] == 0 { 1 } else { 0 };
            random_model_with_source(r, b, &ty2)
        }
        2 if !ty.is_empty() => {
            // arity differs by one, common prefix
            let mut ty2 = ty.clone();
            if r.chance(1, 2) {
                ty2.pop();
            } else {
                ty2.push(ty[0]);
            }
            random_model_with_source(r, b, &ty2)
        }
        _ => random_model_with_source(r, b, &ty),
    };
    let q = if r.chance(2, 5) { vec![] } else { consistent_q(r, &m.w, 4) };
    Lx { m, q }
}

fn mk(w: Vec<u8>, x: Vec<u8>, src: Vec<Vec<usize>>, tgt: Vec<Vec<usize>>, s: Vec<usize>, t: Vec<usize>, q: Vec<(usize, usize)>) -> Lx {
    Lx { m: M { w, x, src, tgt, s, t }, q }
}

fn corner_lx() -> Vec<Lx> {
    let mut out: Vec<Lx> = corner_models().iter().map(|m| Lx { m: m.clone(), q: vec![] }).collect();
    // no nodes, two zero-arity edges
    out.push(mk(vec![], vec![10, 11], vec![vec![], vec![]], vec![vec![], vec![]], vec![], vec![], vec![]));
    // trailing isolated nodes, trailing zero-arity edge (conversions must not lose the tail)
    out.push(mk(vec![0, 1, 1, 0], vec![10, 11], vec![vec![0], vec![]], vec![vec![1], vec![]], vec![0], vec![1], vec![]));
    // pending: self pair, duplicate pair, reversed pair, chain collapsing everything
    out.push(mk(vec![0, 0, 0], vec![], vec![], vec![], vec![0, 1, 2], vec![2, 1, 0], vec![(1, 1), (0, 2), (2, 0), (0, 2), (2, 1)]));
    // pending pair merges the two ends of an edge into a self loop; interface hits the merged-away id
    out.push(mk(vec![1, 1], vec![10], vec![vec![0]], vec![vec![1]], vec![1], vec![1, 0], vec![(1, 0)]));
    // pending only between nodes that are on no interface and no edge
    out.push(mk(vec![0, 1, 0, 1], vec![], vec![], vec![], vec![1], vec![1], vec![(0, 2)]));
    // permutation wiring without operations, plus pending pair
    out.push(mk(vec![0, 0, 1], vec![], vec![], vec![], vec![2, 0, 1], vec![1, 2, 0], vec![(0, 1)]));
    // boundary multiplicity much larger than the node count
    out.push(mk(vec![0], vec![], vec![], vec![], vec![0; 6], vec![0; 6], vec![]));
    out.push(mk(vec![0, 0], vec![10], vec![vec![0, 1, 0, 1, 0]], vec![vec![1; 5]], vec![0, 1, 0, 1, 0, 1], vec![1, 0, 1, 0, 1, 0], vec![]));
    // 2-cycle closed further by a pending pair
    out.push(mk(vec![0, 0], vec![10, 11], vec![vec![0], vec![1]], vec![vec![1], vec![0]], vec![0], vec![1], vec![(1, 0)]));
    out
}

/// 2^k nodes of one label merged in binomial-tree order; `flip` reverses every pair
fn binomial_pairs(k: usize, flip: bool) -> Vec<(usize, usize)> {
    let n = 1usize << k;
    let mut q = vec![];
    let mut step = 1;
    while step < n {
        let mut i = 0;
        while i + step < n {
            q.push(if flip { (i + step, i) } else { (i, i + step) });
            i += 2 * step;
        }
        step *= 2;
    }
    q
}

/// exhaustive lax family: n ≤ 2 nodes of ONE label, ≤ 1 edge (arities ≤ 1), interfaces ≤ 1 (≤ 2 for n = 1), ≤ 1 pending pair
fn exhaustive() -> Vec<Lx> {
    let mut out = vec![];
    for n in 0..=2usize {
        let w: Vec<u8> = vec![0; n];
        let mut lists: Vec<Vec<usize>> = vec![vec![]];
        for v in 0..n {
            lists.push(vec![v]);
        }
        let mut ifaces = lists.clone();
        if n == 1 {
            ifaces.push(vec![0, 0]);
        }
        let mut edges: Vec<Option<(Vec<usize>, Vec<usize>)>> = vec![None];
        for a in &lists {
            for b in &lists {
                edges.push(Some((a.clone(), b.clone())));
            }
        }
        let mut qs: Vec<Vec<(usize, usize)>> = vec![vec![]];
        for a in 0..n {
            for b in 0..n {
                if a != b || a == 0 {
                    qs.push(vec![(a, b)]);
                }
            }
        }
        for e in &edges {
            for s in &ifaces {
                for t in &ifaces {
                    for q in &qs {
                        let (x, src, tgt) = match e {
                            None => (vec![], vec![], vec![]),
                            Some((a, b)) => (vec![10], vec![a.clone()], vec![b.clone()]),
                        };
                        out.push(Lx { m: M { w: w.clone(), x, src, tgt, s: s.clone(), t: t.clone() }, q: q.clone() });
                    }
                }
            }
        }
    }
    out
}

fn labels(r: &mut Rng, max_len: usize) -> Vec<u8> {
    let n = r.range(0, max_len);
    (0..n).map(|_| r.below(3) as u8).collect()
}

fn single_checks(ctx: &mut Ctx, f: &Lx) {
    chk_strict_roundtrip(ctx, &json!({"f": f.m.json()}));
    chk_lax_roundtrip(ctx, &json!({"f": f.m.json()}));
    chk_strictify(ctx, &json!({"f": f.json()}));
    chk_dagger(ctx, &json!({"f": f.json()}));
}
fn pair_checks(ctx: &mut Ctx, f: &Lx, g: &Lx) {
    let input = json!({"f": f.json(), "g": g.json()});
    chk_compose(ctx, &input);
    chk_tensor(ctx, &input);
    chk_assign(ctx, &input);
}

pub fn run(ctx: &mut Ctx) {
    if let Some((name, input)) = ctx.replay.clone() {
        for (n, c) in CHECKS {
            if *n == name {
                c(ctx, &input);
            }
        }
        return;
    }
    // (a) corners: every corner alone, all ordered pairs
    let corners = corner_lx();
    for f in &corners {
        single_checks(ctx, f);
        for g in &corners {
            pair_checks(ctx, f, g);
        }
    }
    // deep union-find trees: 32 + 32 nodes, each side merged in binomial-tree order by its own pending
    // pairs (on the left, on the right, on both), the composition boundary joining the two halves
    for (ql, qr) in [(true, false), (false, true), (true, true)] {
        for flip in [false, true] {
            let f = mk(vec![0; 32], vec![10], vec![vec![0]], vec![vec![31]], vec![5], (0..32).collect(), if ql { binomial_pairs(5, flip) } else { vec![] });
            let g = mk(vec![0; 32], vec![11], vec![vec![31, 0]], vec![vec![]], (0..32).rev().collect(), vec![7, 7], if qr { binomial_pairs(5, !flip) } else { vec![] });
            single_checks(ctx, &f);
            single_checks(ctx, &g);
            pair_checks(ctx, &f, &g);
            pair_checks(ctx, &g, &f);
        }
    }
    // two labels: two interleaved classes, 16 + 16 nodes each side
    {
        let w: Vec<u8> = (0..32).map(|i| (i % 2) as u8).collect();
        let q: Vec<(usize, usize)> = binomial_pairs(4, false).into_iter().flat_map(|(a, b)| vec![(2 * a, 2 * b), (2 * b + 1, 2 * a + 1)]).collect();
        let f = mk(w.clone(), vec![10], vec![vec![0, 1]], vec![vec![31, 30]], vec![0, 1], (0..32).collect(), q.clone());
        let g = mk(w.clone(), vec![], vec![], vec![], (0..32).collect(), vec![1, 0], q);
        single_checks(ctx, &f);
        pair_checks(ctx, &f, &g);
    }
    // a chain of 40 pending pairs on a path, boundary multiplicity 12 on a single wire
    {
        let f = mk(vec![1; 41], vec![10, 10], vec![vec![0], vec![40]], vec![vec![40], vec![0]], vec![20], vec![3; 12], (0..40).map(|i| (i + 1, i)).collect());
        let g = mk(vec![1, 1], vec![], vec![], vec![], vec![0, 1, 0, 1, 0, 1, 0, 1, 0, 1, 0, 1], vec![1, 0], vec![]);
        single_checks(ctx, &f);
        pair_checks(ctx, &f, &g);
    }
    // constructors: exhaustive small
    for n in 0..=3usize {
        // all label words over {0,1} of length n
        for bits in 0..(1usize << n) {
            let w: Vec<u8> = (0..n).map(|i| ((bits >> i) & 1) as u8).collect();
            chk_identity(ctx, &json!({"w": w}));
            for k in 0..=n {
                chk_twist(ctx, &json!({"a": w[..k].to_vec(), "b": w[k..].to_vec()}));
                chk_singleton(ctx, &json!({"x": 10, "a": w[..k].to_vec(), "b": w[k..].to_vec()}));
            }
        }
    }
    // spiders: all (s, t) with |w| ≤ 2, legs of length ≤ 2, every combination of leg targets in {|w|-1, |w|, |w|+1}
    for n in 0..=2usize {
        let w: Vec<u8> = (0..n as u8).collect();
        let targets: Vec<usize> = (n.saturating_sub(1)..=n + 1).collect();
        for &sn in &targets {
            for &tn in &targets {
                let tables = |m: usize| -> Vec<Vec<usize>> {
                    let mut out = vec![vec![]];
                    for a in 0..m {
                        out.push(vec![a]);
                        for b in 0..m {
                            out.push(vec![a, b]);
                        }
                    }
                    out
                };
                for st in tables(sn) {
                    for tt in tables(tn) {
                        chk_spider(ctx, &json!({"s": {"table": st, "target": sn}, "t": {"table": tt, "target": tn}, "w": w}));
                    }
                }
            }
        }
    }
    // (b) exhaustive small lax family: every member alone; ordered pairs: all (thorough) or a rotating 1/17 slice (quick)
    let ex = exhaustive();
    let stride = if ctx.thorough() { 1 } else { 17 };
    for (i, f) in ex.iter().enumerate() {
        single_checks(ctx, f);
        let mut j = i % stride;
        while j < ex.len() {
            pair_checks(ctx, f, &ex[j]);
            j += stride;
        }
    }
    // (c) random
    let n = ctx.budget(2500, 70000);
    for i in 0..n {
        let b = match i % 8 {
            0 => LARGE,
            1 | 2 | 3 => MEDIUM,
            _ => SMALL,
        };
        let f = random_lx(&mut ctx.rng, b);
        let g = random_partner(&mut ctx.rng, b, &f);
        single_checks(ctx, &f);
        pair_checks(ctx, &f, &g);
        // constructors
        let (a, c) = (labels(&mut ctx.rng, 4), labels(&mut ctx.rng, 4));
        chk_identity(ctx, &json!({"w": a}));
        chk_twist(ctx, &json!({"a": a, "b": c}));
        let xl = 10 + ctx.rng.below(2);
        chk_singleton(ctx, &json!({"x": xl, "a": a, "b": c}));
        let w = labels(&mut ctx.rng, 5);
        let tgt = |r: &mut Rng| if r.chance(1, 6) { (w.len() + r.below(3)).saturating_sub(1) } else { w.len() };
        let (sn, tn) = (tgt(&mut ctx.rng), tgt(&mut ctx.rng));
        let leg = |r: &mut Rng, m: usize, identity_ok: bool| -> Vec<usize> {
            if m == 0 {
                vec![]
            } else if identity_ok && r.chance(1, 4) {
                (0..m).collect()
            } else {
                let len = r.range(0, 7);
                r.vec_below(len, m)
            }
        };
        let st = leg(&mut ctx.rng, sn, false);
        let tt = leg(&mut ctx.rng, tn, true);
        chk_spider(ctx, &json!({"s": {"table": st, "target": sn}, "t": {"table": tt, "target": tn}, "w": w}));
    }
    ctx.notes.push(
        "rule: lax inputs are plain models + an ordered list of pending unification pairs joining equally labelled nodes (label-consistent); strict inputs are the plain models. \
         round trips compared for equality on every raw field; commutation compared up to isomorphism three ways (strict(lax op), strict op of strictified operands, reference operation on the quotiented models); definedness: compose Some iff boundary types equal, lax_compose Some iff boundary arities equal, strict composite likewise iff types equal; in-place tensor/append/coproduct equal to the pure result and to literal juxtaposition. \
         enumeration: (a) 19 corners alone and all ordered pairs; 32+32-node operands with binomial-tree pending pairs on left/right/both (both pair orientations), two-label interleaved classes, a 40-pair chain with boundary multiplicity 12; constructors exhaustively for label words of length <=3 over {0,1} (identity, all splits for twist/singleton); spiders exhaustively for |w|<=2, legs <=2, leg targets in {|w|-1,|w|,|w|+1}; \
         (b) exhaustive lax family (one label, n<=2 nodes, <=1 edge with arities <=1, interfaces <=1 resp. <=2 for n=1, <=1 pending pair; 452 members): each alone, ordered pairs all (thorough) / 1-in-17 (quick); \
         (c) seeded random SMALL(3,2,2,3,2)/MEDIUM(5,3,3,4,2)/LARGE(10,5,4,8,3) with 0..4 consistent pending pairs on either operand; right operand: 1/2 composable by construction, 1/6 same arity but one label differs, 1/6 arity off by one, 1/6 arbitrary. \
         non-trivial: single = has a node and an edge or interface entry (strictify: additionally some node is merged away; dagger: interfaces differ); compose = both operands non-trivial, arities equal and non-zero; tensor = both non-trivial; assign = left has a node and right mentions a node; constructors = non-empty type."
            .into(),
    );
}
