//! C05 — every operation returns a well-formed, correctly typed diagram; every checked constructor
//! accepts its argument iff the documented conditions hold.
//!
//! Oracles (written from the property statement, plain loops over Vec):
//!   * deep well-formedness read off the raw public fields (`model::strict_wf`, `model::ic_wf`,
//!     `util::lax_wf`, `util::sic_wf`, `util::ff_wf`): one source list and one target list per edge,
//!     segment sizes add up to the length of the incidence arrays, every node reference in range;
//!   * promised types computed from the argument types (identity A→A, symmetry A●B→B●A, singleton and
//!     batches as declared, tensor concatenates, dagger swaps, composition source-left/target-right,
//!     functor F(A)→F(B), optic interleaved F●R, adapted optic FA●RB→FB●RA);
//!   * acceptance conditions of the checked constructors as documented;
//!   * where a definition is at hand (model.rs) the result is additionally compared with it up to
//!     isomorphism, so any conforming numbering is accepted.
//! Check modules: c05/ctors.rs, c05/prims.rs, c05/ops.rs, c05/functors.rs, c05/edit.rs.
use crate::ctx::Ctx;
use serde_json::Value;

mod ctors;
mod edit;
mod functors;
mod ops;
mod prims;
mod util;

type Check = fn(&mut Ctx, &Value);
const CHECKS: &[(&str, Check)] = &[
    ("ff_new", ctors::chk_ff_new),
    ("ic_new", ctors::chk_ic_new),
    ("ops_new", ctors::chk_ops_new),
    ("hg_new", ctors::chk_hg_new),
    ("oh_new", ctors::chk_oh_new),
    ("spider_new", ctors::chk_spider_new),
    ("ff_build", prims::chk_ff_build),
    ("ff_ops", prims::chk_ff_ops),
    ("ic_ops", prims::chk_ic_ops),
    ("hg_ops", prims::chk_hg_ops),
    ("identity", ops::chk_identity),
    ("twist", ops::chk_twist),
    ("singleton", ops::chk_singleton),
    ("tensor_operations", ops::chk_tensor_operations),
    ("tensor", ops::chk_tensor),
    ("compose", ops::chk_compose),
    ("dagger", ops::chk_dagger),
    ("convert", ops::chk_convert),
    ("strict_functor", functors::chk_strict_functor),
    ("lax_functor", functors::chk_lax_functor),
    ("optic", functors::chk_optic),
    ("lax_edit", edit::chk_lax_edit),
    ("var_build", edit::chk_var_build),
];

pub fn run(ctx: &mut Ctx) {
    if let Some((name, input)) = ctx.replay.clone() {
        for (n, c) in CHECKS {
            if *n == name {
                c(ctx, &input);
            }
        }
        return;
    }
    ctors::run(ctx);
    prims::run(ctx);
    ops::run(ctx);
    functors::run(ctx);
    edit::run(ctx);
    ctx.notes.push(
        "rule: (a) fixed corner lists (empty diagram, isolated/dangling nodes, repeated boundary nodes, zero-arity edges, self loops, cycles, \
         parallel edges, interface/incidence multiplicity above the node and edge count, operation-free diagrams with non-identity wiring, pending \
         identifications incl. reflexive/repeated/chains, 64 nodes merged in binomial-tree order, 32+32 boundary nodes merged in binomial-tree order, \
         object images of length 0/1/2 mixed) crossed with each other; (b) exhaustive: finite-function tables of length<=3 over 0..=3 x targets 0..=4; \
         segment-size lists of length<=3 over 0..=2 x value counts x declared targets sum-1..sum+3; count triples 0..=3 for operation batches; \
         (|x|,|w|,#src lists,#tgt lists,s.target,t.target) in 0..=2^4 x 0..=3^2 for hypergraphs; (nodes,s.target,t.target) for open hypergraphs and spiders; \
         all label lists of length<=3 (identity) and pairs of lists (twist, singleton); batches of <=3 operations with arities 0..=2; all diagrams \
         with <=1 node (quick) / <=2 nodes (thorough), <=1 edge, lists of length<=1, \
         unary and in pairs; (c) seeded random: bounds TINY(2 nodes,1 edge,arity 2,iface 2), SM(3,2,2,3), MD(5,3,3,5), WIDE(2 nodes,2 edges,arity 5,iface 6), \
         3 node labels, edge labels 10..=12, <=3 pending identifications per operand, edit scripts of 1..=8 steps, Var terms of <=4 operations. \
         non-trivial = per check: non-empty table / at least one segment / diagram with a node and an edge or interface (both operands for binary \
         checks, composable for compose, source type != target type for dagger, some object image of length != 1 for functors, at least one edge for \
         optics, >=2 steps for edit scripts)"
            .into(),
    );
}
