//! Plain-loop oracles written from the definitions (part of the C20 check).
use super::backend::{apply_op, FSpec, OSpec};
use crate::model::{self, M};

/// image of a diagram under the strict hypergraph functor that sends node label l to the list
/// obj(l) and the generator (x : a -> b) to the diagram tmpl(x, a, b) : obj*(a) -> obj*(b):
/// expand every node into its list of image nodes, replace every hyperedge by a fresh copy of
/// its template and glue the template's boundary onto the expanded incidence lists.
pub fn apply_templates(f: &M, obj: &dyn Fn(u8) -> Vec<u8>, tmpl: &dyn Fn(u8, &[u8], &[u8]) -> M) -> M {
    let mut w: Vec<u8> = vec![];
    let mut off = vec![];
    let mut len = vec![];
    for &l in &f.w {
        let o = obj(l);
        off.push(w.len());
        len.push(o.len());
        w.extend(o);
    }
    let exp = |list: &Vec<usize>| -> Vec<usize> { list.iter().flat_map(|&v| off[v]..off[v] + len[v]).collect() };
    let mut big = M { w, x: vec![], src: vec![], tgt: vec![], s: exp(&f.s), t: exp(&f.t) };
    let mut pairs = vec![];
    for e in 0..f.x.len() {
        let a: Vec<u8> = f.src[e].iter().map(|&v| f.w[v]).collect();
        let b: Vec<u8> = f.tgt[e].iter().map(|&v| f.w[v]).collect();
        let t = tmpl(f.x[e], &a, &b);
        let base = big.w.len();
        big.w.extend(t.w.iter().cloned());
        for j in 0..t.x.len() {
            big.x.push(t.x[j]);
            big.src.push(t.src[j].iter().map(|&v| v + base).collect());
            big.tgt.push(t.tgt[j].iter().map(|&v| v + base).collect());
        }
        let es = exp(&f.src[e]);
        let et = exp(&f.tgt[e]);
        assert_eq!(es.len(), t.s.len(), "template source arity");
        assert_eq!(et.len(), t.t.len(), "template target arity");
        for (p, &v) in es.iter().enumerate() {
            pairs.push((v, base + t.s[p]));
        }
        for (p, &v) in et.iter().enumerate() {
            pairs.push((v, base + t.t[p]));
        }
    }
    model::quotient(&big, &pairs).expect("templates are well typed").0
}

pub fn functor_image(spec: &FSpec, f: &M) -> M {
    if spec.policy == 255 {
        return f.clone();
    }
    apply_templates(f, &|l| spec.obj(l), &|x, a, b| spec.template(x, a, b))
}

/// the optic image of one generator x : a -> b, with boundary
/// (F a_0 ● R a_0 ● F a_1 ● R a_1 ...) -> (F b_0 ● R b_0 ● ...):
/// the forward operation F(a) -> F(b) ● M, the reverse operation M ● R(b) -> R(a)
pub fn optic_template(sp: &OSpec, x: u8, a: &[u8], b: &[u8]) -> M {
    let mut w: Vec<u8> = vec![];
    let block = |labels: Vec<u8>, w: &mut Vec<u8>| -> Vec<usize> {
        let r: Vec<usize> = (w.len()..w.len() + labels.len()).collect();
        w.extend(labels);
        r
    };
    let fa: Vec<Vec<usize>> = a.iter().map(|&l| block(sp.f(l), &mut w)).collect();
    let ra: Vec<Vec<usize>> = a.iter().map(|&l| block(sp.r(l), &mut w)).collect();
    let fb: Vec<Vec<usize>> = b.iter().map(|&l| block(sp.f(l), &mut w)).collect();
    let rb: Vec<Vec<usize>> = b.iter().map(|&l| block(sp.r(l), &mut w)).collect();
    let m = block(sp.residual(x), &mut w);
    let cat = |bs: &Vec<Vec<usize>>| -> Vec<usize> { bs.iter().flatten().cloned().collect() };
    let inter = |p: &Vec<Vec<usize>>, q: &Vec<Vec<usize>>| -> Vec<usize> { p.iter().zip(q.iter()).flat_map(|(u, v)| u.iter().chain(v.iter()).cloned().collect::<Vec<_>>()).collect() };
    M {
        w,
        x: vec![x, x ^ 0x80],
        src: vec![cat(&fa), [m.clone(), cat(&rb)].concat()],
        tgt: vec![[cat(&fb), m.clone()].concat(), cat(&ra)],
        s: inter(&fa, &ra),
        t: inter(&fb, &rb),
    }
}

pub fn optic_image(sp: &OSpec, f: &M) -> M {
    apply_templates(f, &|l| [sp.f(l), sp.r(l)].concat(), &|x, a, b| optic_template(sp, x, a, b))
}

/// the adapted optic image has the same hypergraph, with boundary F(A) ● R(B) -> F(B) ● R(A)
pub fn optic_adapted(sp: &OSpec, f: &M) -> M {
    let img = optic_image(sp, f);
    // positions inside the interleaved boundary lists
    let split = |iface: &Vec<usize>, labels: &Vec<u8>| -> (Vec<usize>, Vec<usize>) {
        let (mut fw, mut rv) = (vec![], vec![]);
        let mut p = 0;
        for &l in labels {
            let (nf, nr) = (sp.f(l).len(), sp.r(l).len());
            fw.extend_from_slice(&iface[p..p + nf]);
            rv.extend_from_slice(&iface[p + nf..p + nf + nr]);
            p += nf + nr;
        }
        (fw, rv)
    };
    let (fa, ra) = split(&img.s, &f.source_type());
    let (fb, rb) = split(&img.t, &f.target_type());
    let mut out = img.clone();
    out.s = [fa, rb].concat();
    out.t = [fb, ra].concat();
    out
}

/// operation e precedes e' once for every (target position of e, source position of e') on the same node
pub fn op_arcs(f: &M) -> Vec<(usize, usize)> {
    let mut arcs = vec![];
    for e in 0..f.x.len() {
        for &v in &f.tgt[e] {
            for e2 in 0..f.x.len() {
                for &u in &f.src[e2] {
                    if u == v {
                        arcs.push((e, e2));
                    }
                }
            }
        }
    }
    arcs
}
pub fn node_arcs(f: &M) -> Vec<(usize, usize)> {
    let mut arcs = vec![];
    for e in 0..f.x.len() {
        for &u in &f.src[e] {
            for &v in &f.tgt[e] {
                arcs.push((u, v));
            }
        }
    }
    arcs
}

/// rounds of "remove everything without a remaining predecessor": (round of each vertex or 0, unvisited flag)
pub fn rounds(n: usize, arcs: &[(usize, usize)]) -> (Vec<usize>, Vec<usize>) {
    let mut layer = vec![0usize; n];
    let mut left = vec![1usize; n];
    let mut depth = 0;
    loop {
        let ready: Vec<usize> = (0..n).filter(|&v| left[v] == 1 && arcs.iter().all(|&(a, b)| b != v || left[a] == 0)).collect();
        if ready.is_empty() {
            break;
        }
        for &v in &ready {
            layer[v] = depth;
        }
        for &v in &ready {
            left[v] = 0;
        }
        depth += 1;
    }
    (layer, left)
}

/// reachability by paths of length >= 1
pub fn reach_plus(n: usize, arcs: &[(usize, usize)]) -> Vec<Vec<bool>> {
    let mut r = vec![vec![false; n]; n];
    for &(a, b) in arcs {
        r[a][b] = true;
    }
    for k in 0..n {
        for i in 0..n {
            if r[i][k] {
                for j in 0..n {
                    if r[k][j] {
                        r[i][j] = true;
                    }
                }
            }
        }
    }
    r
}
pub fn acyclic(n: usize, arcs: &[(usize, usize)]) -> bool {
    let r = reach_plus(n, arcs);
    (0..n).all(|v| !r[v][v])
}

/// documented definition: both interface maps injective; in-degree(v) = 0 if v is an input else 1;
/// out-degree(v) = 0 if v is an output else 1
pub fn monogamous(f: &M) -> bool {
    let n = f.w.len();
    let count = |l: &Vec<usize>, v: usize| l.iter().filter(|&&u| u == v).count();
    (0..n).all(|v| {
        let ins = count(&f.s, v);
        let outs = count(&f.t, v);
        let indeg: usize = f.tgt.iter().map(|l| count(l, v)).sum();
        let outdeg: usize = f.src.iter().map(|l| count(l, v)).sum();
        ins <= 1 && outs <= 1 && indeg == (if ins == 1 { 0 } else { 1 }) && outdeg == (if outs == 1 { 0 } else { 1 })
    })
}

/// every node and every operation-output position / input position is a "writer"; the value of an
/// evaluation is determined by the definition iff no node has two writers
pub fn single_writer(f: &M) -> bool {
    let n = f.w.len();
    let mut writers = vec![0usize; n];
    for &v in &f.s {
        writers[v] += 1;
    }
    for l in &f.tgt {
        for &v in l {
            writers[v] += 1;
        }
    }
    writers.iter().all(|&c| c <= 1)
}

/// evaluation by definition (for single-writer diagrams): None iff the operations cannot be
/// ordered; otherwise the value of every output node, unwritten nodes holding the default 0
pub fn eval(f: &M, inputs: &[i64]) -> Option<Vec<i64>> {
    if !acyclic(f.x.len(), &op_arcs(f)) {
        return None;
    }
    let n = f.w.len();
    let mut mem: Vec<Option<i64>> = vec![None; n];
    let mut written_by_op = vec![false; n];
    for l in &f.tgt {
        for &v in l {
            written_by_op[v] = true;
        }
    }
    for v in 0..n {
        if !written_by_op[v] {
            mem[v] = Some(0);
        }
    }
    for (i, &v) in f.s.iter().enumerate() {
        mem[v] = Some(inputs[i]);
    }
    let mut done = vec![false; f.x.len()];
    loop {
        let mut progress = false;
        for e in 0..f.x.len() {
            if !done[e] && f.src[e].iter().all(|&v| mem[v].is_some()) {
                let ins: Vec<i64> = f.src[e].iter().map(|&v| mem[v].unwrap()).collect();
                let outs = apply_op(f.x[e], &ins);
                assert_eq!(outs.len(), f.tgt[e].len());
                for (j, &v) in f.tgt[e].iter().enumerate() {
                    mem[v] = Some(outs[j]);
                }
                done[e] = true;
                progress = true;
            }
        }
        if !progress {
            break;
        }
    }
    Some(f.t.iter().map(|&v| mem[v].expect("acyclic single-writer diagram evaluates every node")).collect())
}

/// naturality of (w, x) : g -> h by definition
pub fn arrow_valid(g: &M, h: &M, w: &[usize], x: &[usize]) -> bool {
    let mapw = |l: &Vec<usize>| -> Vec<usize> { l.iter().map(|&v| w[v]).collect() };
    (0..g.w.len()).all(|v| g.w[v] == h.w[w[v]]) && (0..g.x.len()).all(|e| g.x[e] == h.x[x[e]] && mapw(&g.src[e]) == h.src[x[e]] && mapw(&g.tgt[e]) == h.tgt[x[e]])
}
pub fn injective(l: &[usize]) -> bool {
    (0..l.len()).all(|i| (0..i).all(|j| l[i] != l[j]))
}
/// convex: injective, and no directed path of the target that starts and ends at selected nodes
/// uses a hyperedge outside the selection
pub fn convex(h: &M, w: &[usize], x: &[usize]) -> bool {
    if !injective(w) || !injective(x) {
        return false;
    }
    let n = h.w.len();
    let all = node_arcs(h);
    let r = reach_plus(n, &all);
    let reach0 = |a: usize, b: usize| a == b || r[a][b];
    for e in 0..h.x.len() {
        if x.contains(&e) {
            continue;
        }
        for &u in &h.src[e] {
            for &v in &h.tgt[e] {
                // an outside arc u -> v lying on a path selected ~> u -> v ~> selected
                if w.iter().any(|&a| reach0(a, u)) && w.iter().any(|&b| reach0(v, b)) {
                    return false;
                }
            }
        }
    }
    true
}

pub fn sorted(mut v: Vec<usize>) -> Vec<usize> {
    v.sort();
    v
}
pub fn sorted_rows(rows: &[Vec<usize>]) -> Vec<Vec<usize>> {
    rows.iter().map(|r| sorted(r.clone())).collect()
}
/// converse of a list-of-lists relation X -> Q* as sorted rows Q -> X*
pub fn converse(rel: &[Vec<usize>], q: usize) -> Vec<Vec<usize>> {
    let mut out = vec![vec![]; q];
    for (x, l) in rel.iter().enumerate() {
        for &v in l {
            out[v].push(x);
        }
    }
    sorted_rows(&out)
}
pub fn node_adjacency(f: &M) -> Vec<Vec<usize>> {
    let mut out = vec![vec![]; f.w.len()];
    for (u, v) in node_arcs(f) {
        out[u].push(v);
    }
    sorted_rows(&out)
}
pub fn op_adjacency(f: &M) -> Vec<Vec<usize>> {
    let mut out = vec![vec![]; f.x.len()];
    for (a, b) in op_arcs(f) {
        out[a].push(b);
    }
    sorted_rows(&out)
}
/// do two class assignments describe the same partition into k classes (each numbered onto 0..k)?
pub fn same_partition(a: &[usize], ka: usize, b: &[usize], kb: usize) -> bool {
    if a.len() != b.len() || ka != kb {
        return false;
    }
    let mut fwd = vec![usize::MAX; ka];
    let mut bwd = vec![usize::MAX; kb];
    for i in 0..a.len() {
        if a[i] >= ka || b[i] >= kb {
            return false;
        }
        if fwd[a[i]] == usize::MAX && bwd[b[i]] == usize::MAX {
            fwd[a[i]] = b[i];
            bwd[b[i]] = a[i];
        } else if fwd[a[i]] != b[i] || bwd[b[i]] != a[i] {
            return false;
        }
    }
    fwd.iter().all(|&c| c != usize::MAX)
}
