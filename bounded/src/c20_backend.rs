//! The same generic library algorithms instantiated on two backends (VecKind, AdvKind) behind one
//! plain-data interface (part of the C20 check).
use super::adv::{adv, mix, AdvKind};
use crate::model::{self, M};
use open_hypergraphs::array::vec::{VecArray, VecKind};

// ------------------------------------------------------------------------------------------------
// raw, backend-independent dump of a strict open hypergraph + deep well-formedness on it
// ------------------------------------------------------------------------------------------------
#[derive(Clone, Debug, PartialEq)]
pub struct RawIC {
    pub sizes: Vec<usize>,
    pub src_target: usize,
    pub vals: Vec<usize>,
    pub val_target: usize,
}
#[derive(Clone, Debug, PartialEq)]
pub struct Raw {
    pub w: Vec<u8>,
    pub x: Vec<u8>,
    pub hs: RawIC,
    pub ht: RawIC,
    pub s: Vec<usize>,
    pub s_target: usize,
    pub t: Vec<usize>,
    pub t_target: usize,
}

pub fn ric_wf(c: &RawIC, segs: Option<usize>, cod: Option<usize>) -> Result<Vec<Vec<usize>>, String> {
    let sum: usize = c.sizes.iter().sum();
    if c.src_target != sum + 1 {
        return Err(format!("sources.target {} != sum of sizes {} + 1", c.src_target, sum));
    }
    if sum != c.vals.len() {
        return Err(format!("sum of sizes {} != values length {}", sum, c.vals.len()));
    }
    if let Some(k) = segs {
        if c.sizes.len() != k {
            return Err(format!("{} segments, expected {}", c.sizes.len(), k));
        }
    }
    if let Some(n) = cod {
        if c.val_target != n {
            return Err(format!("values.target {} != {}", c.val_target, n));
        }
    }
    if let Some(v) = c.vals.iter().find(|&&v| v >= c.val_target) {
        return Err(format!("value {} out of range {}", v, c.val_target));
    }
    Ok(model::split(&c.sizes, &c.vals).unwrap())
}

pub fn raw_wf(f: &Raw) -> Result<M, String> {
    let n = f.w.len();
    let k = f.x.len();
    let src = ric_wf(&f.hs, Some(k), Some(n)).map_err(|e| format!("h.s: {}", e))?;
    let tgt = ric_wf(&f.ht, Some(k), Some(n)).map_err(|e| format!("h.t: {}", e))?;
    if f.s_target != n {
        return Err(format!("s.target {} != nodes {}", f.s_target, n));
    }
    if f.t_target != n {
        return Err(format!("t.target {} != nodes {}", f.t_target, n));
    }
    if f.s.iter().chain(f.t.iter()).any(|&v| v >= n) {
        return Err("interface entry out of range".into());
    }
    Ok(M { w: f.w.clone(), x: f.x.clone(), src, tgt, s: f.s.clone(), t: f.t.clone() })
}

// ------------------------------------------------------------------------------------------------
// plain specifications of the functors used (shared by both backends and by the oracle)
// ------------------------------------------------------------------------------------------------
/// a strict hypergraph functor given by an object table (label -> list of labels) and a rule
/// sending every operation to a small template diagram of type F(a) -> F(b)
#[derive(Clone, Debug)]
pub struct FSpec {
    pub obj: Vec<Vec<u8>>,
    pub policy: usize,
}
impl FSpec {
    pub fn obj(&self, l: u8) -> Vec<u8> {
        self.obj[l as usize % self.obj.len()].clone()
    }
    pub fn objs(&self, a: &[u8]) -> Vec<u8> {
        a.iter().flat_map(|&l| self.obj(l)).collect()
    }
    /// image of one generator x : a -> b
    pub fn template(&self, x: u8, a: &[u8], b: &[u8]) -> M {
        let fa = self.objs(a);
        let fb = self.objs(b);
        let (na, nb) = (fa.len(), fb.len());
        match (x as usize + self.policy) % 4 {
            // two operations in sequence  F(a) -x-> F(b) -x+1-> F(b)
            1 => M {
                w: [fa.clone(), fb.clone(), fb.clone()].concat(),
                x: vec![x, x.wrapping_add(1)],
                src: vec![(0..na).collect(), (na..na + nb).collect()],
                tgt: vec![(na..na + nb).collect(), (na + nb..na + 2 * nb).collect()],
                s: (0..na).collect(),
                t: (na + nb..na + 2 * nb).collect(),
            },
            // a consumer F(a) -> [] next to a producer [] -> F(b)  (zero-arity sides)
            2 => M {
                w: [fa.clone(), fb.clone()].concat(),
                x: vec![x, x.wrapping_add(2)],
                src: vec![(0..na).collect(), vec![]],
                tgt: vec![vec![], (na..na + nb).collect()],
                s: (0..na).collect(),
                t: (na..na + nb).collect(),
            },
            // pure wiring when the types allow it (operation-free image, merges the operation's wires)
            3 if fa == fb => M { w: fa.clone(), x: vec![], src: vec![], tgt: vec![], s: (0..na).collect(), t: (0..na).collect() },
            _ => model::singleton(x, &fa, &fb),
        }
    }
}

/// an optic: forward / reverse object tables and a residual table (indexed by operation label)
#[derive(Clone, Debug)]
pub struct OSpec {
    pub fobj: Vec<Vec<u8>>,
    pub robj: Vec<Vec<u8>>,
    pub res: Vec<Vec<u8>>,
}
impl OSpec {
    pub fn f(&self, l: u8) -> Vec<u8> {
        self.fobj[l as usize % self.fobj.len()].clone()
    }
    pub fn r(&self, l: u8) -> Vec<u8> {
        self.robj[l as usize % self.robj.len()].clone()
    }
    pub fn fs(&self, a: &[u8]) -> Vec<u8> {
        a.iter().flat_map(|&l| self.f(l)).collect()
    }
    pub fn rs(&self, a: &[u8]) -> Vec<u8> {
        a.iter().flat_map(|&l| self.r(l)).collect()
    }
    pub fn residual(&self, x: u8) -> Vec<u8> {
        self.res[x as usize % self.res.len()].clone()
    }
    /// forward part of generator x : a -> b, of type F(a) -> F(b) ● M(x)
    pub fn fwd(&self, x: u8, a: &[u8], b: &[u8]) -> M {
        model::singleton(x, &self.fs(a), &[self.fs(b), self.residual(x)].concat())
    }
    /// reverse part, of type M(x) ● R(b) -> R(a)
    pub fn rev(&self, x: u8, a: &[u8], b: &[u8]) -> M {
        model::singleton(x ^ 0x80, &[self.residual(x), self.rs(b)].concat(), &self.rs(a))
    }
}

/// the per-operation semantics used by the evaluation checks: label%8 outputs, each a
/// (non-commutative) hash of the label, the ordered inputs and the output position
pub fn apply_op(label: u8, inputs: &[i64]) -> Vec<i64> {
    let mut h = mix(0xE7A1, label as u64);
    for &v in inputs {
        h = mix(h, v as u64);
    }
    (0..(label % 8) as u64).map(|j| (mix(h, j) % 1_000_003) as i64).collect()
}

#[derive(Debug, Clone, PartialEq)]
pub struct ArrowOut {
    pub validate: Result<(), String>,
    pub mono: Option<bool>,
    pub convex: Option<bool>,
}

macro_rules! backend {
    ($m:ident, $K:ty, |$v:ident| $wrap:expr, |$a:ident| $unwrap:expr) => {
        pub mod $m {
            #![allow(dead_code)]
            use super::*;
            use open_hypergraphs::array::*;
            use open_hypergraphs::category::*;
            use open_hypergraphs::finite_function::FiniteFunction;
            use open_hypergraphs::indexed_coproduct::IndexedCoproduct;
            use open_hypergraphs::operations::Operations;
            use open_hypergraphs::semifinite::SemifiniteFunction;
            use open_hypergraphs::strict::functor::identity::Identity;
            use open_hypergraphs::strict::functor::{define_map_arrow, Functor, Optic};
            use open_hypergraphs::strict::hypergraph::arrow::HypergraphArrow;
            use open_hypergraphs::strict::hypergraph::Hypergraph;
            use open_hypergraphs::strict::open_hypergraph::OpenHypergraph;
            use open_hypergraphs::verif_hooks as vh;

            pub type K = $K;
            pub type FF = FiniteFunction<K>;
            pub type IC = IndexedCoproduct<K, FF>;
            pub type SIC<T> = IndexedCoproduct<K, SemifiniteFunction<K, T>>;
            pub type OH = OpenHypergraph<K, u8, u8>;

            pub fn arr<T>($v: Vec<T>) -> <K as ArrayKind>::Type<T> {
                $wrap
            }
            pub fn unarr<T: Clone>($a: &<K as ArrayKind>::Type<T>) -> Vec<T> {
                $unwrap
            }
            pub fn ff(v: &[usize], n: usize) -> FF {
                FiniteFunction::new(arr(v.to_vec()), n).expect("finite function in range")
            }
            pub fn ic(ls: &[Vec<usize>], n: usize) -> IC {
                let sizes: Vec<usize> = ls.iter().map(|l| l.len()).collect();
                let vals: Vec<usize> = ls.iter().flatten().cloned().collect();
                IndexedCoproduct::from_semifinite(SemifiniteFunction(arr(sizes)), ff(&vals, n)).expect("segmented array")
            }
            pub fn sic<T: Clone>(ls: &[Vec<T>]) -> SIC<T> {
                let sizes: Vec<usize> = ls.iter().map(|l| l.len()).collect();
                let vals: Vec<T> = ls.iter().flatten().cloned().collect();
                IndexedCoproduct::from_semifinite(SemifiniteFunction(arr(sizes)), SemifiniteFunction(arr(vals))).expect("segmented array")
            }
            pub fn unsic<T: Clone>(c: &SIC<T>) -> Vec<Vec<T>> {
                let sizes = unarr(&c.sources.table);
                let vals = unarr(&c.values.0);
                let mut out = vec![];
                let mut p = 0;
                for k in sizes {
                    out.push(vals[p..p + k].to_vec());
                    p += k;
                }
                out
            }
            pub fn unic(c: &IC) -> RawIC {
                RawIC { sizes: unarr(&c.sources.table), src_target: c.sources.target, vals: unarr(&c.values.table), val_target: c.values.target }
            }
            pub fn hyper(m: &M) -> Hypergraph<K, u8, u8> {
                let n = m.w.len();
                Hypergraph::new(ic(&m.src, n), ic(&m.tgt, n), SemifiniteFunction(arr(m.w.clone())), SemifiniteFunction(arr(m.x.clone()))).expect("hypergraph")
            }
            pub fn open(m: &M) -> OH {
                let n = m.w.len();
                OpenHypergraph::new(ff(&m.s, n), ff(&m.t, n), hyper(m)).expect("open hypergraph")
            }
            pub fn raw(f: &OH) -> Raw {
                Raw {
                    w: unarr(&f.h.w.0),
                    x: unarr(&f.h.x.0),
                    hs: unic(&f.h.s),
                    ht: unic(&f.h.t),
                    s: unarr(&f.s.table),
                    s_target: f.s.target,
                    t: unarr(&f.t.table),
                    t_target: f.t.target,
                }
            }

            // ---- the operations under test, on plain data -----------------------------------
            pub fn compose(f: &M, g: &M) -> Option<Raw> {
                open(f).compose(&open(g)).map(|r| raw(&r))
            }
            pub fn tensor(f: &M, g: &M) -> Raw {
                raw(&open(f).tensor(&open(g)))
            }
            pub fn types(f: &M) -> (Vec<u8>, Vec<u8>) {
                let o = open(f);
                (unarr(&o.source().0), unarr(&o.target().0))
            }

            pub struct Tmpl(pub FSpec);
            impl Functor<K, u8, u8, u8, u8> for Tmpl {
                fn map_object(&self, a: &SemifiniteFunction<K, u8>) -> SIC<u8> {
                    let ls: Vec<Vec<u8>> = unarr(&a.0).iter().map(|&l| self.0.obj(l)).collect();
                    sic(&ls)
                }
                fn map_operations(&self, ops: Operations<K, u8, u8>) -> OH {
                    let xs = unarr(&ops.x.0);
                    let (a, b) = (unsic(&ops.a), unsic(&ops.b));
                    let mut m = M::empty();
                    for i in 0..xs.len() {
                        m = model::tensor(&m, &self.0.template(xs[i], &a[i], &b[i]));
                    }
                    open(&m)
                }
                fn map_arrow(&self, f: &OH) -> OH {
                    define_map_arrow(self, f)
                }
            }
            /// policy 255 = the library's own Identity functor
            pub fn functor(spec: &FSpec, f: &M) -> Raw {
                let o = open(f);
                if spec.policy == 255 {
                    raw(&<Identity as Functor<K, u8, u8, u8, u8>>::map_arrow(&Identity, &o))
                } else {
                    raw(&Tmpl(spec.clone()).map_arrow(&o))
                }
            }

            pub struct Fwd(pub OSpec);
            pub struct Rev(pub OSpec);
            impl Functor<K, u8, u8, u8, u8> for Fwd {
                fn map_object(&self, a: &SemifiniteFunction<K, u8>) -> SIC<u8> {
                    let ls: Vec<Vec<u8>> = unarr(&a.0).iter().map(|&l| self.0.f(l)).collect();
                    sic(&ls)
                }
                fn map_operations(&self, ops: Operations<K, u8, u8>) -> OH {
                    let xs = unarr(&ops.x.0);
                    let (a, b) = (unsic(&ops.a), unsic(&ops.b));
                    let mut m = M::empty();
                    for i in 0..xs.len() {
                        m = model::tensor(&m, &self.0.fwd(xs[i], &a[i], &b[i]));
                    }
                    open(&m)
                }
                fn map_arrow(&self, f: &OH) -> OH {
                    define_map_arrow(self, f)
                }
            }
            impl Functor<K, u8, u8, u8, u8> for Rev {
                fn map_object(&self, a: &SemifiniteFunction<K, u8>) -> SIC<u8> {
                    let ls: Vec<Vec<u8>> = unarr(&a.0).iter().map(|&l| self.0.r(l)).collect();
                    sic(&ls)
                }
                fn map_operations(&self, ops: Operations<K, u8, u8>) -> OH {
                    let xs = unarr(&ops.x.0);
                    let (a, b) = (unsic(&ops.a), unsic(&ops.b));
                    let mut m = M::empty();
                    for i in 0..xs.len() {
                        m = model::tensor(&m, &self.0.rev(xs[i], &a[i], &b[i]));
                    }
                    open(&m)
                }
                fn map_arrow(&self, f: &OH) -> OH {
                    define_map_arrow(self, f)
                }
            }
            /// returns (optic image, adapted optic image)
            pub fn optic(spec: &OSpec, f: &M) -> (Raw, Raw) {
                let o = open(f);
                let sp = spec.clone();
                let optic: Optic<Fwd, Rev, K, u8, u8, u8, u8> = Optic::new(
                    Fwd(spec.clone()),
                    Rev(spec.clone()),
                    Box::new(move |ops: &Operations<K, u8, u8>| {
                        let ls: Vec<Vec<u8>> = unarr(&ops.x.0).iter().map(|&x| sp.residual(x)).collect();
                        sic(&ls)
                    }),
                );
                let r = optic.map_arrow(&o);
                let ad = optic.adapt(&r, &o.source(), &o.target());
                (raw(&r), raw(&ad))
            }

            /// (layer of each operation, unvisited flag of each operation, operations listed per layer)
            pub fn layer(f: &M) -> (Vec<usize>, Vec<usize>, Vec<Vec<usize>>) {
                let o = open(f);
                let (l, u) = open_hypergraphs::strict::layer::layer(&o);
                let (ls, _) = open_hypergraphs::strict::layer::layered_operations(&o);
                (unarr(&l.table), unarr(&u), ls.iter().map(|a| unarr(a)).collect())
            }
            pub fn eval(f: &M, inputs: &[i64]) -> Option<Vec<i64>> {
                let o = open(f);
                let r = open_hypergraphs::strict::eval::eval::<K, u8, u8, i64>(&o, arr(inputs.to_vec()), |ops, args| {
                    let labels = unarr(&ops.0);
                    let ins = unsic(&args);
                    assert_eq!(labels.len(), ins.len());
                    let outs: Vec<Vec<i64>> = labels.iter().zip(ins.iter()).map(|(&l, i)| apply_op(l, i)).collect();
                    sic(&outs)
                });
                r.map(|a| unarr(&a))
            }
            /// (is_acyclic, is_monogamous)
            pub fn preds(f: &M) -> (bool, bool) {
                let o = open(f);
                (o.is_acyclic(), o.is_monogamous())
            }
            pub fn harrow(g: &M, h: &M, w: &[usize], x: &[usize]) -> ArrowOut {
                let arrow = HypergraphArrow { source: hyper(g), target: hyper(h), w: ff(w, h.w.len()), x: ff(x, h.x.len()) };
                match arrow.validate() {
                    Err(e) => ArrowOut { validate: Err(format!("{:?}", e)), mono: None, convex: None },
                    Ok(a) => ArrowOut { validate: Ok(()), mono: Some(a.is_monomorphism()), convex: Some(a.is_convex_subgraph()) },
                }
            }

            // ---- crate-private building blocks (through the verification hooks) ----------------
            pub fn lists(c: &IC) -> Vec<Vec<usize>> {
                let r = unic(c);
                model::split(&r.sizes, &r.vals).expect("segmented array sizes")
            }
            /// converse of the source incidence, node adjacency, operation adjacency (as lists)
            pub fn adjacency(f: &M) -> (Vec<Vec<usize>>, Vec<Vec<usize>>, Vec<Vec<usize>>) {
                let h = hyper(f);
                (lists(&vh::converse(&h.s)), lists(&vh::node_adjacency(&h)), lists(&vh::operation_adjacency(&h)))
            }
            /// sparse relative indegree of the node adjacency with respect to a node selection: (keys, counts)
            pub fn sparse_indegree(f: &M, sel: &[usize]) -> (Vec<usize>, Vec<usize>) {
                let h = hyper(f);
                let a = vh::node_adjacency(&h);
                let (k, c) = vh::sparse_relative_indegree(&a, &ff(sel, f.w.len()));
                (unarr(&k.table), unarr(&c.table))
            }
            /// kahn on the node adjacency: (order, unvisited)
            pub fn kahn_nodes(f: &M) -> (Vec<usize>, Vec<usize>) {
                let h = hyper(f);
                let (o, u) = vh::kahn(&vh::node_adjacency(&h));
                (unarr(&o), unarr(&u))
            }
            /// coequalizer of two parallel maps k -> n: (class of each element, number of classes)
            pub fn coequalizer(a: &[usize], b: &[usize], n: usize) -> Option<(Vec<usize>, usize)> {
                ff(a, n).coequalizer(&ff(b, n)).map(|q| (unarr(&q.table), q.target))
            }
            /// universal map of labels along a (not necessarily surjective) map q : n -> k
            pub fn universal(q: &[usize], k: usize, labels: &[u8]) -> Option<Vec<u8>> {
                open_hypergraphs::finite_function::coequalizer_universal::<K, u8>(&ff(q, k), &arr(labels.to_vec())).map(|a| unarr(&a))
            }
            pub fn injective(q: &[usize], k: usize) -> bool {
                ff(q, k).is_injective()
            }
        }
    };
}

backend!(vk, VecKind, |v| VecArray(v), |a| a.0.clone());
backend!(ak, AdvKind, |v| adv(v), |a| a.0 .0.clone());
