//! C12 — functor application is the generator-wise substitution it is defined by.
//!
//! Oracle (`subst`): written from the statement.  Every node i of the argument becomes a block of
//! |F(w_i)| fresh nodes labelled F(w_i); both interfaces and every source/target list are expanded
//! block by block; for every hyperedge a disjoint copy of the image of its operation is added and
//! its j-th input (output) is identified with the j-th node of the expanded source (target) list;
//! the identifications are closed naively (`model::quotient`).  The library result is compared with
//! a witness-producing isomorphism search (`model::iso`), so any numbering of nodes/edges passes.
//!
//! A functor is a *table*: object map `obj[label] -> list of labels`, operation map
//! `(op label, source type, target type) -> diagram (+ optional pending unifications)`, recorded in
//! the JSON input so that a failing input can be replayed.
use crate::ctx::{guard, Ctx, Rng};
use crate::model::*;
use open_hypergraphs::array::vec::*;
use open_hypergraphs::finite_function::FiniteFunction;
use open_hypergraphs::indexed_coproduct::IndexedCoproduct;
use open_hypergraphs::lax;
use open_hypergraphs::lax::functor as lf;
use open_hypergraphs::operations::Operations;
use open_hypergraphs::semifinite::SemifiniteFunction;
use open_hypergraphs::strict::functor as sfun;
use open_hypergraphs::verif_hooks as hooks;
use serde_json::{json, Value};

type Check = fn(&mut Ctx, &Value);
const CHECKS: &[(&str, Check)] = &[
    ("map_arrow_lax", chk_map_arrow_lax),
    ("map_arrow_strict", chk_map_arrow_strict),
    ("pieces", chk_pieces),
    ("identity", chk_identity),
    ("functorial", chk_functorial),
];

pub type SemIC = IndexedCoproduct<VecKind, SF<u8>>;
pub type Sig = (u8, Vec<u8>, Vec<u8>);

// ------------------------------------------------------------------------------------------------
// table functors
// ------------------------------------------------------------------------------------------------
#[derive(Clone, Debug)]
pub struct OpImg {
    pub x: u8,
    pub a: Vec<u8>,
    pub b: Vec<u8>,
    pub m: M,
    /// pending unifications the lax image is returned with
    pub q: Vec<(usize, usize)>,
}

#[derive(Clone, Debug)]
pub struct Fun {
    pub obj: Vec<Vec<u8>>,
    pub ops: Vec<OpImg>,
}

pub fn pairs_json(q: &[(usize, usize)]) -> Value {
    json!(q.iter().map(|&(a, b)| vec![a, b]).collect::<Vec<_>>())
}
pub fn pairs_from_json(v: &Value) -> Option<Vec<(usize, usize)>> {
    if v.is_null() {
        return Some(vec![]);
    }
    v.as_array()?
        .iter()
        .map(|p| {
            let p = p.as_array()?;
            if p.len() != 2 {
                return None;
            }
            Some((p[0].as_u64()? as usize, p[1].as_u64()? as usize))
        })
        .collect()
}
fn u8s(v: &Value) -> Option<Vec<u8>> {
    v.as_array()?.iter().map(|x| x.as_u64().and_then(|y| if y < 256 { Some(y as u8) } else { None })).collect()
}

impl Fun {
    pub fn json(&self) -> Value {
        json!({
            "obj": self.obj,
            "ops": self.ops.iter().map(|o| json!({"x": o.x, "a": o.a, "b": o.b, "m": o.m.json(), "q": pairs_json(&o.q)})).collect::<Vec<_>>(),
        })
    }
    pub fn from_json(v: &Value) -> Option<Fun> {
        let obj = v.get("obj")?.as_array()?.iter().map(u8s).collect::<Option<Vec<_>>>()?;
        let ops = v
            .get("ops")?
            .as_array()?
            .iter()
            .map(|o| Some(OpImg { x: o.get("x")?.as_u64()? as u8, a: u8s(o.get("a")?)?, b: u8s(o.get("b")?)?, m: M::from_json(o.get("m")?)?, q: pairs_from_json(o.get("q").unwrap_or(&Value::Null))? }))
            .collect::<Option<Vec<_>>>()?;
        Some(Fun { obj, ops })
    }
    /// F applied to a list of generating objects (concatenation of the images)
    pub fn fobj(&self, ty: &[u8]) -> Vec<u8> {
        ty.iter().flat_map(|&l| self.obj[l as usize].iter().cloned()).collect()
    }
    pub fn lookup(&self, x: u8, a: &[u8], b: &[u8]) -> Option<&OpImg> {
        self.ops.iter().find(|o| o.x == x && o.a == a && o.b == b)
    }
    /// the image of an operation as a plain diagram (pending unifications of the image applied)
    pub fn image(&self, x: u8, a: &[u8], b: &[u8]) -> Option<M> {
        let o = self.lookup(x, a, b)?;
        quotient(&o.m, &o.q).map(|r| r.0)
    }
    /// every table entry is a diagram of type F(a) -> F(b), and all labels are in the object table
    pub fn well_typed(&self) -> bool {
        let nl = self.obj.len();
        // keys must be unique: the operation map is a function
        for (i, o) in self.ops.iter().enumerate() {
            if self.ops[..i].iter().any(|p| p.x == o.x && p.a == o.a && p.b == o.b) {
                return false;
            }
        }
        self.ops.iter().all(|o| {
            o.a.iter().chain(o.b.iter()).all(|&l| (l as usize) < nl)
                && o.m.valid()
                && o.q.iter().all(|&(u, v)| u < o.m.w.len() && v < o.m.w.len())
                && match quotient(&o.m, &o.q) {
                    None => false,
                    Some((m, _)) => m.source_type() == self.fobj(&o.a) && m.target_type() == self.fobj(&o.b),
                }
        })
    }
    /// the functor is defined on every generator occurring in f
    pub fn covers(&self, f: &M) -> bool {
        f.w.iter().all(|&l| (l as usize) < self.obj.len()) && sigs(&[f]).iter().all(|(x, a, b)| self.lookup(*x, a, b).is_some())
    }
}

impl lf::Functor<u8, u8, u8, u8> for Fun {
    fn map_object(&self, o: &u8) -> impl ExactSizeIterator<Item = u8> {
        self.obj[*o as usize].clone().into_iter()
    }
    fn map_operation(&self, a: &u8, source: &[u8], target: &[u8]) -> LOH {
        let o = self.lookup(*a, source, target).expect("table functor: operation signature not in table");
        to_lax_q(&o.m, &o.q)
    }
    fn map_arrow(&self, f: &LOH) -> LOH {
        lf::dyn_functor::define_map_arrow(self, f)
    }
}

/// the same table as a strict functor, implemented without going through dyn_functor
pub struct SFun(pub Fun);
impl sfun::Functor<VecKind, u8, u8, u8, u8> for SFun {
    fn map_object(&self, a: &SF<u8>) -> SemIC {
        let mut sizes = vec![];
        let mut vals = vec![];
        for &l in a.0 .0.iter() {
            sizes.push(self.0.obj[l as usize].len());
            vals.extend(self.0.obj[l as usize].iter().cloned());
        }
        IndexedCoproduct::from_semifinite(SemifiniteFunction(VecArray(sizes)), SemifiniteFunction(VecArray(vals))).unwrap()
    }
    fn map_operations(&self, ops: Operations<VecKind, u8, u8>) -> SOH {
        let mut acc = M::empty();
        for (x, a, b) in ops.iter() {
            acc = tensor(&acc, &self.0.image(*x, a, b).expect("table functor: operation signature not in table"));
        }
        acc.to_strict()
    }
    fn map_arrow(&self, f: &SOH) -> SOH {
        sfun::define_map_arrow(self, f)
    }
}

pub fn to_lax_q(m: &M, q: &[(usize, usize)]) -> LOH {
    let mut l = m.to_lax();
    for &(u, v) in q {
        l.unify(lax::NodeId(u), lax::NodeId(v));
    }
    l
}

/// the generators (operation label with its source and target type) occurring in the diagrams
pub fn sigs(ms: &[&M]) -> Vec<Sig> {
    let mut out: Vec<Sig> = vec![];
    for m in ms {
        for e in 0..m.x.len() {
            let s: Sig = (m.x[e], m.src[e].iter().map(|&i| m.w[i]).collect(), m.tgt[e].iter().map(|&i| m.w[i]).collect());
            if !out.contains(&s) {
                out.push(s);
            }
        }
    }
    out
}

/// read a lax result: indices in range, pending unifications applied by the reference quotient
pub fn read_lax(r: &LOH) -> Result<M, String> {
    if r.hypergraph.adjacency.len() != r.hypergraph.edges.len() {
        return Err(format!("{} edge labels but {} incidence records", r.hypergraph.edges.len(), r.hypergraph.adjacency.len()));
    }
    if r.hypergraph.quotient.0.len() != r.hypergraph.quotient.1.len() {
        return Err("pending unification lists of different length".into());
    }
    let (m, q) = M::from_lax(r);
    if !m.valid() {
        return Err(format!("node index out of range in {}", m.json()));
    }
    if q.iter().any(|&(u, v)| u >= m.w.len() || v >= m.w.len()) {
        return Err("pending unification out of range".into());
    }
    match quotient(&m, &q) {
        None => Err(format!("pending unifications identify nodes with different labels: {} / {:?}", m.json(), q)),
        Some((mq, _)) => Ok(mq),
    }
}

// ------------------------------------------------------------------------------------------------
// the oracle: generator-wise substitution, from the statement
// ------------------------------------------------------------------------------------------------
/// returns the substituted diagram and, for every input node, the (quotiented) nodes replacing it
pub fn subst_marked(f: &M, fun: &Fun) -> Option<(M, Vec<Vec<usize>>)> {
    let n = f.w.len();
    let mut big = M::empty();
    let mut blocks: Vec<Vec<usize>> = vec![];
    for i in 0..n {
        let img = &fun.obj[f.w[i] as usize];
        let mut b = vec![];
        for &l in img {
            b.push(big.w.len());
            big.w.push(l);
        }
        blocks.push(b);
    }
    let expand = |l: &Vec<usize>| -> Vec<usize> {
        let mut out = vec![];
        for &i in l {
            out.extend(blocks[i].iter().cloned());
        }
        out
    };
    big.s = expand(&f.s);
    big.t = expand(&f.t);
    let mut pairs = vec![];
    for e in 0..f.x.len() {
        let a: Vec<u8> = f.src[e].iter().map(|&i| f.w[i]).collect();
        let b: Vec<u8> = f.tgt[e].iter().map(|&i| f.w[i]).collect();
        let img = fun.image(f.x[e], &a, &b)?;
        let base = big.w.len();
        big.w.extend(img.w.iter().cloned());
        for k in 0..img.x.len() {
            big.x.push(img.x[k]);
            big.src.push(img.src[k].iter().map(|&v| v + base).collect());
            big.tgt.push(img.tgt[k].iter().map(|&v| v + base).collect());
        }
        let es = expand(&f.src[e]);
        let et = expand(&f.tgt[e]);
        if es.len() != img.s.len() || et.len() != img.t.len() {
            return None;
        }
        for j in 0..es.len() {
            pairs.push((es[j], base + img.s[j]));
        }
        for j in 0..et.len() {
            pairs.push((et[j], base + img.t[j]));
        }
    }
    let (m, q) = quotient(&big, &pairs)?;
    let marked = blocks.iter().map(|b| b.iter().map(|&v| q[v]).collect()).collect();
    Some((m, marked))
}

pub fn subst(f: &M, fun: &Fun) -> Option<M> {
    subst_marked(f, fun).map(|r| r.0)
}

// ------------------------------------------------------------------------------------------------
// decoding
// ------------------------------------------------------------------------------------------------
pub struct Input {
    /// the diagram as given (before its own pending unifications)
    pub f: M,
    pub fq: Vec<(usize, usize)>,
    /// the diagram the lax input denotes
    pub fe: M,
    pub fun: Fun,
}

pub fn decode(input: &Value) -> Option<Input> {
    let f = M::from_json(input.get("f")?)?;
    if !f.valid() {
        return None;
    }
    let fq = pairs_from_json(input.get("fq").unwrap_or(&Value::Null))?;
    if fq.iter().any(|&(u, v)| u >= f.w.len() || v >= f.w.len()) {
        return None;
    }
    let fe = quotient(&f, &fq)?.0;
    let fun = Fun::from_json(input.get("F")?)?;
    if !fun.well_typed() || !fun.covers(&fe) {
        return None;
    }
    Some(Input { f, fq, fe, fun })
}

fn type_json(m: &M) -> Value {
    json!({"source": m.source_type(), "target": m.target_type()})
}

/// compare a library image with the oracle: type clause, then isomorphism clause
fn judge(ctx: &mut Ctx, check: &str, input: &Value, fe: &M, fun: &Fun, got: &M) {
    let (fa, fb) = (fun.fobj(&fe.source_type()), fun.fobj(&fe.target_type()));
    if got.source_type() != fa || got.target_type() != fb {
        ctx.fail(check, "C12.type", input, type_json(got), json!({"source": fa, "target": fb}));
    }
    match subst(fe, fun) {
        None => ctx.fail(check, "C12.oracle-defined", input, json!("oracle undefined on a validated input"), json!("defined")),
        Some(e) => {
            if !is_iso(got, &e) {
                ctx.fail(check, "C12.substitution", input, got.json(), e.json());
            }
        }
    }
}

// ------------------------------------------------------------------------------------------------
// checks
// ------------------------------------------------------------------------------------------------
/// input: {"f": model, "fq": pending pairs (optional), "F": functor}
/// lax functor with map_arrow defined through dyn_functor::define_map_arrow
fn chk_map_arrow_lax(ctx: &mut Ctx, input: &Value) {
    let Some(i) = decode(input) else { return };
    ctx.case("map_arrow_lax", input, i.fe.nontrivial());
    let l = to_lax_q(&i.f, &i.fq);
    match guard(|| lf::dyn_functor::define_map_arrow(&i.fun, &l)) {
        Err(p) => ctx.fail("map_arrow_lax", "C12.no-panic", input, json!(format!("panic: {}", p)), json!("a diagram")),
        Ok(r) => match read_lax(&r) {
            Err(why) => ctx.fail("map_arrow_lax", "C12.result-wf", input, json!(why), json!("well-formed diagram")),
            Ok(m) => judge(ctx, "map_arrow_lax", input, &i.fe, &i.fun, &m),
        },
    }
}

/// input as above (fq applied before conversion); strict functor trait + define_map_arrow
fn chk_map_arrow_strict(ctx: &mut Ctx, input: &Value) {
    let Some(i) = decode(input) else { return };
    ctx.case("map_arrow_strict", input, i.fe.nontrivial());
    let sf = i.fe.to_strict();
    let sfn = SFun(i.fun.clone());
    match guard(|| sfun::define_map_arrow(&sfn, &sf)) {
        Err(p) => ctx.fail("map_arrow_strict", "C12.no-panic", input, json!(format!("panic: {}", p)), json!("a diagram")),
        Ok(r) => match strict_wf(&r) {
            Err(why) => ctx.fail("map_arrow_strict", "C12.result-wf", input, json!(why), json!("well-formed diagram")),
            Ok(m) => judge(ctx, "map_arrow_strict", input, &i.fe, &i.fun, &m),
        },
    }
}

fn sem_ic(ls: &[Vec<u8>]) -> SemIC {
    let sizes: Vec<usize> = ls.iter().map(|l| l.len()).collect();
    let vals: Vec<u8> = ls.iter().flatten().cloned().collect();
    IndexedCoproduct::from_semifinite(SemifiniteFunction(VecArray(sizes)), SemifiniteFunction(VecArray(vals))).unwrap()
}

/// segments of a segmented array of labels, read from raw fields
fn sem_segments(c: &SemIC) -> Result<Vec<Vec<u8>>, String> {
    let sizes = &c.sources.table.0;
    let vals = &c.values.0 .0;
    let sum: usize = sizes.iter().sum();
    if c.sources.target != sum + 1 {
        return Err(format!("sources.target {} != sum {} + 1", c.sources.target, sum));
    }
    if sum != vals.len() {
        return Err(format!("sum of sizes {} != number of values {}", sum, vals.len()));
    }
    let mut out = vec![];
    let mut p = 0;
    for &k in sizes {
        out.push(vals[p..p + k].to_vec());
        p += k;
    }
    Ok(out)
}

/// input as above.  The building blocks: generators of a diagram (to_operations), expansion of a
/// node list through the object map (map_half_spider), object map and tensored operation map of
/// the dyn_functor adapter.
fn chk_pieces(ctx: &mut Ctx, input: &Value) {
    let Some(i) = decode(input) else { return };
    ctx.case("pieces", input, i.fe.nontrivial());
    let (f, fun) = (&i.fe, &i.fun);
    let sf = f.to_strict();
    let src_ty: Vec<Vec<u8>> = f.src.iter().map(|l| l.iter().map(|&v| f.w[v]).collect()).collect();
    let tgt_ty: Vec<Vec<u8>> = f.tgt.iter().map(|l| l.iter().map(|&v| f.w[v]).collect()).collect();

    // generators of the diagram
    match guard(|| hooks::to_operations(&sf)) {
        Err(p) => ctx.fail("pieces", "C12.no-panic", input, json!(format!("to_operations panic: {}", p)), json!("operations")),
        Ok(ops) => {
            let got = (ops.x.0 .0.clone(), sem_segments(&ops.a), sem_segments(&ops.b));
            let exp = (f.x.clone(), Ok(src_ty.clone()), Ok(tgt_ty.clone()));
            if got != exp {
                ctx.fail("pieces", "C12.to-operations", input, json!(format!("{:?}", got)), json!(format!("{:?}", exp)));
            }
        }
    }

    // object map of the adapter
    let dynf = lf::dyn_functor::to_dyn_functor(fun.clone());
    let blocks: Vec<Vec<u8>> = f.w.iter().map(|&l| fun.obj[l as usize].clone()).collect();
    let w = SemifiniteFunction::<VecKind, u8>(VecArray(f.w.clone()));
    let fw = match guard(|| sfun::Functor::<VecKind, u8, u8, u8, u8>::map_object(&dynf, &w)) {
        Err(p) => {
            ctx.fail("pieces", "C12.no-panic", input, json!(format!("map_object panic: {}", p)), json!("segmented array"));
            None
        }
        Ok(c) => {
            let got = sem_segments(&c);
            if got != Ok(blocks.clone()) {
                ctx.fail("pieces", "C12.map-object", input, json!(format!("{:?}", got)), json!(blocks));
            }
            Some(c)
        }
    };
    let _ = fw;

    // expansion of node lists through the object map (always fed with the correct object map)
    let fw = sem_ic(&blocks);
    let total: usize = blocks.iter().map(|b| b.len()).sum();
    let mut off = vec![0usize; f.w.len()];
    let mut acc = 0;
    for k in 0..f.w.len() {
        off[k] = acc;
        acc += blocks[k].len();
    }
    let lists: Vec<Vec<usize>> = vec![f.s.clone(), f.t.clone(), f.src.iter().flatten().cloned().collect(), f.tgt.iter().flatten().cloned().collect(), (0..f.w.len()).rev().collect()];
    for l in lists {
        let exp: Vec<usize> = l.iter().flat_map(|&v| (off[v]..off[v] + blocks[v].len())).collect();
        let ff = FiniteFunction::<VecKind>::new(VecArray(l.clone()), f.w.len()).unwrap();
        match guard(|| hooks::map_half_spider(&fw, &ff)) {
            Err(p) => ctx.fail("pieces", "C12.no-panic", input, json!(format!("map_half_spider({:?}) panic: {}", l, p)), json!(exp)),
            Ok(r) => {
                if r.table.0 != exp || r.target != total {
                    ctx.fail("pieces", "C12.expand-list", input, json!({"list": l, "table": r.table.0, "target": r.target}), json!({"table": exp, "target": total}));
                }
            }
        }
    }

    // tensored operation map of the adapter
    let ops = Operations::new(SemifiniteFunction(VecArray(f.x.clone())), sem_ic(&src_ty), sem_ic(&tgt_ty)).unwrap();
    let mut exp = M::empty();
    for e in 0..f.x.len() {
        exp = tensor(&exp, &fun.image(f.x[e], &src_ty[e], &tgt_ty[e]).unwrap());
    }
    match guard(|| sfun::Functor::<VecKind, u8, u8, u8, u8>::map_operations(&dynf, ops)) {
        Err(p) => ctx.fail("pieces", "C12.no-panic", input, json!(format!("map_operations panic: {}", p)), exp.json()),
        Ok(r) => match strict_wf(&r) {
            Err(why) => ctx.fail("pieces", "C12.result-wf", input, json!(why), exp.json()),
            Ok(m) => {
                if !is_iso(&m, &exp) {
                    ctx.fail("pieces", "C12.map-operations", input, m.json(), exp.json());
                }
            }
        },
    }
}

/// input: {"f": model, "fq": pending pairs}.  The identity functors of the library (strict and
/// lax) and the identity table functor return a diagram isomorphic to the argument.
fn chk_identity(ctx: &mut Ctx, input: &Value) {
    let Some(f) = input.get("f").and_then(M::from_json) else { return };
    if !f.valid() {
        return;
    }
    let Some(fq) = pairs_from_json(input.get("fq").unwrap_or(&Value::Null)) else { return };
    if fq.iter().any(|&(u, v)| u >= f.w.len() || v >= f.w.len()) {
        return;
    }
    let Some((fe, _)) = quotient(&f, &fq) else { return };
    ctx.case("identity", input, fe.nontrivial());
    let sf = fe.to_strict();
    match guard(|| <sfun::identity::Identity as sfun::Functor<VecKind, u8, u8, u8, u8>>::map_arrow(&sfun::identity::Identity, &sf)) {
        Err(p) => ctx.fail("identity", "C12.no-panic", input, json!(format!("strict Identity panic: {}", p)), fe.json()),
        Ok(r) => match strict_wf(&r) {
            Err(why) => ctx.fail("identity", "C12.result-wf", input, json!(why), fe.json()),
            Ok(m) => {
                if !is_iso(&m, &fe) {
                    ctx.fail("identity", "C12.identity-functor-strict", input, m.json(), fe.json());
                }
            }
        },
    }
    let l = to_lax_q(&f, &fq);
    match guard(|| <lf::dyn_functor::Identity as lf::Functor<u8, u8, u8, u8>>::map_arrow(&lf::dyn_functor::Identity, &l)) {
        Err(p) => ctx.fail("identity", "C12.no-panic", input, json!(format!("lax Identity panic: {}", p)), fe.json()),
        Ok(r) => match read_lax(&r) {
            Err(why) => ctx.fail("identity", "C12.result-wf", input, json!(why), fe.json()),
            Ok(m) => {
                if !is_iso(&m, &fe) {
                    ctx.fail("identity", "C12.identity-functor-lax", input, m.json(), fe.json());
                }
            }
        },
    }
    // the identity as a table: A |-> [A], x : a -> b |-> the single operation x : a -> b
    let nl = fe.w.iter().map(|&l| l as usize + 1).max().unwrap_or(0);
    let fun = Fun { obj: (0..nl).map(|l| vec![l as u8]).collect(), ops: sigs(&[&fe]).into_iter().map(|(x, a, b)| OpImg { m: singleton(x, &a, &b), x, a, b, q: vec![] }).collect() };
    match guard(|| lf::dyn_functor::define_map_arrow(&fun, &l)) {
        Err(p) => ctx.fail("identity", "C12.no-panic", input, json!(format!("identity table functor panic: {}", p)), fe.json()),
        Ok(r) => match read_lax(&r) {
            Err(why) => ctx.fail("identity", "C12.result-wf", input, json!(why), fe.json()),
            Ok(m) => {
                if !is_iso(&m, &fe) {
                    ctx.fail("identity", "C12.identity-functor-table", input, m.json(), fe.json());
                }
            }
        },
    }
}

/// input: {"f": model, "g": model, "A": labels, "B": labels, "F": functor}
/// F(id_A) = id_F(A), F(twist(A,B)) = twist(F(A),F(B)), F(f†) = F(f)†, F(f ● g) = F(f) ● F(g) and,
/// when f ; g is defined, F(f ; g) = F(f) ; F(g), all up to isomorphism.  The categorical
/// operations on both sides are the reference ones; only F is the library's.
fn chk_functorial(ctx: &mut Ctx, input: &Value) {
    let (Some(f), Some(g)) = (input.get("f").and_then(M::from_json), input.get("g").and_then(M::from_json)) else { return };
    let (Some(a), Some(b)) = (input.get("A").and_then(u8s), input.get("B").and_then(u8s)) else { return };
    let Some(fun) = input.get("F").and_then(Fun::from_json) else { return };
    if !f.valid() || !g.valid() || !fun.well_typed() || !fun.covers(&f) || !fun.covers(&g) || a.iter().chain(b.iter()).any(|&l| l as usize >= fun.obj.len()) {
        return;
    }
    ctx.case("functorial", input, f.nontrivial() && g.nontrivial());
    let apply = |ctx: &mut Ctx, what: &str, m: &M| -> Option<M> {
        let l = m.to_lax();
        match guard(|| lf::Functor::map_arrow(&fun, &l)) {
            Err(p) => {
                ctx.fail("functorial", "C12.no-panic", input, json!(format!("F({}) panic: {}", what, p)), json!("a diagram"));
                None
            }
            Ok(r) => match read_lax(&r) {
                Err(why) => {
                    ctx.fail("functorial", "C12.result-wf", input, json!(format!("F({}): {}", what, why)), json!("well-formed diagram"));
                    None
                }
                Ok(m) => Some(m),
            },
        }
    };
    let (fa, fb) = (fun.fobj(&a), fun.fobj(&b));
    if let Some(r) = apply(ctx, "id_A", &identity(&a)) {
        if !is_iso(&r, &identity(&fa)) {
            ctx.fail("functorial", "C12.preserves-identity", input, r.json(), identity(&fa).json());
        }
    }
    if let Some(r) = apply(ctx, "twist(A,B)", &twist(&a, &b)) {
        if !is_iso(&r, &twist(&fa, &fb)) {
            ctx.fail("functorial", "C12.preserves-symmetry", input, r.json(), twist(&fa, &fb).json());
        }
    }
    let (Some(ff), Some(fg)) = (apply(ctx, "f", &f), apply(ctx, "g", &g)) else { return };
    if let Some(r) = apply(ctx, "dagger f", &dagger(&f)) {
        if !is_iso(&r, &dagger(&ff)) {
            ctx.fail("functorial", "C12.preserves-dagger", input, r.json(), dagger(&ff).json());
        }
    }
    if let Some(r) = apply(ctx, "f tensor g", &tensor(&f, &g)) {
        if !is_iso(&r, &tensor(&ff, &fg)) {
            ctx.fail("functorial", "C12.preserves-tensor", input, r.json(), tensor(&ff, &fg).json());
        }
    }
    if let Some(h) = compose(&f, &g) {
        if let Some(r) = apply(ctx, "f ; g", &h) {
            match compose(&ff, &fg) {
                None => ctx.fail("functorial", "C12.preserves-composition", input, json!({"F(f)": type_json(&ff), "F(g)": type_json(&fg)}), json!("F(f) ; F(g) defined")),
                Some(e) => {
                    if !is_iso(&r, &e) {
                        ctx.fail("functorial", "C12.preserves-composition", input, r.json(), e.json());
                    }
                }
            }
        }
    }
}

// ------------------------------------------------------------------------------------------------
// generators
// ------------------------------------------------------------------------------------------------
pub const NLABELS: usize = 3;
pub const GEN_SMALL: Bounds = Bounds { nodes: 3, edges: 2, arity: 2, iface: 3, labels: 3 };
pub const GEN_MEDIUM: Bounds = Bounds { nodes: 5, edges: 3, arity: 3, iface: 4, labels: 3 };

/// object map.  mode 0: lengths 0..2 mixed (rarely 3); 1: all length 1 (relabelling); 2: all empty;
/// 3: all length 2; 4: identity; 5: lengths 0/1/2 assigned to labels 0/1/2 in a random order
pub fn gen_obj(r: &mut Rng, mode: usize) -> Vec<Vec<u8>> {
    let lab = |r: &mut Rng| r.below(NLABELS) as u8;
    if mode == 5 {
        let rot = r.below(3);
        return (0..NLABELS).map(|l| (0..(l + rot) % 3).map(|_| lab(r)).collect()).collect();
    }
    (0..NLABELS)
        .map(|l| match mode {
            1 => vec![lab(r)],
            2 => vec![],
            3 => vec![lab(r), lab(r)],
            4 => vec![l as u8],
            _ => {
                let k = if r.chance(1, 10) { 3 } else { r.below(3) };
                (0..k).map(|_| lab(r)).collect()
            }
        })
        .collect()
}

fn pick(r: &mut Rng, m: &mut M, l: u8, fresh_num: usize, fresh_den: usize) -> usize {
    let cands: Vec<usize> = (0..m.w.len()).filter(|&i| m.w[i] == l).collect();
    if cands.is_empty() || r.chance(fresh_num, fresh_den) {
        m.w.push(l);
        m.w.len() - 1
    } else {
        cands[r.below(cands.len())]
    }
}

/// number of image kinds of `gen_image`
pub const KINDS: usize = 7;

/// an image of type fa -> fb.
/// 0 single operation; 1 arbitrary diagram (cycles, sharing, isolated nodes); 2 spider-only;
/// 3 minimal (identity wires when fa == fb, otherwise discard/create; the empty diagram when both
/// types are empty); 4 two operations joined by pending unifications; 5 everything of one label
/// merged into one node; 6 sequential composite with a zero-arity side operation
pub fn gen_image(r: &mut Rng, x: u8, fa: &[u8], fb: &[u8], kind: usize) -> (M, Vec<(usize, usize)>) {
    let y = x.wrapping_add(20);
    match kind {
        0 => (singleton(y, fa, fb), vec![]),
        1 | 2 => {
            let mut m = random_model(r, Bounds { nodes: 3, edges: if kind == 1 { 2 } else { 0 }, arity: 2, iface: 0, labels: NLABELS });
            m.s = vec![];
            m.t = vec![];
            let s: Vec<usize> = fa.iter().map(|&l| pick(r, &mut m, l, 1, 3)).collect();
            let t: Vec<usize> = fb.iter().map(|&l| pick(r, &mut m, l, 1, 3)).collect();
            m.s = s;
            m.t = t;
            (m, vec![])
        }
        3 => {
            if fa == fb && r.chance(2, 3) {
                (identity(fa), vec![])
            } else {
                let (na, nb) = (fa.len(), fb.len());
                (M { w: [fa.to_vec(), fb.to_vec()].concat(), x: vec![], src: vec![], tgt: vec![], s: (0..na).collect(), t: (na..na + nb).collect() }, vec![])
            }
        }
        4 => {
            let mid: Vec<u8> = match r.below(4) {
                0 => fb.to_vec(),
                1 => fa.to_vec(),
                2 => vec![],
                _ => vec![r.below(NLABELS) as u8],
            };
            let g1 = singleton(y, fa, &mid);
            let g2 = singleton(y.wrapping_add(1), &mid, fb);
            let n1 = g1.w.len();
            let mut m = tensor(&g1, &g2);
            m.s = g1.s.clone();
            m.t = g2.t.iter().map(|&v| v + n1).collect();
            let mut q: Vec<(usize, usize)> = g1.t.iter().zip(g2.s.iter()).map(|(&u, &v)| (u, v + n1)).collect();
            if r.chance(1, 2) {
                q.reverse();
            }
            if !q.is_empty() && r.chance(1, 3) {
                let p = q[0];
                q.push((p.1, p.0)); // redundant pair
            }
            (m, q)
        }
        5 => {
            let mut m = M::empty();
            let s: Vec<usize> = fa.iter().map(|&l| pick(r, &mut m, l, 0, 1)).collect();
            let t: Vec<usize> = fb.iter().map(|&l| pick(r, &mut m, l, 0, 1)).collect();
            m.s = s;
            m.t = t;
            (m, vec![])
        }
        _ => {
            let g = compose(&singleton(y, fa, fb), &singleton(y.wrapping_add(1), fb, fb)).unwrap();
            (tensor(&g, &singleton(y.wrapping_add(2), &[], &[])), vec![])
        }
    }
}

/// a functor defined on all generators of the given diagrams
pub fn gen_fun(r: &mut Rng, ms: &[&M], obj_mode: usize, kind: Option<usize>) -> Fun {
    let obj = gen_obj(r, obj_mode);
    let mut fun = Fun { obj, ops: vec![] };
    for (x, a, b) in sigs(ms) {
        let (fa, fb) = (fun.fobj(&a), fun.fobj(&b));
        let k = kind.unwrap_or_else(|| r.below(KINDS));
        let (m, q) = gen_image(r, x, &fa, &fb, k);
        fun.ops.push(OpImg { x, a, b, m, q });
    }
    fun
}

/// the deterministic family used with the exhaustive enumeration: F(0) in {[], [0], [1,0]},
/// F(1) in {[], [1], [0,0]}, F(2) = [2]; image kind 0 single operation, 1 wires/discard, 2 composite
pub fn family_fun(ms: &[&M], i0: usize, i1: usize, kind: usize) -> Fun {
    let o0: [Vec<u8>; 3] = [vec![], vec![0], vec![1, 0]];
    let o1: [Vec<u8>; 3] = [vec![], vec![1], vec![0, 0]];
    let mut fun = Fun { obj: vec![o0[i0].clone(), o1[i1].clone(), vec![2]], ops: vec![] };
    for (x, a, b) in sigs(ms) {
        let (fa, fb) = (fun.fobj(&a), fun.fobj(&b));
        let m = match kind {
            0 => singleton(x + 20, &fa, &fb),
            1 => {
                if fa == fb {
                    identity(&fa)
                } else {
                    M { w: [fa.clone(), fb.clone()].concat(), x: vec![], src: vec![], tgt: vec![], s: (0..fa.len()).collect(), t: (fa.len()..fa.len() + fb.len()).collect() }
                }
            }
            _ => compose(&singleton(x + 20, &fa, &fb), &singleton(x + 21, &fb, &fb)).unwrap(),
        };
        fun.ops.push(OpImg { x, a, b, m, q: vec![] });
    }
    fun
}

/// all lists over 0..n of length <= maxlen
pub fn lists(n: usize, maxlen: usize) -> Vec<Vec<usize>> {
    let mut out: Vec<Vec<usize>> = vec![vec![]];
    let mut layer: Vec<Vec<usize>> = vec![vec![]];
    for _ in 0..maxlen {
        let mut next = vec![];
        for l in &layer {
            for v in 0..n {
                let mut l2 = l.clone();
                l2.push(v);
                next.push(l2);
            }
        }
        out.extend(next.iter().cloned());
        layer = next;
    }
    out
}

/// every diagram with <= nmax nodes labelled 0/1, either no edge or one edge (label 10) with
/// source/target lists of length <= amax, or (if two) two edges (labels 10,10 and 10,11) with lists
/// of length <= 1, and interfaces of length <= imax
pub fn enum_models(nmax: usize, amax: usize, imax: usize, two: bool) -> Vec<M> {
    let mut out = vec![];
    for n in 0..=nmax {
        for code in 0..(1usize << n) {
            let w: Vec<u8> = (0..n).map(|i| ((code >> i) & 1) as u8).collect();
            let mut edge_cfgs: Vec<(Vec<u8>, Vec<Vec<usize>>, Vec<Vec<usize>>)> = vec![(vec![], vec![], vec![])];
            let la = lists(n, amax);
            for s in &la {
                for t in &la {
                    edge_cfgs.push((vec![10], vec![s.clone()], vec![t.clone()]));
                }
            }
            if two {
                let l1 = lists(n, 1);
                for s0 in &l1 {
                    for t0 in &l1 {
                        for s1 in &l1 {
                            for t1 in &l1 {
                                for x1 in [10u8, 11] {
                                    edge_cfgs.push((vec![10, x1], vec![s0.clone(), s1.clone()], vec![t0.clone(), t1.clone()]));
                                }
                            }
                        }
                    }
                }
            }
            let li = lists(n, imax);
            for (x, src, tgt) in &edge_cfgs {
                for s in &li {
                    for t in &li {
                        out.push(M { w: w.clone(), x: x.clone(), src: src.clone(), tgt: tgt.clone(), s: s.clone(), t: t.clone() });
                    }
                }
            }
        }
    }
    out
}

/// 2^k nodes merged pairwise in binomial-tree order by 2^k - 1 edges  x : [l] -> [l]
pub fn binomial_chain(k: usize, label: u8) -> M {
    let n = 1usize << k;
    let mut m = M { w: vec![label; n], x: vec![], src: vec![], tgt: vec![], s: vec![0], t: vec![n - 1] };
    for lvl in 0..k {
        let step = 2usize << lvl;
        let mut i = 0;
        while i < n {
            m.x.push(10);
            // alternate direction so that both "parent under child" and the converse occur
            if (i / step) % 2 == 0 {
                m.src.push(vec![i]);
                m.tgt.push(vec![i + (1 << lvl)]);
            } else {
                m.src.push(vec![i + (1 << lvl)]);
                m.tgt.push(vec![i]);
            }
            i += step;
        }
    }
    m
}

/// fixed corner diagrams for the "quantified over" list (on top of model::corner_models)
pub fn corner_diagrams() -> Vec<M> {
    let mut v = corner_models();
    v.extend(vec![
        // operation-free, non-identity wiring: permutation + copy + discard + isolated node
        M { w: vec![0, 1, 0, 2], x: vec![], src: vec![], tgt: vec![], s: vec![2, 0, 1, 0], t: vec![1, 1, 2] },
        // pure permutation
        M { w: vec![0, 1, 2], x: vec![], src: vec![], tgt: vec![], s: vec![0, 1, 2], t: vec![2, 0, 1] },
        // multiplicity larger than the number of nodes and operations
        M { w: vec![0], x: vec![10], src: vec![vec![0; 5]], tgt: vec![vec![0; 4]], s: vec![0, 0, 0], t: vec![0, 0] },
        M { w: vec![1, 0], x: vec![10, 10], src: vec![vec![0, 1, 0, 1, 0], vec![0, 1, 0, 1, 0]], tgt: vec![vec![1, 1, 1], vec![1, 1, 1]], s: vec![1, 0, 1], t: vec![0, 0] },
        // zero-arity operations next to ordinary ones, first / middle / last
        M { w: vec![0, 1], x: vec![10, 11, 10, 11], src: vec![vec![], vec![0], vec![], vec![]], tgt: vec![vec![], vec![1], vec![], vec![]], s: vec![0], t: vec![1] },
        M { w: vec![0, 1], x: vec![11, 10, 10], src: vec![vec![0], vec![], vec![1]], tgt: vec![vec![1], vec![], vec![]], s: vec![0], t: vec![1] },
        // operation with inputs only / outputs only (source- or target-less), isolated node of every label
        M { w: vec![0, 1, 2, 0, 1, 2], x: vec![10, 11], src: vec![vec![0, 1, 2], vec![]], tgt: vec![vec![], vec![2, 1, 0]], s: vec![], t: vec![] },
        // cyclic: feedback loop through two operations and the boundary
        M { w: vec![0, 1, 0], x: vec![10, 11, 10], src: vec![vec![0], vec![1], vec![2]], tgt: vec![vec![1], vec![0], vec![2]], s: vec![0, 2], t: vec![0, 1] },
        // non-monogamous: a node consumed by three operations and produced by two
        M { w: vec![1, 1, 0], x: vec![10, 10, 11, 11], src: vec![vec![0], vec![0], vec![0, 0], vec![2]], tgt: vec![vec![1], vec![1], vec![2], vec![0]], s: vec![], t: vec![0, 0] },
        // same operation label used at different types
        M { w: vec![0, 1, 2], x: vec![10, 10, 10], src: vec![vec![0], vec![1], vec![0, 1]], tgt: vec![vec![1], vec![2], vec![]], s: vec![0], t: vec![2] },
        // interfaces only on nodes whose label may be erased by the functor
        M { w: vec![0, 0, 1], x: vec![10], src: vec![vec![0, 2]], tgt: vec![vec![2, 1]], s: vec![0, 1], t: vec![1, 0] },
        // only isolated nodes
        M { w: vec![0, 1, 2, 0], x: vec![], src: vec![], tgt: vec![], s: vec![], t: vec![] },
        // nodes, no interface, one closed loop
        M { w: vec![2], x: vec![11], src: vec![vec![0]], tgt: vec![vec![0]], s: vec![], t: vec![] },
    ]);
    v
}

/// fixed object maps used with the corner diagrams
pub fn corner_objs() -> Vec<Vec<Vec<u8>>> {
    vec![
        vec![vec![0], vec![1], vec![2]],          // identity
        vec![vec![1], vec![1], vec![1]],          // collapse all labels
        vec![vec![], vec![], vec![]],             // erase everything
        vec![vec![], vec![1], vec![0, 0]],        // 0 / 1 / 2 mixed
        vec![vec![1, 0], vec![], vec![2]],        // 2 / 0 / 1
        vec![vec![0, 0], vec![1, 0], vec![2, 2]], // all doubled
        vec![vec![0, 1, 2], vec![2], vec![]],     // 3 / 1 / 0
        vec![vec![2], vec![0], vec![1]],          // permutation of labels
    ]
}

pub fn fun_with_obj(r: &mut Rng, ms: &[&M], obj: Vec<Vec<u8>>, kind: Option<usize>) -> Fun {
    let mut fun = Fun { obj, ops: vec![] };
    for (x, a, b) in sigs(ms) {
        let (fa, fb) = (fun.fobj(&a), fun.fobj(&b));
        let k = kind.unwrap_or_else(|| r.below(KINDS));
        let (m, q) = gen_image(r, x, &fa, &fb, k);
        fun.ops.push(OpImg { x, a, b, m, q });
    }
    fun
}

/// pending unifications between nodes of equal label (possibly redundant / reflexive)
pub fn gen_pending(r: &mut Rng, f: &M, max: usize) -> Vec<(usize, usize)> {
    let n = f.w.len();
    if n == 0 {
        return vec![];
    }
    let k = r.range(0, max);
    let mut q = vec![];
    for _ in 0..k {
        let u = r.below(n);
        let cands: Vec<usize> = (0..n).filter(|&v| f.w[v] == f.w[u]).collect();
        q.push((u, cands[r.below(cands.len())]));
    }
    q
}

fn all3(ctx: &mut Ctx, input: &Value) {
    chk_map_arrow_lax(ctx, input);
    chk_map_arrow_strict(ctx, input);
    chk_pieces(ctx, input);
}

pub fn run(ctx: &mut Ctx) {
    if let Some((name, input)) = ctx.replay.clone() {
        for (n, c) in CHECKS {
            if *n == name {
                c(ctx, &input);
            }
        }
        return;
    }
    let thorough = ctx.thorough();

    // (a) corner diagrams x corner object maps x every image kind
    let corners = corner_diagrams();
    let objs = corner_objs();
    for f in &corners {
        chk_identity(ctx, &json!({"f": f.json(), "fq": []}));
        for obj in &objs {
            for kind in 0..KINDS {
                let fun = fun_with_obj(&mut ctx.rng, &[f], obj.clone(), Some(kind));
                all3(ctx, &json!({"f": f.json(), "fq": [], "F": fun.json()}));
            }
        }
    }
    // long chains: 64 = 32+32 nodes merged in binomial-tree order; wires-only images collapse the
    // whole diagram into |F(A)| nodes, single-operation images keep a 63-operation tree
    for k in [1usize, 3, 6] {
        let f = binomial_chain(k, 0);
        chk_identity(ctx, &json!({"f": f.json(), "fq": []}));
        for obj in [vec![vec![0u8], vec![1], vec![2]], vec![vec![1, 0], vec![1], vec![2]], vec![vec![], vec![1], vec![2]], vec![vec![0, 0, 0], vec![1], vec![2]]] {
            for kind in [0usize, 3, 5] {
                let mut fun = Fun { obj: obj.clone(), ops: vec![] };
                let fa = fun.fobj(&[0]);
                let m = match kind {
                    0 => singleton(30, &fa, &fa),
                    3 => identity(&fa),
                    _ => gen_image(&mut ctx.rng, 10, &fa, &fa, 5).0,
                };
                fun.ops.push(OpImg { x: 10, a: vec![0], b: vec![0], m, q: vec![] });
                let input = json!({"f": f.json(), "fq": [], "F": fun.json()});
                chk_map_arrow_lax(ctx, &input);
                chk_map_arrow_strict(ctx, &input);
            }
        }
    }
    // a diagram given with a deep chain of pending unifications (lax input of define_map_arrow)
    {
        let n = 64usize;
        let f = M { w: vec![0; n], x: vec![10], src: vec![vec![0]], tgt: vec![vec![n - 1]], s: vec![5], t: vec![40, 7] };
        let c = binomial_chain(6, 0);
        let fq: Vec<(usize, usize)> = (0..c.x.len()).map(|e| (c.src[e][0], c.tgt[e][0])).collect();
        let fun = Fun { obj: vec![vec![1, 0]], ops: vec![OpImg { x: 10, a: vec![0], b: vec![0], m: singleton(30, &[1, 0], &[1, 0]), q: vec![] }] };
        let input = json!({"f": f.json(), "fq": pairs_json(&fq), "F": fun.json()});
        chk_map_arrow_lax(ctx, &input);
        chk_identity(ctx, &json!({"f": f.json(), "fq": pairs_json(&fq)}));
    }

    // (b) exhaustive small diagrams x the 27 functors of the deterministic family
    let small = if thorough { enum_models(2, 2, 2, false) } else { enum_models(2, 2, 1, false) };
    let small2 = if thorough { enum_models(2, 0, 1, true) } else { vec![] };
    let mut n_exh = 0usize;
    for f in small.iter().chain(small2.iter()) {
        chk_identity(ctx, &json!({"f": f.json(), "fq": []}));
        for i0 in 0..3 {
            for i1 in 0..3 {
                for kind in 0..3 {
                    if f.x.is_empty() && kind > 0 {
                        continue; // no operation: the image kind is irrelevant
                    }
                    let fun = family_fun(&[f], i0, i1, kind);
                    let input = json!({"f": f.json(), "fq": [], "F": fun.json()});
                    chk_map_arrow_lax(ctx, &input);
                    if thorough || n_exh % 4 == 0 {
                        chk_map_arrow_strict(ctx, &input);
                    }
                    n_exh += 1;
                }
            }
        }
    }

    // (c) seeded random diagrams and functors
    let n = ctx.budget(2500, 60000);
    for i in 0..n {
        let b = if i % 4 == 0 { GEN_MEDIUM } else { GEN_SMALL };
        let f = random_model(&mut ctx.rng, b);
        let fq = if i % 5 == 0 { gen_pending(&mut ctx.rng, &f, 3) } else { vec![] };
        let fe = quotient(&f, &fq).unwrap().0;
        let mode = [0usize, 0, 0, 5, 1, 3, 2, 4][ctx.rng.below(8)];
        let kind = if ctx.rng.chance(1, 3) { Some(ctx.rng.below(KINDS)) } else { None };
        let fun = gen_fun(&mut ctx.rng, &[&fe], mode, kind);
        let input = json!({"f": f.json(), "fq": pairs_json(&fq), "F": fun.json()});
        chk_map_arrow_lax(ctx, &input);
        chk_map_arrow_strict(ctx, &input);
        if i % 3 == 0 {
            chk_pieces(ctx, &input);
        }
        if i % 4 == 0 {
            chk_identity(ctx, &json!({"f": f.json(), "fq": pairs_json(&fq)}));
        }
    }
    // operation-free diagrams with arbitrary wiring and many interface entries
    let n = ctx.budget(300, 5000);
    for _ in 0..n {
        let mut f = random_model(&mut ctx.rng, Bounds { nodes: 4, edges: 0, arity: 0, iface: 6, labels: 3 });
        f.x.clear();
        f.src.clear();
        f.tgt.clear();
        let fun = gen_fun(&mut ctx.rng, &[&f], 0, None);
        all3(ctx, &json!({"f": f.json(), "fq": [], "F": fun.json()}));
    }

    // functoriality: corner pairs, then random (composable by construction 2/3 of the time)
    for (i, f) in corners.iter().enumerate() {
        for (j, g) in corners.iter().enumerate() {
            if !thorough && (i + j) % 3 != 0 {
                continue;
            }
            let obj = objs[(i + 2 * j) % objs.len()].clone();
            let fun = fun_with_obj(&mut ctx.rng, &[f, g], obj, None);
            chk_functorial(ctx, &json!({"f": f.json(), "g": g.json(), "A": f.target_type(), "B": g.source_type(), "F": fun.json()}));
        }
    }
    let n = ctx.budget(600, 15000);
    for i in 0..n {
        let b = if i % 4 == 0 { GEN_MEDIUM } else { GEN_SMALL };
        let f = random_model(&mut ctx.rng, b);
        let g = if ctx.rng.chance(2, 3) { random_model_with_source(&mut ctx.rng, b, &f.target_type()) } else { random_model(&mut ctx.rng, b) };
        let mode = [0usize, 0, 5, 1, 3, 2][ctx.rng.below(6)];
        let fun = gen_fun(&mut ctx.rng, &[&f, &g], mode, None);
        let la = ctx.rng.below(4);
        let lb = ctx.rng.below(4);
        let a: Vec<u8> = (0..la).map(|_| ctx.rng.below(NLABELS) as u8).collect();
        let bb: Vec<u8> = (0..lb).map(|_| ctx.rng.below(NLABELS) as u8).collect();
        chk_functorial(ctx, &json!({"f": f.json(), "g": g.json(), "A": a, "B": bb, "F": fun.json()}));
    }

    ctx.notes.push(format!(
        "rule: inputs are (diagram f, optional pending unifications fq, table functor F = object map label->list of labels + \
         operation map (op,source type,target type)->diagram with optional pending unifications); oracle = generator-wise \
         substitution by definition, compared up to isomorphism (model::iso). Enumeration: (a) {} corner diagrams x {} fixed object \
         maps (lengths 0/1/2/3 mixed, erase-all, collapse, permutation) x {} image kinds (single op, arbitrary/cyclic diagram, \
         spider-only, wires/discard/empty, two ops with pending unifications, label-merged, composite + zero-arity op); binomial \
         chains of 2/8/64 nodes (63 ops) with wire-only and single-op images; 64-node lax input with 63 pending unifications; \
         (b) exhaustive: all diagrams with <=2 nodes labelled 0/1, <=1 edge with source/target lists of length <=2, interfaces of \
         length <={} ({} diagrams{}) x 27 family functors (|F(0)|,|F(1)| in 0..2, image single/wires/composite); (c) random: \
         diagrams within (3 nodes,2 edges,arity 2,iface 3,labels 3) and (5,3,3,4,3), object-map lengths 0..3, one fifth given with \
         <=3 pending unifications; operation-free diagrams with interfaces up to 6; functoriality on corner pairs and random \
         (2/3 composable) pairs with random A,B of length <=3. non-trivial = the diagram has a node and an edge or an interface \
         entry (for functoriality: both diagrams).",
        corners.len(),
        objs.len(),
        KINDS,
        if thorough { 2 } else { 1 },
        small.len(),
        if thorough { format!(" + {} two-edge diagrams with arity<=1, iface<=1", small2.len()) } else { String::new() }
    ));
}
