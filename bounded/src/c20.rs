//! C20 — results do not depend on unspecified choices of the array backend.
//!
//! A second array backend `AdvKind` (c20_adv.rs) satisfies the documented array contract but
//! resolves every open choice differently from the Vec backend (argsort tie order, numbering of
//! connected components, key order of sparse_bincount, scatter filler; in the pseudo-random modes
//! also the winner among colliding scatter writes and the order of `zero()`).  Every check builds
//! the SAME plain model on both backends, runs the REAL generic library code on both and compares:
//!   * diagrams: deep well-formedness of the raw fields + isomorphism (model::iso) between the two
//!     backends' results AND with the result computed from the definition by plain loops;
//!   * predicates, layer validity, layerings, evaluation values, error variants: identical on both
//!     backends AND equal to the plain-loop definition.
//! Files: c20_adv.rs (backend), c20_backend.rs (both instantiations behind a plain-data interface),
//! c20_oracle.rs (definitions), c20_gen.rs (generators).
#[path = "c20_adv.rs"]
mod adv;
#[path = "c20_backend.rs"]
mod backend;
#[path = "c20_gen.rs"]
mod gen;
#[path = "c20_oracle.rs"]
mod oracle;

use crate::ctx::{guard, Ctx};
use crate::model::{self, M};
use backend::{ak, raw_wf, vk, FSpec, OSpec, Raw};
use serde_json::{json, Value};
use std::any::Any;
use std::cell::{Cell, RefCell};
use std::sync::atomic::{AtomicBool, AtomicUsize, Ordering};
use std::sync::{Arc, Mutex};
use std::time::{Duration, Instant};

type Check = fn(&mut Ctx, &Value);
const CHECKS: &[(&str, Check)] = &[
    ("compose", chk_compose),
    ("tensor", chk_tensor),
    ("functor", chk_functor),
    ("optic", chk_optic),
    ("layer", chk_layer),
    ("eval", chk_eval),
    ("preds", chk_preds),
    ("arrow", chk_arrow),
    ("graph", chk_graph),
    ("coequalizer", chk_coequalizer),
];

// ------------------------------------------------------------------------------------------------
// decoding helpers
// ------------------------------------------------------------------------------------------------
fn dec_model(v: &Value) -> Option<M> {
    M::from_json(v).filter(|m| m.valid())
}
fn dec_us(v: &Value) -> Option<Vec<usize>> {
    v.as_array()?.iter().map(|x| x.as_u64().map(|y| y as usize)).collect()
}
fn dec_u8s(v: &Value) -> Option<Vec<u8>> {
    v.as_array()?.iter().map(|x| x.as_u64().map(|y| y as u8)).collect()
}
fn dec_i64s(v: &Value) -> Option<Vec<i64>> {
    v.as_array()?.iter().map(|x| x.as_i64()).collect()
}
fn dec_table(v: &Value) -> Option<Vec<Vec<u8>>> {
    let t: Vec<Vec<u8>> = v.as_array()?.iter().map(dec_u8s).collect::<Option<_>>()?;
    if t.is_empty() {
        None
    } else {
        Some(t)
    }
}
fn dec_mode(v: &Value) -> u64 {
    v["mode"].as_u64().unwrap_or(0)
}

// ------------------------------------------------------------------------------------------------
// running library code: on a worker thread, so that a call that never returns (a plausible effect of
// an order-dependent bug inside a `while frontier non-empty` loop) becomes a reported failure too
// ------------------------------------------------------------------------------------------------
type Job = Box<dyn FnOnce() -> Box<dyn Any + Send> + Send>;
/// a one-slot mailbox with spin-then-park waiting (a channel hand-off costs ~50 us per call, which
/// would dominate the run time of these microsecond-sized cases)
struct Mailbox {
    job: Mutex<Option<Job>>,
    result: Mutex<Option<Box<dyn Any + Send>>>,
    has_job: AtomicBool,
    has_result: AtomicBool,
}
struct Worker {
    mb: Arc<Mailbox>,
    handle: std::thread::Thread,
}
thread_local! {
    static WORKER: RefCell<Option<Worker>> = RefCell::new(None);
    static TIMEOUTS: Cell<usize> = Cell::new(0);
}
thread_local! { static STATS: RefCell<std::collections::BTreeMap<&'static str, u64>> = RefCell::new(Default::default()); }
/// coverage counters reported in the notes (how often each outcome class was actually exercised)
fn stat(name: &'static str) {
    STATS.with(|s| *s.borrow_mut().entry(name).or_insert(0) += 1);
}
const CALL_TIMEOUT: Duration = Duration::from_secs(4);

fn spawn_worker() -> Worker {
    let mb = Arc::new(Mailbox { job: Mutex::new(None), result: Mutex::new(None), has_job: AtomicBool::new(false), has_result: AtomicBool::new(false) });
    let m = mb.clone();
    let jh = std::thread::Builder::new()
        .stack_size(64 << 20)
        .spawn(move || loop {
            let mut spins = 0u32;
            while !m.has_job.load(Ordering::Acquire) {
                spins += 1;
                if spins < 20_000 {
                    std::hint::spin_loop();
                } else if Arc::strong_count(&m) == 1 {
                    return; // abandoned
                } else {
                    std::thread::park_timeout(Duration::from_millis(2));
                }
            }
            let job = m.job.lock().unwrap().take().expect("job posted");
            m.has_job.store(false, Ordering::Release);
            let r = job();
            *m.result.lock().unwrap() = Some(r);
            m.has_result.store(true, Ordering::Release);
        })
        .expect("spawn worker");
    Worker { mb, handle: jh.thread().clone() }
}

/// run the same computation on both backends (Vec first, then AdvKind in the given mode);
/// a panic or a call that does not return within CALL_TIMEOUT becomes Err
fn both<C: Clone + Send + 'static, T: Send + 'static>(mode: u64, c: &C, fv: fn(&C) -> T, fa: fn(&C) -> T) -> (Result<T, String>, Result<T, String>) {
    if TIMEOUTS.with(|t| t.get()) >= 3 {
        let e = || Err("not run: three earlier calls did not return".to_string());
        return (e(), e());
    }
    let c = c.clone();
    let stage = Arc::new(AtomicUsize::new(0));
    let st = stage.clone();
    let job: Job = Box::new(move || {
        adv::set_mode(mode);
        let v = guard(|| fv(&c));
        st.store(1, Ordering::SeqCst);
        let a = guard(|| fa(&c));
        Box::new((v, a))
    });
    WORKER.with(|w| {
        let mut w = w.borrow_mut();
        if w.is_none() {
            *w = Some(spawn_worker());
        }
        let wk = w.as_ref().unwrap();
        *wk.mb.job.lock().unwrap() = Some(job);
        wk.mb.has_job.store(true, Ordering::Release);
        wk.handle.unpark();
        let t0 = Instant::now();
        let mut spins = 0u32;
        let got = loop {
            if wk.mb.has_result.load(Ordering::Acquire) {
                wk.mb.has_result.store(false, Ordering::Release);
                break wk.mb.result.lock().unwrap().take();
            }
            spins += 1;
            if spins < 50_000 {
                std::hint::spin_loop();
            } else if t0.elapsed() > CALL_TIMEOUT {
                break None;
            } else {
                std::thread::sleep(Duration::from_micros(100));
            }
        };
        match got {
            Some(b) => *b.downcast::<(Result<T, String>, Result<T, String>)>().expect("result type"),
            None => {
                // abandon the runaway thread (it dies with the process) and start afresh
                *w = None;
                TIMEOUTS.with(|t| t.set(t.get() + 1));
                let e = || Err(format!("no result within {} s (non-termination)", CALL_TIMEOUT.as_secs()));
                if stage.load(Ordering::SeqCst) == 0 {
                    (e(), Err("not reached".to_string()))
                } else {
                    (Err("returned".to_string()), e())
                }
            }
        }
    })
}

/// report a panic on either backend; returns the two values if both returned
fn no_panic<T>(ctx: &mut Ctx, check: &str, op: &str, input: &Value, r: (Result<T, String>, Result<T, String>)) -> Option<(T, T)> {
    match r {
        (Ok(v), Ok(a)) => Some((v, a)),
        (Err(p), _) if p.starts_with("not run:") => None,
        (v, a) => {
            let d = |x: &Result<T, String>| match x {
                Ok(_) => "returned".to_string(),
                Err(p) if p == "returned" || p == "not reached" => p.clone(),
                Err(p) => format!("panic / no return: {}", p),
            };
            ctx.fail(check, &format!("C20.{}-no-panic", op), input, json!({"vec": d(&v), "adv": d(&a)}), json!("both backends return"));
            None
        }
    }
}

/// clauses shared by all diagram-valued operations: both raw results deeply well formed, the two
/// results isomorphic, and the adversarial result isomorphic to the definition
fn compare_diagrams(ctx: &mut Ctx, check: &str, op: &str, input: &Value, rv: &Raw, ra: &Raw, def: Option<&M>) {
    let ma = match raw_wf(ra) {
        Ok(m) => m,
        Err(why) => {
            ctx.fail(check, &format!("C20.{}-wf", op), input, json!({"adv": why, "raw": format!("{:?}", ra)}), json!("well-formed raw fields"));
            return;
        }
    };
    let mv = match raw_wf(rv) {
        Ok(m) => m,
        Err(why) => {
            ctx.fail(check, &format!("C20.{}-wf", op), input, json!({"vec": why, "raw": format!("{:?}", rv)}), json!("well-formed raw fields"));
            return;
        }
    };
    if !model::is_iso(&ma, &mv) {
        ctx.fail(check, &format!("C20.{}-iso-vec", op), input, json!({"adv": ma.json()}), json!({"vec": mv.json()}));
    }
    if let Some(d) = def {
        if !model::is_iso(&ma, d) {
            ctx.fail(check, &format!("C20.{}-iso-def", op), input, json!({"adv": ma.json()}), json!({"definition": d.json()}));
        }
        if !model::is_iso(&mv, d) {
            ctx.fail(check, &format!("C20.{}-iso-def", op), input, json!({"vec": mv.json()}), json!({"definition": d.json()}));
        }
    }
}

// ------------------------------------------------------------------------------------------------
// checks
// ------------------------------------------------------------------------------------------------
/// input: {"f": model, "g": model, "mode": n}
fn chk_compose(ctx: &mut Ctx, input: &Value) {
    let (f, g) = match (dec_model(&input["f"]), dec_model(&input["g"])) {
        (Some(f), Some(g)) => (f, g),
        _ => return,
    };
    let def = model::compose(&f, &g);
    ctx.case("compose", input, def.is_some() && f.nontrivial() && g.nontrivial());
    let r = both(dec_mode(input), &(f.clone(), g.clone()), |c| vk::compose(&c.0, &c.1), |c| ak::compose(&c.0, &c.1));
    let (rv, ra) = match no_panic(ctx, "compose", "compose", input, r) {
        Some(p) => p,
        None => return,
    };
    if rv.is_some() != ra.is_some() || ra.is_some() != def.is_some() {
        ctx.fail("compose", "C20.compose-defined", input, json!({"vec": rv.is_some(), "adv": ra.is_some()}), json!({"definition": def.is_some()}));
        return;
    }
    if let (Some(rv), Some(ra)) = (rv, ra) {
        stat(if rv == ra { "compose: defined, raw results identical" } else { "compose: defined, raw results differ (isomorphic)" });
        compare_diagrams(ctx, "compose", "compose", input, &rv, &ra, def.as_ref());
    } else {
        stat("compose: undefined");
    }
}

/// input: {"f": model, "g": model, "mode": n}
fn chk_tensor(ctx: &mut Ctx, input: &Value) {
    let (f, g) = match (dec_model(&input["f"]), dec_model(&input["g"])) {
        (Some(f), Some(g)) => (f, g),
        _ => return,
    };
    ctx.case("tensor", input, f.nontrivial() && g.nontrivial());
    let r = both(dec_mode(input), &(f.clone(), g.clone()), |c| (vk::tensor(&c.0, &c.1), vk::types(&c.0)), |c| (ak::tensor(&c.0, &c.1), ak::types(&c.0)));
    if let Some(((rv, tv), (ra, ta))) = no_panic(ctx, "tensor", "tensor", input, r) {
        compare_diagrams(ctx, "tensor", "tensor", input, &rv, &ra, Some(&model::tensor(&f, &g)));
        let def = (f.source_type(), f.target_type());
        if tv != def || ta != def {
            ctx.fail("tensor", "C20.types-same", input, json!({"vec": tv, "adv": ta}), json!(def));
        }
    }
}

/// input: {"f": model, "obj": [[labels]..], "policy": n (255 = library Identity functor), "mode": n}
fn chk_functor(ctx: &mut Ctx, input: &Value) {
    let (f, obj, policy) = match (dec_model(&input["f"]), dec_table(&input["obj"]), input["policy"].as_u64()) {
        (Some(f), Some(o), Some(p)) => (f, o, p as usize),
        _ => return,
    };
    let spec = FSpec { obj, policy };
    ctx.case("functor", input, f.nontrivial() && !f.x.is_empty());
    let def = oracle::functor_image(&spec, &f);
    let r = both(dec_mode(input), &(spec.clone(), f.clone()), |c| vk::functor(&c.0, &c.1), |c| ak::functor(&c.0, &c.1));
    if let Some((rv, ra)) = no_panic(ctx, "functor", "functor", input, r) {
        stat(if rv == ra { "functor: raw results identical" } else { "functor: raw results differ (isomorphic)" });
        compare_diagrams(ctx, "functor", "functor", input, &rv, &ra, Some(&def));
    }
}

/// input: {"f": model, "fobj": table, "robj": table, "res": table, "mode": n}
fn chk_optic(ctx: &mut Ctx, input: &Value) {
    let (f, fobj, robj, res) = match (dec_model(&input["f"]), dec_table(&input["fobj"]), dec_table(&input["robj"]), dec_table(&input["res"])) {
        (Some(f), Some(a), Some(b), Some(c)) => (f, a, b, c),
        _ => return,
    };
    let spec = OSpec { fobj, robj, res };
    ctx.case("optic", input, f.nontrivial() && !f.x.is_empty());
    let def = oracle::optic_image(&spec, &f);
    let def_ad = oracle::optic_adapted(&spec, &f);
    let r = both(dec_mode(input), &(spec.clone(), f.clone()), |c| vk::optic(&c.0, &c.1), |c| ak::optic(&c.0, &c.1));
    if let Some(((rv, av), (ra, aa))) = no_panic(ctx, "optic", "optic", input, r) {
        stat(if rv == ra { "optic: raw results identical" } else { "optic: raw results differ (isomorphic)" });
        compare_diagrams(ctx, "optic", "optic", input, &rv, &ra, Some(&def));
        compare_diagrams(ctx, "optic", "optic-adapt", input, &av, &aa, Some(&def_ad));
    }
}

/// input: {"f": model, "mode": n}
fn chk_layer(ctx: &mut Ctx, input: &Value) {
    let f = match dec_model(&input["f"]) {
        Some(f) => f,
        None => return,
    };
    ctx.case("layer", input, f.x.len() >= 2);
    let r = both(dec_mode(input), &f, |c| vk::layer(c), |c| ak::layer(c));
    let ((ov, uv, lv), (oa, ua, la)) = match no_panic(ctx, "layer", "layer", input, r) {
        Some(p) => p,
        None => return,
    };
    let k = f.x.len();
    let arcs = oracle::op_arcs(&f);
    let (od, ud) = oracle::rounds(k, &arcs);
    let valid = |u: &Vec<usize>| u.iter().all(|&b| b == 0);
    let def_valid = oracle::acyclic(k, &arcs);
    stat(if def_valid { "layer: valid" } else { "layer: invalid (cyclic)" });
    if lv != la {
        stat("layer: operations listed in a different order within a layer");
    }
    if valid(&uv) != valid(&ua) || valid(&ua) != def_valid {
        ctx.fail("layer", "C20.layer-validity", input, json!({"vec": valid(&uv), "adv": valid(&ua)}), json!(def_valid));
    }
    if ov != oa || uv != ua {
        ctx.fail("layer", "C20.layer-same", input, json!({"adv": [oa.clone(), ua.clone()]}), json!({"vec": [ov.clone(), uv.clone()]}));
    }
    if oa != od || ua != ud || ov != od || uv != ud {
        ctx.fail("layer", "C20.layer-def", input, json!({"adv": [oa.clone(), ua.clone()], "vec": [ov, uv]}), json!([od, ud]));
    }
    if oa.len() == k && valid(&ua) {
        if let Some(&(a, b)) = arcs.iter().find(|&&(a, b)| oa[a] >= oa[b]) {
            ctx.fail("layer", "C20.layer-compatible", input, json!({"adv_layers": oa.clone(), "arc": [a, b]}), json!("layer(a) < layer(b) for every dependency"));
        }
    }
    // operations listed per layer: the same sets on both backends, and exactly { e | layer(e) = i }
    let norm = |ls: &Vec<Vec<usize>>| -> Vec<Vec<usize>> { ls.iter().map(|l| oracle::sorted(l.clone())).collect() };
    let want: Vec<Vec<usize>> = (0..k).map(|i| (0..k).filter(|&e| od[e] == i).collect()).collect();
    if norm(&lv) != norm(&la) || norm(&la) != want {
        ctx.fail("layer", "C20.layered-operations", input, json!({"adv": la, "vec": lv}), json!(want));
    }
}

/// input: {"f": model whose operation labels satisfy label % 8 = number of targets, "in": [values], "mode": n}
fn chk_eval(ctx: &mut Ctx, input: &Value) {
    let (f, ins) = match (dec_model(&input["f"]), dec_i64s(&input["in"])) {
        (Some(f), Some(i)) => (f, i),
        _ => return,
    };
    if ins.len() != f.s.len() || (0..f.x.len()).any(|e| (f.x[e] % 8) as usize != f.tgt[e].len()) {
        return;
    }
    let determined = oracle::single_writer(&f);
    ctx.case("eval", input, determined && !f.x.is_empty());
    let r = both(dec_mode(input), &(f.clone(), ins.clone()), |c| vk::eval(&c.0, &c.1), |c| ak::eval(&c.0, &c.1));
    let (rv, ra) = match no_panic(ctx, "eval", "eval", input, r) {
        Some(p) => p,
        None => return,
    };
    let def_valid = oracle::acyclic(f.x.len(), &oracle::op_arcs(&f));
    if rv.is_some() != ra.is_some() || ra.is_some() != def_valid {
        ctx.fail("eval", "C20.eval-validity", input, json!({"vec": rv.is_some(), "adv": ra.is_some()}), json!(def_valid));
        return;
    }
    stat(match (determined, def_valid) {
        (true, true) => "eval: single-writer, evaluates",
        (true, false) => "eval: single-writer, cyclic",
        _ => "eval: several writers (validity only)",
    });
    if determined {
        if rv != ra {
            ctx.fail("eval", "C20.eval-same", input, json!({"adv": ra}), json!({"vec": rv}));
        }
        let def = oracle::eval(&f, &ins);
        if ra != def || rv != def {
            ctx.fail("eval", "C20.eval-def", input, json!({"adv": ra, "vec": rv}), json!(def));
        }
    }
}

/// input: {"f": model, "mode": n}
fn chk_preds(ctx: &mut Ctx, input: &Value) {
    let f = match dec_model(&input["f"]) {
        Some(f) => f,
        None => return,
    };
    ctx.case("preds", input, !f.x.is_empty() && !f.w.is_empty());
    let r = both(dec_mode(input), &f, |c| vk::preds(c), |c| ak::preds(c));
    if let Some(((av, mv), (aa, ma))) = no_panic(ctx, "preds", "preds", input, r) {
        let ad = oracle::acyclic(f.w.len(), &oracle::node_arcs(&f));
        let md = oracle::monogamous(&f);
        stat(if ad { "preds: acyclic" } else { "preds: cyclic" });
        stat(if md { "preds: monogamous" } else { "preds: not monogamous" });
        if av != aa || aa != ad {
            ctx.fail("preds", "C20.is-acyclic", input, json!({"vec": av, "adv": aa}), json!(ad));
        }
        if mv != ma || ma != md {
            ctx.fail("preds", "C20.is-monogamous", input, json!({"vec": mv, "adv": ma}), json!(md));
        }
    }
}

/// input: {"g": source hypergraph (model, interfaces ignored), "h": target, "w": node map, "x": operation map, "mode": n}
fn chk_arrow(ctx: &mut Ctx, input: &Value) {
    let (g, h, w, x) = match (dec_model(&input["g"]), dec_model(&input["h"]), dec_us(&input["w"]), dec_us(&input["x"])) {
        (Some(g), Some(h), Some(w), Some(x)) => (g, h, w, x),
        _ => return,
    };
    if w.len() != g.w.len() || x.len() != g.x.len() || w.iter().any(|&v| v >= h.w.len()) || x.iter().any(|&e| e >= h.x.len()) {
        return;
    }
    let (g, h) = (gen::strip_interfaces(&g), gen::strip_interfaces(&h));
    let valid = oracle::arrow_valid(&g, &h, &w, &x);
    ctx.case("arrow", input, valid && !h.x.is_empty() && !w.is_empty());
    let r = both(dec_mode(input), &(g.clone(), h.clone(), w.clone(), x.clone()), |c| vk::harrow(&c.0, &c.1, &c.2, &c.3), |c| ak::harrow(&c.0, &c.1, &c.2, &c.3));
    let (rv, ra) = match no_panic(ctx, "arrow", "arrow", input, r) {
        Some(p) => p,
        None => return,
    };
    if rv.validate != ra.validate || ra.validate.is_ok() != valid {
        ctx.fail("arrow", "C20.arrow-validate", input, json!({"vec": format!("{:?}", rv.validate), "adv": format!("{:?}", ra.validate)}), json!({"natural": valid}));
        return;
    }
    if !valid {
        stat("arrow: not natural");
    }
    if valid {
        let mono = oracle::injective(&w) && oracle::injective(&x);
        if rv.mono != ra.mono || ra.mono != Some(mono) {
            ctx.fail("arrow", "C20.arrow-is-monomorphism", input, json!({"vec": rv.mono, "adv": ra.mono}), json!(mono));
        }
        let convex = oracle::convex(&h, &w, &x);
        stat(if !mono { "arrow: natural, not injective" } else if convex { "arrow: convex sub-hypergraph" } else { "arrow: non-convex sub-hypergraph" });
        if rv.convex != ra.convex || ra.convex != Some(convex) {
            ctx.fail("arrow", "C20.arrow-is-convex-subgraph", input, json!({"vec": rv.convex, "adv": ra.convex}), json!(convex));
        }
    }
}

/// the crate-private building blocks. input: {"f": model, "sel": [nodes], "mode": n}
fn chk_graph(ctx: &mut Ctx, input: &Value) {
    let (f, sel) = match (dec_model(&input["f"]), dec_us(&input["sel"])) {
        (Some(f), Some(s)) => (f, s),
        _ => return,
    };
    // the selection is documented as a subset of the nodes: distinct entries
    if sel.iter().any(|&v| v >= f.w.len()) || !oracle::injective(&sel) {
        return;
    }
    ctx.case("graph", input, !f.x.is_empty() && !f.w.is_empty());
    let r = both(
        dec_mode(input),
        &(f.clone(), sel.clone()),
        |c| (vk::adjacency(&c.0), vk::sparse_indegree(&c.0, &c.1), vk::kahn_nodes(&c.0)),
        |c| (ak::adjacency(&c.0), ak::sparse_indegree(&c.0, &c.1), ak::kahn_nodes(&c.0)),
    );
    let ((adjv, siv, kv), (adja, sia, ka)) = match no_panic(ctx, "graph", "graph", input, r) {
        Some(p) => p,
        None => return,
    };
    let n = f.w.len();
    // converse / adjacency rows are determined as multisets only
    let conv_def = oracle::converse(&f.src, n);
    let na_def = oracle::node_adjacency(&f);
    let oa_def = oracle::op_adjacency(&f);
    for (who, adj) in [("vec", &adjv), ("adv", &adja)] {
        if oracle::sorted_rows(&adj.0) != conv_def {
            ctx.fail("graph", "C20.converse", input, json!({who: adj.0.clone()}), json!(conv_def));
        }
        if oracle::sorted_rows(&adj.1) != na_def {
            ctx.fail("graph", "C20.node-adjacency", input, json!({who: adj.1.clone()}), json!(na_def));
        }
        if oracle::sorted_rows(&adj.2) != oa_def {
            ctx.fail("graph", "C20.operation-adjacency", input, json!({who: adj.2.clone()}), json!(oa_def));
        }
    }
    // sparse relative indegree: distinct keys, count = number of arcs from the selection (with multiplicity)
    let arcs = oracle::node_arcs(&f);
    let mut want: Vec<(usize, usize)> = vec![];
    for v in 0..n {
        let c: usize = sel.iter().map(|&u| arcs.iter().filter(|&&(a, b)| a == u && b == v).count()).sum();
        if c > 0 {
            want.push((v, c));
        }
    }
    for (who, si) in [("vec", &siv), ("adv", &sia)] {
        let mut got: Vec<(usize, usize)> = si.0.iter().cloned().zip(si.1.iter().cloned()).collect();
        got.sort();
        if si.0.len() != si.1.len() || got != want {
            ctx.fail("graph", "C20.sparse-relative-indegree", input, json!({who: [si.0.clone(), si.1.clone()]}), json!(want));
        }
    }
    // kahn on nodes: rounds and unvisited flags are determined
    let (od, ud) = oracle::rounds(n, &arcs);
    if kv != ka || ka != (od.clone(), ud.clone()) {
        ctx.fail("graph", "C20.kahn", input, json!({"vec": [kv.0, kv.1], "adv": [ka.0, ka.1]}), json!([od, ud]));
    }
}

/// input: {"a": [..], "b": [..], "n": n  (parallel maps k -> n),  "q": [..], "k": k, "labels": [..] (q : |labels| -> k), "mode": n}
fn chk_coequalizer(ctx: &mut Ctx, input: &Value) {
    let (a, b, n, q, k, labels) = match (dec_us(&input["a"]), dec_us(&input["b"]), input["n"].as_u64(), dec_us(&input["q"]), input["k"].as_u64(), dec_u8s(&input["labels"])) {
        (Some(a), Some(b), Some(n), Some(q), Some(k), Some(l)) => (a, b, n as usize, q, k as usize, l),
        _ => return,
    };
    if a.iter().chain(b.iter()).any(|&v| v >= n) || q.iter().any(|&v| v >= k) || q.len() != labels.len() || (q.is_empty() && k > 0) {
        return;
    }
    ctx.case("coequalizer", input, !a.is_empty() && n > 1);
    let r = both(
        dec_mode(input),
        &(a.clone(), b.clone(), n, q.clone(), k, labels.clone()),
        |c| (vk::coequalizer(&c.0, &c.1, c.2), vk::universal(&c.3, c.4, &c.5), vk::injective(&c.3, c.4)),
        |c| (ak::coequalizer(&c.0, &c.1, c.2), ak::universal(&c.3, c.4, &c.5), ak::injective(&c.3, c.4)),
    );
    let ((cv, uv, iv), (ca, ua, ia)) = match no_panic(ctx, "coequalizer", "coequalizer", input, r) {
        Some(p) => p,
        None => return,
    };
    // coequalizer: defined iff parallel; the classes of the generated equivalence, numbered onto 0..k in any way
    let parallel = a.len() == b.len();
    if cv.is_some() != parallel || ca.is_some() != parallel {
        ctx.fail("coequalizer", "C20.coequalizer-defined", input, json!({"vec": cv.is_some(), "adv": ca.is_some()}), json!(parallel));
    } else if parallel {
        let pairs: Vec<(usize, usize)> = a.iter().cloned().zip(b.iter().cloned()).collect();
        let (cd, kd) = model::classes(n, &pairs);
        for (who, c) in [("vec", cv.unwrap()), ("adv", ca.unwrap())] {
            if !oracle::same_partition(&c.0, c.1, &cd, kd) {
                ctx.fail("coequalizer", "C20.coequalizer-partition", input, json!({who: [json!(c.0), json!(c.1)]}), json!([cd, kd]));
            }
        }
    }
    // universal map: defined iff labels are constant on the fibres of q; then u[q[i]] = labels[i], length k
    let consistent = (0..q.len()).all(|i| (0..i).all(|j| q[i] != q[j] || labels[i] == labels[j]));
    if uv.is_some() != consistent || ua.is_some() != consistent {
        ctx.fail("coequalizer", "C20.universal-defined", input, json!({"vec": uv.is_some(), "adv": ua.is_some()}), json!(consistent));
    } else if consistent {
        for (who, u) in [("vec", uv.unwrap()), ("adv", ua.unwrap())] {
            if u.len() != k || (0..q.len()).any(|i| u[q[i]] != labels[i]) {
                ctx.fail("coequalizer", "C20.universal-values", input, json!({who: u}), json!("length k and u[q[i]] = labels[i]"));
            }
        }
    }
    let inj = oracle::injective(&q);
    if iv != inj || ia != inj {
        ctx.fail("coequalizer", "C20.is-injective", input, json!({"vec": iv, "adv": ia}), json!(inj));
    }
}

// ------------------------------------------------------------------------------------------------
// enumeration
// ------------------------------------------------------------------------------------------------
fn modes(ctx: &mut Ctx) -> Vec<u64> {
    if ctx.thorough() {
        vec![0, 1, 2, 3 + ctx.rng.below(60) as u64]
    } else {
        vec![0, 1 + ctx.rng.below(8) as u64]
    }
}
fn with_modes(ctx: &mut Ctx, chk: Check, mut input: Value) {
    for m in modes(ctx) {
        input["mode"] = json!(m);
        chk(ctx, &input);
    }
}

fn obj_tables() -> Vec<Vec<Vec<u8>>> {
    vec![
        vec![vec![], vec![5], vec![6, 7]],       // images of length 0 / 1 / 2 mixed
        vec![vec![5, 5], vec![5], vec![]],       // repeated labels, so F(a) = F(b) happens for different a, b
        vec![vec![3], vec![3], vec![3]],         // everything collapses to one label
        vec![vec![], vec![], vec![]],            // everything erased
        vec![vec![0], vec![1], vec![2]],         // identity on objects
    ]
}

fn relabel_ops(ctx: &mut Ctx, f: &mut M) {
    for e in 0..f.x.len() {
        f.x[e] = 10 + ctx.rng.below(4) as u8;
    }
}

pub fn run(ctx: &mut Ctx) {
    if let Some((name, input)) = ctx.replay.clone() {
        for (n, c) in CHECKS {
            if *n == name {
                c(ctx, &input);
            }
        }
        return;
    }
    let thorough = ctx.thorough();
    let corners = gen::corners();

    // ---------------- compose / tensor ----------------
    for f in &corners {
        for g in &corners {
            with_modes(ctx, chk_compose, json!({"f": f.json(), "g": g.json()}));
            if thorough || f.w.len() + g.w.len() <= 3 {
                with_modes(ctx, chk_tensor, json!({"f": f.json(), "g": g.json()}));
            }
        }
        // self-composition with the dagger and with identities always type checks
        with_modes(ctx, chk_compose, json!({"f": f.json(), "g": model::dagger(f).json()}));
        with_modes(ctx, chk_compose, json!({"f": model::identity(&f.source_type()).json(), "g": f.json()}));
        with_modes(ctx, chk_compose, json!({"f": f.json(), "g": model::identity(&f.target_type()).json()}));
    }
    // exhaustive: operation-free diagrams with arbitrary wiring on <= 2 nodes, all composable pairs
    let spiders = gen::tiny_spiders();
    for f in &spiders {
        for g in &spiders {
            if f.t.len() == g.s.len() {
                with_modes(ctx, chk_compose, json!({"f": f.json(), "g": g.json()}));
            }
        }
    }
    // deep union-find trees: 32 + 32 nodes merged in binomial-tree order, and long chains
    for levels in [1usize, 3, 4, 6] {
        for deep in [false, true] {
            for two in [false, true] {
                let (f, g) = gen::binomial_pair(levels, deep, two);
                with_modes(ctx, chk_compose, json!({"f": f.json(), "g": g.json()}));
            }
        }
    }
    for k in [1usize, 7, 33] {
        let (f, g) = gen::chain_pair(k);
        with_modes(ctx, chk_compose, json!({"f": f.json(), "g": g.json()}));
    }
    let n = ctx.budget(2000, 56000);
    for i in 0..n {
        let b = if i % 10 == 9 { gen::LARGE } else if i % 4 == 0 { model::MEDIUM } else { model::SMALL };
        let f = model::random_model(&mut ctx.rng, b);
        let g = if ctx.rng.chance(4, 5) { model::random_model_with_source(&mut ctx.rng, b, &f.target_type()) } else { model::random_model(&mut ctx.rng, b) };
        with_modes(ctx, chk_compose, json!({"f": f.json(), "g": g.json()}));
        if i % 5 == 0 {
            with_modes(ctx, chk_tensor, json!({"f": f.json(), "g": g.json()}));
        }
    }

    // ---------------- functor / optic ----------------
    let tables = obj_tables();
    for f in &corners {
        with_modes(ctx, chk_functor, json!({"f": f.json(), "obj": tables[4], "policy": 255}));
        for (ti, t) in tables.iter().enumerate() {
            for policy in 0..4usize {
                if thorough || (ti + policy) % 2 == 0 {
                    with_modes(ctx, chk_functor, json!({"f": f.json(), "obj": t, "policy": policy}));
                }
            }
        }
        with_modes(ctx, chk_optic, json!({"f": f.json(), "fobj": tables[0], "robj": tables[1], "res": [[], [9], [9, 8]]}));
        with_modes(ctx, chk_optic, json!({"f": f.json(), "fobj": tables[4], "robj": tables[4], "res": [[]]}));
    }
    let n = ctx.budget(700, 24000);
    for i in 0..n {
        let mut f = model::random_model(&mut ctx.rng, if i % 3 == 0 { gen::B3 } else { gen::B3S });
        relabel_ops(ctx, &mut f);
        let t = tables[ctx.rng.below(tables.len())].clone();
        let policy = if i % 6 == 0 { 255 } else { ctx.rng.below(4) };
        with_modes(ctx, chk_functor, json!({"f": f.json(), "obj": t, "policy": policy}));
    }
    let n = ctx.budget(300, 10000);
    for _ in 0..n {
        let mut f = model::random_model(&mut ctx.rng, gen::B3S);
        relabel_ops(ctx, &mut f);
        let rt = |ctx: &mut Ctx| -> Vec<Vec<u8>> { (0..3).map(|_| { let l = ctx.rng.below(3); (0..l).map(|_| 4 + ctx.rng.below(3) as u8).collect() }).collect() };
        let (fo, ro, rs) = (rt(ctx), rt(ctx), rt(ctx));
        with_modes(ctx, chk_optic, json!({"f": f.json(), "fobj": fo, "robj": ro, "res": rs}));
    }

    // ---------------- layer / preds / graph ----------------
    for f in &corners {
        with_modes(ctx, chk_layer, json!({"f": f.json()}));
        with_modes(ctx, chk_preds, json!({"f": f.json()}));
        let sel: Vec<usize> = (0..f.w.len()).rev().collect();
        with_modes(ctx, chk_graph, json!({"f": f.json(), "sel": sel}));
        with_modes(ctx, chk_graph, json!({"f": f.json(), "sel": []}));
    }
    // exhaustive: all hypergraphs with <= 2 nodes, <= 2 operations, source / target lists of length <= 1 (thorough: <= 2 for one operation)
    let tiny = gen::tiny_hypergraphs(2, 2, 1);
    for h in &tiny {
        with_modes(ctx, chk_layer, json!({"f": h.json()}));
        let sel: Vec<usize> = (0..h.w.len()).collect();
        with_modes(ctx, chk_graph, json!({"f": h.json(), "sel": sel}));
        // predicates: with every pair of interface lists of length <= 2 (quick: <= 1)
        let lists = gen::short_lists(h.w.len(), if thorough { 2 } else { 1 });
        for s in &lists {
            for t in &lists {
                let mut f = h.clone();
                f.s = s.clone();
                f.t = t.clone();
                with_modes(ctx, chk_preds, json!({"f": f.json()}));
            }
        }
    }
    if thorough {
        for h in &gen::tiny_hypergraphs(2, 1, 2) {
            with_modes(ctx, chk_layer, json!({"f": h.json()}));
            with_modes(ctx, chk_preds, json!({"f": h.json()}));
        }
        for h in &gen::tiny_hypergraphs(3, 3, 1) {
            if h.w.len() == 3 && h.x.len() == 3 {
                with_modes(ctx, chk_layer, json!({"f": h.json()}));
            }
        }
    }
    let n = ctx.budget(1500, 48000);
    for i in 0..n {
        let f = match i % 4 {
            0 => model::random_model(&mut ctx.rng, model::MEDIUM),
            1 => gen::circuit(&mut ctx.rng, 6, 0).0,
            2 => gen::circuit(&mut ctx.rng, 6, 1).0,
            _ => gen::circuit(&mut ctx.rng, 5, 2).0,
        };
        with_modes(ctx, chk_layer, json!({"f": f.json()}));
        with_modes(ctx, chk_preds, json!({"f": f.json()}));
        if i % 2 == 0 {
            let p = gen::shuffle(&mut ctx.rng, f.w.len());
            let l = ctx.rng.below(f.w.len() + 1);
            let sel: Vec<usize> = p[..l].to_vec();
            with_modes(ctx, chk_graph, json!({"f": f.json(), "sel": sel}));
        }
    }

    // ---------------- eval ----------------
    for f in &corners {
        let mut f = f.clone();
        gen::eval_relabel(&mut ctx.rng, &mut f);
        let ins: Vec<i64> = (0..f.s.len()).map(|i| i as i64 + 1).collect();
        with_modes(ctx, chk_eval, json!({"f": f.json(), "in": ins}));
    }
    let n = ctx.budget(1800, 56000);
    for i in 0..n {
        let (f, ins) = gen::circuit(&mut ctx.rng, if i % 5 == 0 { 9 } else { 5 }, [0, 0, 1, 1, 2][i % 5]);
        with_modes(ctx, chk_eval, json!({"f": f.json(), "in": ins}));
    }

    // ---------------- hypergraph morphisms ----------------
    let mut targets = gen::convex_targets();
    targets.extend(corners.iter().map(gen::strip_interfaces));
    for h in &targets {
        // exhaustive: every sub-hypergraph selection
        for (g, w, x) in gen::all_embeddings(h) {
            with_modes(ctx, chk_arrow, json!({"g": g.json(), "h": h.json(), "w": w, "x": x}));
        }
        // the identity morphism and a reversed-order selection of everything
        let (n, k) = (h.w.len(), h.x.len());
        let (w, x): (Vec<usize>, Vec<usize>) = ((0..n).rev().collect(), (0..k).rev().collect());
        if let Some(g) = gen::pullback(h, &w, &x) {
            with_modes(ctx, chk_arrow, json!({"g": g.json(), "h": h.json(), "w": w, "x": x}));
        }
    }
    let n = ctx.budget(1500, 48000);
    for i in 0..n {
        let h = gen::strip_interfaces(&model::random_model(&mut ctx.rng, if i % 3 == 0 { gen::B3 } else { model::MEDIUM }));
        let (mut g, mut w, mut x) = if i % 3 == 2 { gen::random_folding(&mut ctx.rng, &h) } else { gen::random_embedding(&mut ctx.rng, &h) };
        if i % 7 == 3 {
            // perturb: one label, one incidence entry, one map entry
            match ctx.rng.below(4) {
                0 if !g.w.is_empty() => { let v = ctx.rng.below(g.w.len()); g.w[v] = (g.w[v] + 1) % 3; }
                1 if !g.x.is_empty() => { let e = ctx.rng.below(g.x.len()); g.x[e] ^= 1; }
                2 if !w.is_empty() => { let v = ctx.rng.below(w.len()); w[v] = ctx.rng.below(h.w.len()); }
                _ if !x.is_empty() => { let e = ctx.rng.below(x.len()); x[e] = ctx.rng.below(h.x.len()); }
                _ => {}
            }
        }
        with_modes(ctx, chk_arrow, json!({"g": g.json(), "h": h.json(), "w": w, "x": x}));
    }

    // ---------------- coequalizer / universal map ----------------
    let fixed: Vec<Value> = vec![
        json!({"a": [], "b": [], "n": 0, "q": [], "k": 0, "labels": []}),
        json!({"a": [], "b": [], "n": 3, "q": [0, 1, 2], "k": 3, "labels": [1, 2, 3]}),
        json!({"a": [0], "b": [], "n": 2, "q": [0, 0], "k": 1, "labels": [1, 2]}),          // not parallel; inconsistent labels
        json!({"a": [0, 0, 0], "b": [0, 0, 0], "n": 1, "q": [2, 2, 2], "k": 4, "labels": [7, 7, 7]}), // unhit slots
        json!({"a": [0, 2, 4], "b": [1, 3, 5], "n": 6, "q": [3, 1], "k": 5, "labels": [1, 2]}),
        json!({"a": [0, 1, 2, 3], "b": [1, 2, 3, 0], "n": 5, "q": [1, 0, 1, 0], "k": 2, "labels": [4, 5, 4, 5]}),
        json!({"a": [4, 4, 4], "b": [0, 1, 2], "n": 6, "q": [0, 1, 0], "k": 2, "labels": [4, 5, 5]}),
    ];
    for v in fixed {
        with_modes(ctx, chk_coequalizer, v);
    }
    // exhaustive: all pairs of maps 2 -> 3 and all q : 3 -> 2 with labels over {0, 1}
    let maps23 = gen::short_lists(3, 2).into_iter().filter(|l| l.len() == 2).collect::<Vec<_>>();
    let maps32 = gen::short_lists(2, 3).into_iter().filter(|l| l.len() == 3).collect::<Vec<_>>();
    for (i, a) in maps23.iter().enumerate() {
        for (j, b) in maps23.iter().enumerate() {
            let q = &maps32[(i * maps23.len() + j) % maps32.len()];
            for lab in &maps32 {
                with_modes(ctx, chk_coequalizer, json!({"a": a, "b": b, "n": 3, "q": q, "k": 2, "labels": lab}));
            }
        }
    }
    let n = ctx.budget(1200, 36000);
    for i in 0..n {
        let nn = ctx.rng.range(1, if i % 10 == 0 { 40 } else { 7 });
        let l = ctx.rng.range(0, nn + 2);
        let (a, b) = (ctx.rng.vec_below(l, nn), ctx.rng.vec_below(l, nn));
        let k = ctx.rng.range(1, 5);
        let ql = ctx.rng.range(1, 6);
        let q = ctx.rng.vec_below(ql, k);
        let labels: Vec<u8> = if ctx.rng.chance(2, 3) { q.iter().map(|&c| (c % 2) as u8).collect() } else { (0..ql).map(|_| ctx.rng.below(2) as u8).collect() };
        with_modes(ctx, chk_coequalizer, json!({"a": a, "b": b, "n": nn, "q": q, "k": k, "labels": labels}));
    }

    let stats: Vec<String> = STATS.with(|s| s.borrow().iter().map(|(k, v)| format!("{} = {}", k, v)).collect());
    ctx.notes.push(format!("coverage counters: {}", stats.join("; ")));
    let hung = TIMEOUTS.with(|t| t.get());
    if hung > 0 {
        ctx.notes.push(format!("{} library call(s) did not return within {} s (reported as *-no-panic failures); after 3 such calls the remaining inputs were not run", hung, CALL_TIMEOUT.as_secs()));
    }
    ctx.notes.push(
        "rule: every input is a plain model (plus functor tables / node maps / evaluation inputs) and a backend mode; the same model is built on VecKind and on AdvKind \
         (mode 0: argsort ties reversed, component numbers reversed, sparse_bincount keys descending, scatter filler = last element; mode m>=1: all of these pseudo-random in (m, data), \
         odd m: first colliding scatter write wins, m>=2: zero() positions shuffled) and the real generic code runs on both. quick: modes {0, one of 1..8}; thorough: modes {0,1,2, one of 3..62}. \
         inputs: corner list (model corners + 16 targeted: multiplicity-5 parallel wires, operation-free non-identity wirings, dangling nodes, zero-arity operations, cycles with tails, reversed chains, diamond) \
         all ordered pairs for compose; exhaustive composable pairs of the 59 operation-free diagrams on <=2 nodes with interfaces <=2; 32+32 nodes merged in binomial-tree order (1,3,4,6 levels, root/non-root handles, 1 or 2 labels) and chains 1/7/33; \
         exhaustive hypergraphs <=2 nodes <=2 operations arity<=1 for layer/graph/preds (preds x all interface lists of length <=1 quick, <=2 thorough); exhaustive sub-hypergraph selections of 7 convexity targets + corners for the morphism predicates; \
         exhaustive maps 2->3 x 2->3 for coequalizer; random: SMALL(3,2,2,3,2) / MEDIUM(5,3,3,4,2) / LARGE(8,5,3,5,2; every 10th compose pair) / B3(4,3,2,3,3 labels) models, single-writer circuits (<=9 operations, fan-out / monogamous / feedback), embeddings, foldings and perturbed morphisms. \
         functors: library Identity and template functors with object images of length 0/1/2 and operation images {single operation, two in sequence, consumer+producer with zero-arity sides, pure wiring}; optics with residuals of length 0/1/2. \
         non-trivial: compose = composable and both operands have a node and an edge or interface; functor/optic = at least one operation; layer = >=2 operations; eval = single-writer with >=1 operation; preds/graph = >=1 node and operation; arrow = natural morphism into a target with operations; coequalizer = >=1 pair on >=2 elements"
            .into(),
    );
}
