//! C05, part 1: the checked constructors accept their raw argument iff the documented conditions
//! hold (finite functions, segmented arrays, operation batches, hypergraphs, open hypergraphs,
//! spiders), and an accepted value carries exactly the data it was given.
use super::util::*;
use crate::ctx::{guard, Ctx};
use crate::model::*;
use open_hypergraphs::array::vec::*;
use open_hypergraphs::category::*;
use open_hypergraphs::finite_function::FiniteFunction;
use open_hypergraphs::indexed_coproduct::IndexedCoproduct;
use open_hypergraphs::lax;
use open_hypergraphs::operations::Operations;
use open_hypergraphs::semifinite::SemifiniteFunction;
use open_hypergraphs::strict::hypergraph::{Hypergraph, InvalidHypergraph};
use open_hypergraphs::strict::open_hypergraph::{InvalidOpenHypergraph, OpenHypergraph};
use serde_json::{json, Value};

/// input: {"table":[..], "target":n}.  Documented: every entry is an index in 0..target.
pub fn chk_ff_new(ctx: &mut Ctx, input: &Value) {
    const C: &str = "ff_new";
    let (table, target) = match ff_spec(input) {
        Some(x) => x,
        None => return,
    };
    ctx.case(C, input, !table.is_empty());
    let want = table.iter().all(|&v| v < target);
    let t2 = table.clone();
    match guard(move || FiniteFunction::<VecKind>::new(VecArray(t2), target)) {
        Err(p) => panic_fail(ctx, C, "ff-new", input, &p),
        Ok(None) => {
            if want {
                ctx.fail(C, "C05.ff-new-accept", input, json!("None"), json!("Some (all entries in range)"));
            }
        }
        Ok(Some(f)) => {
            if !want {
                ctx.fail(C, "C05.ff-new-reject", input, ff_json(&f), json!("None (an entry is out of range)"));
            } else if f.table.0 != table || f.target != target || f.source() != table.len() || f.target() != target {
                ctx.fail(C, "C05.ff-new-data", input, ff_json(&f), input.clone());
            }
        }
    }
}

/// input: {"ctor":"new"|"from_semifinite", "vkind":"ff"|"sf", "sizes":[..], "starget":n, "vals":[..], "vtarget":m}
/// Documented: `sources` is a finite function whose sum is the length of `values` and whose target
/// is that sum + 1 (`new`); `from_semifinite` computes the target itself, so only the sum matters.
pub fn chk_ic_new(ctx: &mut Ctx, input: &Value) {
    const C: &str = "ic_new";
    let dec = || -> Option<(String, String, Vec<usize>, usize, Vec<usize>, usize)> {
        Some((
            input.get("ctor")?.as_str()?.to_string(),
            input.get("vkind")?.as_str()?.to_string(),
            us(input.get("sizes")?)?,
            num(input.get("starget")?)?,
            us(input.get("vals")?)?,
            num(input.get("vtarget")?)?,
        ))
    };
    let (ctor, vkind, sz, starget, vals, vtarget) = match dec() {
        Some(x) => x,
        None => return,
    };
    // the values array itself must be a legal argument
    if vkind == "ff" && !vals.iter().all(|&v| v < vtarget) {
        return;
    }
    if vkind == "sf" && !vals.iter().all(|&v| v < 256) {
        return;
    }
    ctx.case(C, input, !sz.is_empty());
    let sum: usize = sz.iter().sum();
    let want = match ctor.as_str() {
        "new" => starget == sum + 1 && sum == vals.len(),
        _ => sum == vals.len(),
    };
    let segs = split(&sz, &vals);
    if vkind == "ff" {
        let (sz2, vals2, ctor2) = (sz.clone(), vals.clone(), ctor.clone());
        let got = guard(move || {
            let values = raw_ff(&vals2, vtarget);
            if ctor2 == "new" {
                IndexedCoproduct::new(raw_ff(&sz2, starget), values)
            } else {
                IndexedCoproduct::from_semifinite(SemifiniteFunction(VecArray(sz2)), values)
            }
        });
        match got {
            Err(p) => panic_fail(ctx, C, "ic-new", input, &p),
            Ok(None) => {
                if want {
                    ctx.fail(C, "C05.ic-new-accept", input, json!("None"), json!("Some"));
                }
            }
            Ok(Some(c)) => {
                if !want {
                    ctx.fail(C, "C05.ic-new-reject", input, json!(format!("{:?}", c)), json!("None"));
                } else {
                    match ic_wf(&c, Some(sz.len()), Some(vtarget)) {
                        Err(why) => ctx.fail(C, "C05.ic-new-wf", input, json!(why), json!("well-formed segmented array")),
                        Ok(s) => {
                            if Some(&s) != segs.as_ref() || c.len() != sz.len() {
                                ctx.fail(C, "C05.ic-new-data", input, json!(s), json!(segs));
                            }
                        }
                    }
                }
            }
        }
    } else {
        let (sz2, ctor2) = (sz.clone(), ctor.clone());
        let lab: Vec<u8> = vals.iter().map(|&v| v as u8).collect();
        let lab2 = lab.clone();
        let got = guard(move || {
            let values = sf(&lab2);
            if ctor2 == "new" {
                IndexedCoproduct::new(raw_ff(&sz2, starget), values)
            } else {
                IndexedCoproduct::from_semifinite(SemifiniteFunction(VecArray(sz2)), values)
            }
        });
        match got {
            Err(p) => panic_fail(ctx, C, "ic-new", input, &p),
            Ok(None) => {
                if want {
                    ctx.fail(C, "C05.ic-new-accept", input, json!("None"), json!("Some"));
                }
            }
            Ok(Some(c)) => {
                if !want {
                    ctx.fail(C, "C05.ic-new-reject", input, json!(format!("{:?}", c)), json!("None"));
                } else {
                    match sic_wf(&c, Some(sz.len())) {
                        Err(why) => ctx.fail(C, "C05.ic-new-wf", input, json!(why), json!("well-formed segmented array")),
                        Ok(s) => {
                            let want_segs: Option<Vec<Vec<u8>>> = segs.map(|ss| ss.iter().map(|l| l.iter().map(|&v| v as u8).collect()).collect());
                            if Some(&s) != want_segs.as_ref() {
                                ctx.fail(C, "C05.ic-new-data", input, json!(s), json!(want_segs));
                            }
                        }
                    }
                }
            }
        }
    }
}

/// input: {"x":[labels], "a":[[labels]..], "b":[[labels]..]}.  Documented: one source type and one
/// target type per operation label.
pub fn chk_ops_new(ctx: &mut Ctx, input: &Value) {
    const C: &str = "ops_new";
    let dec = || Some((u8s(input.get("x")?)?, u8ss(input.get("a")?)?, u8ss(input.get("b")?)?));
    let (x, a, b) = match dec() {
        Some(v) => v,
        None => return,
    };
    ctx.case(C, input, !x.is_empty() || !a.is_empty() || !b.is_empty());
    let want = x.len() == a.len() && x.len() == b.len();
    let (x2, a2, b2) = (x.clone(), a.clone(), b.clone());
    match guard(move || Operations::<VecKind, u8, u8>::new(sf(&x2), mk_sic(&a2), mk_sic(&b2))) {
        Err(p) => panic_fail(ctx, C, "ops-new", input, &p),
        Ok(None) => {
            if want {
                ctx.fail(C, "C05.ops-new-accept", input, json!("None"), json!("Some (counts agree)"));
            }
        }
        Ok(Some(ops)) => {
            if !want {
                ctx.fail(C, "C05.ops-new-reject", input, json!(format!("{:?}", ops)), json!("None (counts differ)"));
                return;
            }
            let ok = ops.x.0 .0 == x && sic_wf(&ops.a, Some(x.len())).ok() == Some(a.clone()) && sic_wf(&ops.b, Some(x.len())).ok() == Some(b.clone()) && ops.len() == x.len();
            if !ok {
                ctx.fail(C, "C05.ops-new-data", input, json!(format!("{:?}", ops)), input.clone());
            }
            if ops.validate().is_none() {
                ctx.fail(C, "C05.ops-validate-accept", input, json!("None"), json!("Some"));
            }
        }
    }
}

pub struct HgSpec {
    pub s: (Vec<Vec<usize>>, usize),
    pub t: (Vec<Vec<usize>>, usize),
    pub w: Vec<u8>,
    pub x: Vec<u8>,
}
impl HgSpec {
    pub fn from_json(v: &Value) -> Option<HgSpec> {
        Some(HgSpec { s: ic_spec(v.get("s")?)?, t: ic_spec(v.get("t")?)?, w: u8s(v.get("w")?)?, x: u8s(v.get("x")?)? })
    }
    pub fn json(&self) -> Value {
        json!({"s": {"segs": self.s.0, "target": self.s.1}, "t": {"segs": self.t.0, "target": self.t.1}, "w": self.w, "x": self.x})
    }
    /// the four documented conditions: one source list and one target list per edge; source values
    /// and target values index the node set
    pub fn conds(&self) -> [bool; 4] {
        [self.s.0.len() == self.x.len(), self.t.0.len() == self.x.len(), self.s.1 == self.w.len(), self.t.1 == self.w.len()]
    }
    pub fn build(&self) -> Option<(IC, IC)> {
        Some((mk_ic(&self.s.0, self.s.1)?, mk_ic(&self.t.0, self.t.1)?))
    }
    pub fn model(&self, s: &[usize], t: &[usize]) -> M {
        M { w: self.w.clone(), x: self.x.clone(), src: self.s.0.clone(), tgt: self.t.0.clone(), s: s.to_vec(), t: t.to_vec() }
    }
}
fn hg_err_names_violation(e: &InvalidHypergraph<VecKind>, c: [bool; 4]) -> bool {
    match e {
        InvalidHypergraph::SourcesCount(..) => !c[0],
        InvalidHypergraph::TargetsCount(..) => !c[1],
        InvalidHypergraph::SourcesSet(..) => !c[2],
        InvalidHypergraph::TargetsSet(..) => !c[3],
    }
}

/// input: {"h": {"s":{"segs","target"}, "t":{..}, "w":[..], "x":[..]}, "via":"new"|"validate"}
pub fn chk_hg_new(ctx: &mut Ctx, input: &Value) {
    const C: &str = "hg_new";
    let spec = match input.get("h").and_then(HgSpec::from_json) {
        Some(s) => s,
        None => return,
    };
    let via_validate = input.get("via").and_then(|v| v.as_str()) == Some("validate");
    let (s, t) = match spec.build() {
        Some(x) => x,
        None => return, // the segmented arrays themselves must be legal
    };
    ctx.case(C, input, !spec.w.is_empty() || !spec.x.is_empty());
    let c = spec.conds();
    let want = c.iter().all(|&b| b);
    let (w2, x2) = (spec.w.clone(), spec.x.clone());
    let got = guard(move || if via_validate { raw_sh(s, t, &w2, &x2).validate() } else { Hypergraph::new(s, t, sf(&w2), sf(&x2)) });
    match got {
        Err(p) => panic_fail(ctx, C, "hg-new", input, &p),
        Ok(Err(e)) => {
            if want {
                ctx.fail(C, "C05.hg-new-accept", input, json!(format!("{:?}", e)), json!("Ok"));
            } else if !hg_err_names_violation(&e, c) {
                ctx.fail(C, "C05.hg-new-error", input, json!(format!("{:?}", e)), json!({"conditions [srcCount,tgtCount,srcSet,tgtSet]": c}));
            }
        }
        Ok(Ok(h)) => {
            if !want {
                ctx.fail(C, "C05.hg-new-reject", input, json!(format!("{:?}", h)), json!({"conditions [srcCount,tgtCount,srcSet,tgtSet]": c}));
            } else {
                match sh_wf(&h) {
                    Err(why) => ctx.fail(C, "C05.hg-new-wf", input, json!(why), json!("well-formed")),
                    Ok(m) => {
                        if m != spec.model(&[], &[]) {
                            ctx.fail(C, "C05.hg-new-data", input, m.json(), spec.model(&[], &[]).json());
                        }
                    }
                }
            }
        }
    }
}

/// input: {"s":{"table","target"}, "t":{..}, "h":{hypergraph spec}, "via":"new"|"validate"}
/// the hypergraph is handed over raw (its fields are public), the legs are legal finite functions
pub fn chk_oh_new(ctx: &mut Ctx, input: &Value) {
    const C: &str = "oh_new";
    let dec = || Some((ff_spec(input.get("s")?)?, ff_spec(input.get("t")?)?, HgSpec::from_json(input.get("h")?)?));
    let ((st, sn), (tt, tn), spec) = match dec() {
        Some(v) => v,
        None => return,
    };
    let via_validate = input.get("via").and_then(|v| v.as_str()) == Some("validate");
    if !st.iter().all(|&v| v < sn) || !tt.iter().all(|&v| v < tn) {
        return;
    }
    let (hs, ht) = match spec.build() {
        Some(x) => x,
        None => return,
    };
    ctx.case(C, input, !spec.w.is_empty());
    let c = spec.conds();
    let n = spec.w.len();
    let (cs, ct) = (sn == n, tn == n);
    let want = c.iter().all(|&b| b) && cs && ct;
    let (w2, x2, st2, tt2) = (spec.w.clone(), spec.x.clone(), st.clone(), tt.clone());
    let got = guard(move || {
        let h = raw_sh(hs, ht, &w2, &x2);
        let (s, t) = (raw_ff(&st2, sn), raw_ff(&tt2, tn));
        if via_validate {
            (OpenHypergraph { s, t, h }).validate()
        } else {
            OpenHypergraph::new(s, t, h)
        }
    });
    let conds = json!({"hypergraph [srcCount,tgtCount,srcSet,tgtSet]": c, "s.target==nodes": cs, "t.target==nodes": ct});
    match got {
        Err(p) => panic_fail(ctx, C, "oh-new", input, &p),
        Ok(Err(e)) => {
            if want {
                ctx.fail(C, "C05.oh-new-accept", input, json!(format!("{:?}", e)), json!("Ok"));
            } else {
                let named = match &e {
                    InvalidOpenHypergraph::CospanSourceType(..) => !cs,
                    InvalidOpenHypergraph::CospanTargetType(..) => !ct,
                    InvalidOpenHypergraph::InvalidHypergraph(he) => hg_err_names_violation(he, c),
                };
                if !named {
                    ctx.fail(C, "C05.oh-new-error", input, json!(format!("{:?}", e)), conds);
                }
            }
        }
        Ok(Ok(f)) => {
            if !want {
                ctx.fail(C, "C05.oh-new-reject", input, json!(format!("{:?}", f)), conds);
            } else {
                let e = spec.model(&st, &tt);
                if let Some(m) = strict_result(ctx, C, "oh-new", input, &f, &e.source_type(), &e.target_type()) {
                    if m != e {
                        ctx.fail(C, "C05.oh-new-data", input, m.json(), e.json());
                    }
                }
            }
        }
    }
}

/// input: {"s":{"table","target"}, "t":{..}, "w":[labels]}: strict spider, strict half-spider, lax spider.
/// Documented: both legs must have the node set as target.
pub fn chk_spider_new(ctx: &mut Ctx, input: &Value) {
    const C: &str = "spider_new";
    let dec = || Some((ff_spec(input.get("s")?)?, ff_spec(input.get("t")?)?, u8s(input.get("w")?)?));
    let ((st, sn), (tt, tn), w) = match dec() {
        Some(v) => v,
        None => return,
    };
    if !st.iter().all(|&v| v < sn) || !tt.iter().all(|&v| v < tn) {
        return;
    }
    ctx.case(C, input, !w.is_empty() && st.len() + tt.len() > 0);
    let n = w.len();
    let want = sn == n && tn == n;
    let e = spider(&st, &tt, &w).filter(|_| want);
    // strict (inherent and through the trait)
    for which in ["strict", "strict-trait"] {
        let (st2, tt2, w2) = (st.clone(), tt.clone(), w.clone());
        let got = guard(move || {
            if which == "strict" {
                SOH::spider(raw_ff(&st2, sn), raw_ff(&tt2, tn), sf(&w2))
            } else {
                <SOH as Spider<VecKind>>::spider(raw_ff(&st2, sn), raw_ff(&tt2, tn), sf(&w2))
            }
        });
        match (got, &e) {
            (Err(p), _) => panic_fail(ctx, C, "spider", input, &p),
            (Ok(None), None) => {}
            (Ok(None), Some(_)) => ctx.fail(C, "C05.spider-accept", input, json!([which, "None"]), json!("Some")),
            (Ok(Some(r)), None) => ctx.fail(C, "C05.spider-reject", input, json!([which, format!("{:?}", r)]), json!("None (a leg does not target the node set)")),
            (Ok(Some(r)), Some(e)) => {
                if let Some(m) = strict_result(ctx, C, "spider", input, &r, &e.source_type(), &e.target_type()) {
                    expect_iso(ctx, C, "C05.spider-model", input, &m, e);
                }
            }
        }
    }
    // strict half spider: target leg is the identity
    {
        let (st2, w2) = (st.clone(), w.clone());
        let got = guard(move || <SOH as Spider<VecKind>>::half_spider(raw_ff(&st2, sn), sf(&w2)));
        let eh = spider(&st, &(0..n).collect::<Vec<_>>(), &w).filter(|_| sn == n);
        match (got, &eh) {
            (Err(p), _) => panic_fail(ctx, C, "half-spider", input, &p),
            (Ok(None), None) => {}
            (Ok(None), Some(_)) => ctx.fail(C, "C05.half-spider-accept", input, json!("None"), json!("Some")),
            (Ok(Some(r)), None) => ctx.fail(C, "C05.half-spider-reject", input, json!(format!("{:?}", r)), json!("None")),
            (Ok(Some(r)), Some(e)) => {
                if let Some(m) = strict_result(ctx, C, "half-spider", input, &r, &e.source_type(), &w) {
                    expect_iso(ctx, C, "C05.half-spider-model", input, &m, e);
                }
            }
        }
    }
    // lax
    for which in ["lax", "lax-trait"] {
        let (st2, tt2, w2) = (st.clone(), tt.clone(), w.clone());
        let got = guard(move || {
            if which == "lax" {
                LOH::spider(raw_ff(&st2, sn), raw_ff(&tt2, tn), w2)
            } else {
                <LOH as Spider<VecKind>>::spider(raw_ff(&st2, sn), raw_ff(&tt2, tn), w2)
            }
        });
        match (got, &e) {
            (Err(p), _) => panic_fail(ctx, C, "lax-spider", input, &p),
            (Ok(None), None) => {}
            (Ok(None), Some(_)) => ctx.fail(C, "C05.lax-spider-accept", input, json!([which, "None"]), json!("Some")),
            (Ok(Some(r)), None) => ctx.fail(C, "C05.lax-spider-reject", input, json!([which, format!("{:?}", r)]), json!("None (a leg does not target the node set)")),
            (Ok(Some(r)), Some(e)) => {
                if let Some(lm) = lax_result(ctx, C, "lax-spider", input, &r, &e.source_type(), &e.target_type()) {
                    if !lm.q.is_empty() {
                        ctx.fail(C, "C05.lax-spider-model", input, lm.json(), e.json());
                    }
                    expect_iso(ctx, C, "C05.lax-spider-model", input, &lm.m, e);
                }
            }
        }
    }
    let _ = lax::NodeId(0);
}

// ---- enumeration -------------------------------------------------------------------------------------
fn lists(max_len: usize, vals: usize) -> Vec<Vec<usize>> {
    let mut out: Vec<Vec<usize>> = vec![vec![]];
    let mut layer: Vec<Vec<usize>> = vec![vec![]];
    for _ in 0..max_len {
        let mut next = vec![];
        for t in &layer {
            for v in 0..vals {
                let mut u = t.clone();
                u.push(v);
                next.push(u);
            }
        }
        out.extend(next.iter().cloned());
        layer = next;
    }
    out
}

pub fn run(ctx: &mut Ctx) {
    // ---- ff_new: exhaustive tables of length <= 3 over 0..=3, targets 0..=4; then random
    for table in lists(3, 4) {
        for target in 0..=4 {
            chk_ff_new(ctx, &json!({"table": table, "target": target}));
        }
    }
    for _ in 0..ctx.budget(3000, 120000) {
        let target = ctx.rng.range(0, 9);
        let len = ctx.rng.range(0, 8);
        // entries cluster around the boundary target-1 / target / target+1
        let table: Vec<usize> = (0..len).map(|_| if ctx.rng.chance(1, 4) { (target + ctx.rng.below(3)).saturating_sub(1) } else { ctx.rng.below(target.max(1)) }).collect();
        chk_ff_new(ctx, &json!({"table": table, "target": target}));
    }
    // ---- ic_new: exhaustive sizes of length <= 3 over 0..=2, value counts 0..=5, declared target sum-1..sum+2
    for ctor in ["new", "from_semifinite"] {
        for vkind in ["ff", "sf"] {
            for sz in lists(3, 3) {
                let sum: usize = sz.iter().sum();
                for nvals in 0..=(sum + 2).min(7) {
                    let starts: Vec<usize> = if ctor == "new" { (sum.saturating_sub(1)..=sum + 3).collect() } else { vec![sum + 1] };
                    for starget in starts {
                        let vtarget = ctx.rng.range(1, 3);
                        let vals = ctx.rng.vec_below(nvals, vtarget);
                        chk_ic_new(ctx, &json!({"ctor": ctor, "vkind": vkind, "sizes": sz, "starget": starget, "vals": vals, "vtarget": vtarget}));
                    }
                }
            }
        }
    }
    for _ in 0..ctx.budget(3000, 120000) {
        let k = ctx.rng.range(0, 5);
        let sz = ctx.rng.vec_below(k, 4);
        let sum: usize = sz.iter().sum();
        let nvals = if ctx.rng.chance(1, 2) { sum } else { (sum + ctx.rng.below(3)).saturating_sub(1) };
        let starget = if ctx.rng.chance(1, 2) { sum + 1 } else { sum + ctx.rng.below(3) };
        let vtarget = ctx.rng.range(0, 4);
        let vals = if vtarget == 0 { vec![] } else { ctx.rng.vec_below(nvals, vtarget) };
        let ctor = if ctx.rng.chance(1, 2) { "new" } else { "from_semifinite" };
        let vkind = if ctx.rng.chance(1, 2) { "ff" } else { "sf" };
        chk_ic_new(ctx, &json!({"ctor": ctor, "vkind": vkind, "sizes": sz, "starget": starget, "vals": vals, "vtarget": vtarget}));
    }
    // ---- ops_new: all count triples (|x|,|a|,|b|) in 0..=3, random contents (including empty types)
    for round in 0..ctx.budget(2, 40) {
        for nx in 0..=3usize {
            for na in 0..=3usize {
                for nb in 0..=3usize {
                    let x: Vec<u8> = (0..nx).map(|_| 10 + ctx.rng.below(3) as u8).collect();
                    let a: Vec<Vec<u8>> = (0..na).map(|_| if round == 0 { vec![] } else { rand_type(&mut ctx.rng, 3, 3) }).collect();
                    let b: Vec<Vec<u8>> = (0..nb).map(|_| rand_type(&mut ctx.rng, 3, 3)).collect();
                    chk_ops_new(ctx, &json!({"x": x, "a": a, "b": b}));
                }
            }
        }
    }
    // ---- hg_new: all (|x|, |w|, #source lists, #target lists, s.target, t.target) with counts 0..=2 and
    // declared targets 0..=3; random contents
    for round in 0..ctx.budget(1, 12) {
        for nx in 0..=2usize {
            for nw in 0..=2usize {
                for ks in 0..=2usize {
                    for kt in 0..=2usize {
                        for ts in 0..=3usize {
                            for tt in 0..=3usize {
                                let seg = |r: &mut crate::ctx::Rng, k: usize, t: usize| -> Vec<Vec<usize>> {
                                    (0..k).map(|_| if t == 0 { vec![] } else { let l = r.range(0, 2); r.vec_below(l, t) }).collect()
                                };
                                let spec = HgSpec {
                                    s: (seg(&mut ctx.rng, ks, ts), ts),
                                    t: (seg(&mut ctx.rng, kt, tt), tt),
                                    w: (0..nw).map(|_| ctx.rng.below(2) as u8).collect(),
                                    x: (0..nx).map(|_| 10 + ctx.rng.below(2) as u8).collect(),
                                };
                                let via = if (round + ts + tt) % 2 == 0 { "new" } else { "validate" };
                                chk_hg_new(ctx, &json!({"h": spec.json(), "via": via}));
                            }
                        }
                    }
                }
            }
        }
    }
    // ---- hg_new / oh_new: a valid random diagram with exactly one (or two) of the conditions broken
    for i in 0..ctx.budget(4000, 120000) {
        let b = pick_bounds(&mut ctx.rng);
        let m = rand_model(&mut ctx.rng, b);
        let n = m.w.len();
        let mut spec = HgSpec { s: (m.src.clone(), n), t: (m.tgt.clone(), n), w: m.w.clone(), x: m.x.clone() };
        let (mut sn, mut tn) = (n, n);
        let breaks = match i % 4 {
            0 => 0,
            3 => 2,
            _ => 1,
        };
        for _ in 0..breaks {
            match ctx.rng.below(8) {
                0 => spec.s.0.push(vec![]),
                1 => {
                    spec.t.0.pop();
                }
                2 => spec.s.1 += 1,
                3 => spec.t.1 += 1,
                4 => spec.x.push(10),
                5 => spec.w.push(0),
                6 => sn += 1,
                _ => tn += 1,
            }
        }
        let via = if ctx.rng.chance(1, 2) { "new" } else { "validate" };
        chk_hg_new(ctx, &json!({"h": spec.json(), "via": via}));
        chk_oh_new(ctx, &json!({"s": {"table": m.s, "target": sn}, "t": {"table": m.t, "target": tn}, "h": spec.json(), "via": via}));
    }
    // ---- oh_new: all (nodes, s.target, t.target) in 0..=2 x 0..=3 x 0..=3 on a valid hypergraph
    for n in 0..=2usize {
        for sn in 0..=3usize {
            for tn in 0..=3usize {
                for (k, ls, lt) in [(0usize, 0usize, 0usize), (1, 0, 0), (0, 1, 0), (1, 0, 2), (1, 2, 2)] {
                    let seg = |r: &mut crate::ctx::Rng| -> Vec<Vec<usize>> { (0..k).map(|_| if n == 0 { vec![] } else { let l = r.range(0, 2); r.vec_below(l, n) }).collect() };
                    let spec = HgSpec { s: (seg(&mut ctx.rng), n), t: (seg(&mut ctx.rng), n), w: (0..n).map(|i| i as u8).collect(), x: vec![10; k] };
                    let st = if sn == 0 { vec![] } else { ctx.rng.vec_below(ls, sn.min(n.max(1))) };
                    let tt = if tn == 0 { vec![] } else { ctx.rng.vec_below(lt, tn.min(n.max(1))) };
                    let via = if (k + ls + sn) % 2 == 0 { "new" } else { "validate" };
                    chk_oh_new(ctx, &json!({"s": {"table": st, "target": sn}, "t": {"table": tt, "target": tn}, "h": spec.json(), "via": via}));
                }
            }
        }
    }
    // ---- spider_new: all (nodes, s.target, t.target) in 0..=3 cubed, legs of length <= 2 (random entries);
    // then random wide legs (multiplicity above the node count)
    for n in 0..=3usize {
        for sn in 0..=3usize {
            for tn in 0..=3usize {
                for (ls, lt) in [(0usize, 0usize), (1, 0), (0, 2), (2, 1)] {
                    let st = if sn == 0 { vec![] } else { ctx.rng.vec_below(ls, sn.min(n.max(1))) };
                    let tt = if tn == 0 { vec![] } else { ctx.rng.vec_below(lt, tn.min(n.max(1))) };
                    let w: Vec<u8> = (0..n).map(|_| ctx.rng.below(3) as u8).collect();
                    chk_spider_new(ctx, &json!({"s": {"table": st, "target": sn}, "t": {"table": tt, "target": tn}, "w": w}));
                }
            }
        }
    }
    for _ in 0..ctx.budget(2000, 60000) {
        let n = ctx.rng.range(0, 4);
        let w: Vec<u8> = (0..n).map(|_| ctx.rng.below(3) as u8).collect();
        let sn = if ctx.rng.chance(3, 4) { n } else { (n + ctx.rng.below(3)).saturating_sub(1) };
        let tn = if ctx.rng.chance(3, 4) { n } else { (n + ctx.rng.below(3)).saturating_sub(1) };
        let (ls, lt) = (ctx.rng.range(0, 6), ctx.rng.range(0, 6));
        let st = if sn == 0 { vec![] } else { ctx.rng.vec_below(ls, sn) };
        let tt = if tn == 0 { vec![] } else { ctx.rng.vec_below(lt, tn) };
        chk_spider_new(ctx, &json!({"s": {"table": st, "target": sn}, "t": {"table": tt, "target": tn}, "w": w}));
    }
}
