//! C05, part 4: functor and optic applications (strict and lax) return well-formed diagrams of
//! type F(A) → F(B); object images of length 0/1/2 are mixed freely.
use super::util::*;
use crate::ctx::{guard, Ctx};
use crate::model::*;
use open_hypergraphs::array::vec::*;
use open_hypergraphs::lax;
use open_hypergraphs::lax::functor::dyn_functor;
use open_hypergraphs::lax::functor::Functor as LaxFunctor;
use open_hypergraphs::lax::optic::Optic as LaxOptic;
use open_hypergraphs::lax::var::HasVar;
use open_hypergraphs::operations::Operations;
use open_hypergraphs::strict::functor::identity::Identity;
use open_hypergraphs::strict::functor::optic::Optic as StrictOptic;
use open_hypergraphs::strict::functor::{define_map_arrow, Functor};
use serde_json::{json, Value};

/// edge labels with a distinguished "variable" label (10) for the forgetful functors
#[derive(Clone, PartialEq, Debug)]
pub struct E(pub u8);
impl HasVar for E {
    fn var() -> E {
        E(10)
    }
}
pub type EOH = lax::OpenHypergraph<u8, E>;
pub fn to_e(f: &LOH) -> EOH {
    lax::OpenHypergraph {
        sources: f.sources.clone(),
        targets: f.targets.clone(),
        hypergraph: lax::Hypergraph { nodes: f.hypergraph.nodes.clone(), edges: f.hypergraph.edges.iter().map(|&x| E(x)).collect(), adjacency: f.hypergraph.adjacency.clone(), quotient: f.hypergraph.quotient.clone() },
    }
}

/// image of one operation under the test functors: a plain diagram of type fa → fb whose shape
/// depends on the label (one edge / two disconnected edges / no edge at all when fa = fb)
pub fn op_image(x: u8, fa: &[u8], fb: &[u8]) -> M {
    match x {
        11 => {
            let (na, nb) = (fa.len(), fb.len());
            M { w: [fa.to_vec(), fb.to_vec()].concat(), x: vec![20, 21], src: vec![(0..na).collect(), vec![]], tgt: vec![vec![], (na..na + nb).collect()], s: (0..na).collect(), t: (na..na + nb).collect() }
        }
        12 if fa == fb => identity(fa),
        _ => singleton(x, fa, fb),
    }
}

/// strict test functor: object images from a table, operation images by `op_image`
pub struct PFun {
    pub img: Vec<Vec<u8>>,
}
impl Functor<VecKind, u8, u8, u8, u8> for PFun {
    fn map_object(&self, a: &SF<u8>) -> SIC {
        mk_sic(&a.0 .0.iter().map(|&l| self.img[l as usize].clone()).collect::<Vec<_>>())
    }
    fn map_operations(&self, ops: Operations<VecKind, u8, u8>) -> SOH {
        let a = sic_wf(&ops.a, None).expect("batch sources");
        let b = sic_wf(&ops.b, None).expect("batch targets");
        let mut m = M::empty();
        for (i, &x) in ops.x.0 .0.iter().enumerate() {
            m = tensor(&m, &op_image(x, &apply_img(&self.img, &a[i]), &apply_img(&self.img, &b[i])));
        }
        m.to_strict()
    }
    fn map_arrow(&self, f: &SOH) -> SOH {
        define_map_arrow(self, f)
    }
}

/// the same functor through the lax interface
#[derive(Clone)]
pub struct LFun {
    pub img: Vec<Vec<u8>>,
}
impl LaxFunctor<u8, u8, u8, u8> for LFun {
    fn map_object(&self, o: &u8) -> impl ExactSizeIterator<Item = u8> {
        self.img[*o as usize].clone().into_iter()
    }
    fn map_operation(&self, a: &u8, source: &[u8], target: &[u8]) -> LOH {
        op_image(*a, &apply_img(&self.img, source), &apply_img(&self.img, target)).to_lax()
    }
    fn map_arrow(&self, f: &LOH) -> LOH {
        dyn_functor::define_map_arrow(self, f)
    }
}

/// test optic: forward/reverse object images from tables, residual per operation label,
/// forward image  F(A) → F(B) ● M,  reverse image  M ● R(B) → R(A)
#[derive(Clone)]
pub struct TOptic {
    pub fimg: Vec<Vec<u8>>,
    pub rimg: Vec<Vec<u8>>,
    pub res: Vec<Vec<u8>>,
}
impl TOptic {
    fn m(&self, a: u8) -> Vec<u8> {
        self.res[(a as usize - 10) % self.res.len()].clone()
    }
    fn fwd_op(&self, a: u8, s: &[u8], t: &[u8]) -> M {
        op_image(a, &apply_img(&self.fimg, s), &[apply_img(&self.fimg, t), self.m(a)].concat())
    }
    fn rev_op(&self, a: u8, s: &[u8], t: &[u8]) -> M {
        op_image(if a == 11 { 11 } else { a + 50 }, &[self.m(a), apply_img(&self.rimg, t)].concat(), &apply_img(&self.rimg, s))
    }
    pub fn inter(&self, ty: &[u8]) -> Vec<u8> {
        ty.iter().flat_map(|&l| self.fimg[l as usize].iter().chain(self.rimg[l as usize].iter()).cloned().collect::<Vec<_>>()).collect()
    }
}
impl LaxOptic<u8, u8, u8, u8> for TOptic {
    fn fwd_object(&self, o: &u8) -> Vec<u8> {
        self.fimg[*o as usize].clone()
    }
    fn fwd_operation(&self, a: &u8, source: &[u8], target: &[u8]) -> LOH {
        self.fwd_op(*a, source, target).to_lax()
    }
    fn rev_object(&self, o: &u8) -> Vec<u8> {
        self.rimg[*o as usize].clone()
    }
    fn rev_operation(&self, a: &u8, source: &[u8], target: &[u8]) -> LOH {
        self.rev_op(*a, source, target).to_lax()
    }
    fn residual(&self, a: &u8) -> Vec<u8> {
        self.m(*a)
    }
}
#[derive(Clone)]
struct Half {
    o: TOptic,
    fwd: bool,
}
impl LaxFunctor<u8, u8, u8, u8> for Half {
    fn map_object(&self, o: &u8) -> impl ExactSizeIterator<Item = u8> {
        (if self.fwd { &self.o.fimg } else { &self.o.rimg })[*o as usize].clone().into_iter()
    }
    fn map_operation(&self, a: &u8, source: &[u8], target: &[u8]) -> LOH {
        (if self.fwd { self.o.fwd_op(*a, source, target) } else { self.o.rev_op(*a, source, target) }).to_lax()
    }
    fn map_arrow(&self, _f: &LOH) -> LOH {
        panic!("not a functor on its own")
    }
}
type DF = dyn_functor::DynFunctor<Half, u8, u8, u8, u8>;
fn strict_optic(o: &TOptic) -> StrictOptic<DF, DF, VecKind, u8, u8, u8, u8> {
    let oc = o.clone();
    StrictOptic::new(
        dyn_functor::to_dyn_functor(Half { o: o.clone(), fwd: true }),
        dyn_functor::to_dyn_functor(Half { o: o.clone(), fwd: false }),
        Box::new(move |ops: &Operations<VecKind, u8, u8>| mk_sic(&ops.x.0 .0.iter().map(|&x| oc.m(x)).collect::<Vec<_>>())),
    )
}

fn imgs(v: Option<&Value>) -> Option<Vec<Vec<u8>>> {
    let i = u8ss(v?)?;
    if i.len() == 3 && i.iter().flatten().all(|&l| l < 3) {
        Some(i)
    } else {
        None
    }
}

/// input: {"f": model (node labels < 3), "img": [[..],[..],[..]]}
pub fn chk_strict_functor(ctx: &mut Ctx, input: &Value) {
    const C: &str = "strict_functor";
    let dec = || Some((M::from_json(input.get("f")?)?, imgs(input.get("img"))?));
    let (f, img) = match dec() {
        Some(v) => v,
        None => return,
    };
    if !f.valid() || !labels_ok(&f) {
        return;
    }
    let lens: Vec<usize> = f.w.iter().map(|&l| img[l as usize].len()).collect();
    ctx.case(C, input, f.nontrivial() && lens.iter().any(|&l| l != 1));
    let s = f.to_strict();
    let (a, b) = (f.source_type(), f.target_type());
    // the identity functor
    match guard(|| <Identity as Functor<VecKind, u8, u8, u8, u8>>::map_arrow(&Identity, &s)) {
        Err(p) => panic_fail(ctx, C, "functor-identity", input, &p),
        Ok(r) => {
            strict_result(ctx, C, "functor-identity", input, &r, &a, &b);
        }
    }
    // the batch of operations of a diagram: as declared by the diagram
    let edge_ty = |l: &Vec<Vec<usize>>| l.iter().map(|e| e.iter().map(|&v| f.w[v]).collect::<Vec<u8>>()).collect::<Vec<_>>();
    let (ea, eb) = (edge_ty(&f.src), edge_ty(&f.tgt));
    match guard(|| open_hypergraphs::verif_hooks::to_operations(&s)) {
        Err(p) => panic_fail(ctx, C, "to-operations", input, &p),
        Ok(ops) => {
            let ok = ops.x.0 .0 == f.x && sic_wf(&ops.a, Some(f.x.len())).ok() == Some(ea.clone()) && sic_wf(&ops.b, Some(f.x.len())).ok() == Some(eb.clone());
            if !ok {
                ctx.fail(C, "C05.to-operations-declared", input, json!(format!("{:?}", ops)), json!({"x": f.x, "a": ea, "b": eb}));
            }
        }
    }
    // a functor with object images of mixed lengths
    let p = PFun { img: img.clone() };
    match guard(|| p.map_arrow(&s)) {
        Err(e) => panic_fail(ctx, C, "functor", input, &e),
        Ok(r) => {
            if let Some(m) = strict_result(ctx, C, "functor", input, &r, &apply_img(&img, &a), &apply_img(&img, &b)) {
                // every edge of the result comes from the image of an edge of the argument
                let want: usize = (0..f.x.len()).map(|i| op_image(f.x[i], &apply_img(&img, &ea[i]), &apply_img(&img, &eb[i])).x.len()).sum();
                if m.x.len() != want {
                    ctx.fail(C, "C05.functor-edges", input, json!(m.x.len()), json!(want));
                }
            }
        }
    }
    // the same through the crate-private spider construction, fed by hand
    match guard(|| {
        let fw = p.map_object(&s.h.w);
        let fx = p.map_operations(open_hypergraphs::verif_hooks::to_operations(&s));
        open_hypergraphs::verif_hooks::spider_map_arrow::<VecKind, u8, u8, u8, u8>(&s, fw, fx)
    }) {
        Err(e) => panic_fail(ctx, C, "spider-map-arrow", input, &e),
        Ok(r) => {
            strict_result(ctx, C, "spider-map-arrow", input, &r, &apply_img(&img, &a), &apply_img(&img, &b));
        }
    }
}

/// input: {"f": {"m","q"} (label-consistent), "img": ..}
pub fn chk_lax_functor(ctx: &mut Ctx, input: &Value) {
    const C: &str = "lax_functor";
    let dec = || Some((LM::from_json(input.get("f")?)?, imgs(input.get("img"))?));
    let (f, img) = match dec() {
        Some(v) => v,
        None => return,
    };
    if !f.valid() || !labels_ok(&f.m) || f.quotiented().is_none() {
        return;
    }
    let lens: Vec<usize> = f.m.w.iter().map(|&l| img[l as usize].len()).collect();
    ctx.case(C, input, f.nontrivial() && lens.iter().any(|&l| l != 1));
    let l = f.to_lax();
    let (a, b) = (f.m.source_type(), f.m.target_type());
    let (fa, fb) = (apply_img(&img, &a), apply_img(&img, &b));
    // identity functor of the lax module (through the strict representation)
    match guard(|| LaxFunctor::map_arrow(&dyn_functor::Identity, &l)) {
        Err(p) => panic_fail(ctx, C, "lax-functor-identity", input, &p),
        Ok(r) => {
            lax_result(ctx, C, "lax-functor-identity", input, &r, &a, &b);
        }
    }
    let lfun = LFun { img: img.clone() };
    match guard(|| lfun.map_arrow(&l)) {
        Err(p) => panic_fail(ctx, C, "lax-functor", input, &p),
        Ok(r) => {
            if lax_result(ctx, C, "lax-functor", input, &r, &fa, &fb).is_some() {
                lax_then_strict(ctx, C, "lax-functor", input, &r, &fa, &fb, None);
            }
        }
    }
    // the purely lax construction: refuses diagrams with pending identifications
    let strict_input = f.q.is_empty();
    match guard(|| open_hypergraphs::lax::functor::try_define_map_arrow(&lfun, &l)) {
        Err(p) => panic_fail(ctx, C, "try-map-arrow", input, &p),
        Ok(None) => {
            if strict_input {
                ctx.fail(C, "C05.try-map-arrow-defined", input, json!("None"), json!("Some (no pending identifications)"));
            }
        }
        Ok(Some(r)) => {
            if !strict_input {
                ctx.fail(C, "C05.try-map-arrow-defined", input, json!("Some"), json!("None (pending identifications)"));
            } else if lax_result(ctx, C, "try-map-arrow", input, &r, &fa, &fb).is_some() {
                lax_then_strict(ctx, C, "try-map-arrow", input, &r, &fa, &fb, None);
            }
        }
    }
    match guard(|| open_hypergraphs::lax::functor::map_arrow_witness(&lfun, &l)) {
        Err(p) => panic_fail(ctx, C, "map-arrow-witness", input, &p),
        Ok(None) => {
            if strict_input {
                ctx.fail(C, "C05.map-arrow-witness-defined", input, json!("None"), json!("Some (no pending identifications)"));
            }
        }
        Ok(Some((r, wit))) => {
            if !strict_input {
                ctx.fail(C, "C05.map-arrow-witness-defined", input, json!("Some"), json!("None (pending identifications)"));
            } else if let Some(lm) = lax_result(ctx, C, "map-arrow-witness", input, &r, &fa, &fb) {
                lax_then_strict(ctx, C, "map-arrow-witness", input, &r, &fa, &fb, None);
                // the witness: one segment per node of the argument, pointing at result nodes that carry
                // the image of that node's label
                match ic_wf(&wit, Some(f.m.w.len()), Some(lm.m.w.len())) {
                    Err(why) => ctx.fail(C, "C05.map-arrow-witness-wf", input, json!(why), json!("well-formed segmented array into the result's nodes")),
                    Ok(segs) => {
                        let got: Vec<Vec<u8>> = segs.iter().map(|s| s.iter().map(|&v| lm.m.w[v]).collect()).collect();
                        let want: Vec<Vec<u8>> = f.m.w.iter().map(|&l| img[l as usize].clone()).collect();
                        if got != want {
                            ctx.fail(C, "C05.map-arrow-witness-type", input, json!(got), json!(want));
                        }
                    }
                }
            }
        }
    }
    // the forgetful functors (identity on objects): variable-labelled operations become spiders
    let ef = to_e(&l);
    for which in 0..2 {
        match guard(|| if which == 0 { lax::var::forget::forget(&ef) } else { lax::var::forget::forget_monogamous(&ef) }) {
            Err(p) => panic_fail(ctx, C, "forget", input, &p),
            Ok(r) => match lax_wf_with(&r, |e| e.0) {
                Err(why) => ctx.fail(C, "C05.forget-wf", input, json!(why), json!("well-formed lax diagram")),
                Ok(lm) => {
                    if lm.m.source_type() != a || lm.m.target_type() != b {
                        ctx.fail(C, "C05.forget-type", input, json!([lm.m.source_type(), lm.m.target_type()]), json!([a, b]));
                    }
                }
            },
        }
    }
}

/// input: {"f": {"m","q"}, "fimg":.., "rimg":.., "res": [[..],[..],[..]]}
pub fn chk_optic(ctx: &mut Ctx, input: &Value) {
    const C: &str = "optic";
    let dec = || Some((LM::from_json(input.get("f")?)?, imgs(input.get("fimg"))?, imgs(input.get("rimg"))?, imgs(input.get("res"))?));
    let (f, fimg, rimg, res) = match dec() {
        Some(v) => v,
        None => return,
    };
    let e = match f.quotiented() {
        Some(e) if f.valid() && labels_ok(&f.m) => e,
        _ => return,
    };
    ctx.case(C, input, f.nontrivial() && !f.m.x.is_empty());
    let o = TOptic { fimg: fimg.clone(), rimg: rimg.clone(), res };
    let (a, b) = (e.source_type(), e.target_type());
    let l = f.to_lax();
    // lax interface
    let l2 = l.clone();
    match guard(|| o.map_arrow(l2)) {
        Err(p) => panic_fail(ctx, C, "optic-map-arrow", input, &p),
        Ok(r) => {
            lax_result(ctx, C, "optic-map-arrow", input, &r, &o.inter(&a), &o.inter(&b));
        }
    }
    let (fa, fb, ra, rb) = (apply_img(&fimg, &a), apply_img(&fimg, &b), apply_img(&rimg, &a), apply_img(&rimg, &b));
    let l2 = l.clone();
    match guard(|| o.map_adapted(l2)) {
        Err(p) => panic_fail(ctx, C, "optic-map-adapted", input, &p),
        Ok(r) => {
            lax_result(ctx, C, "optic-map-adapted", input, &r, &[fa.clone(), rb.clone()].concat(), &[fb.clone(), ra.clone()].concat());
        }
    }
    // strict interface on the quotiented diagram
    let so = strict_optic(&o);
    let s = e.to_strict();
    match guard(|| so.map_object(&sf(&e.w))) {
        Err(p) => panic_fail(ctx, C, "optic-map-object", input, &p),
        Ok(c) => {
            let want: Vec<Vec<u8>> = e.w.iter().map(|&l| o.inter(&[l])).collect();
            match sic_wf(&c, Some(e.w.len())) {
                Err(why) => ctx.fail(C, "C05.optic-map-object-wf", input, json!(why), json!(want)),
                Ok(segs) => {
                    if segs != want {
                        ctx.fail(C, "C05.optic-map-object-type", input, json!(segs), json!(want));
                    }
                }
            }
        }
    }
    let ea: Vec<u8> = e.src.iter().flatten().map(|&v| e.w[v]).collect();
    let eb: Vec<u8> = e.tgt.iter().flatten().map(|&v| e.w[v]).collect();
    match guard(|| so.map_operations(open_hypergraphs::verif_hooks::to_operations(&s))) {
        Err(p) => panic_fail(ctx, C, "optic-map-operations", input, &p),
        Ok(r) => {
            strict_result(ctx, C, "optic-map-operations", input, &r, &o.inter(&ea), &o.inter(&eb));
        }
    }
    match guard(|| so.map_arrow(&s)) {
        Err(p) => panic_fail(ctx, C, "optic-strict-map-arrow", input, &p),
        Ok(r) => {
            if strict_result(ctx, C, "optic-strict-map-arrow", input, &r, &o.inter(&a), &o.inter(&b)).is_some() {
                match guard(|| so.adapt(&r, &sf(&a), &sf(&b))) {
                    Err(p) => panic_fail(ctx, C, "optic-adapt", input, &p),
                    Ok(d) => {
                        strict_result(ctx, C, "optic-adapt", input, &d, &[fa, rb].concat(), &[fb, ra].concat());
                    }
                }
            }
        }
    }
}

// ---- enumeration -------------------------------------------------------------------------------------
pub fn run(ctx: &mut Ctx) {
    let cs = corner_lms();
    let cimgs = corner_imgs();
    // corners x corner images
    for f in &cs {
        if !labels_ok(&f.m) {
            continue;
        }
        for (i, img) in cimgs.iter().enumerate() {
            if f.q.is_empty() {
                chk_strict_functor(ctx, &json!({"f": f.m.json(), "img": img}));
            }
            chk_lax_functor(ctx, &json!({"f": f.json(), "img": img}));
            let rimg = &cimgs[(i + 1) % cimgs.len()];
            chk_optic(ctx, &json!({"f": f.json(), "fimg": img, "rimg": rimg, "res": [[], [1], [0, 2]]}));
        }
    }
    // exhaustive tiny diagrams under the mixed-length image (labels 0,1 -> lengths 0 and 1; plus doubled)
    for f in small_models(if ctx.thorough() { 2 } else { 1 }) {
        for img in [&cimgs[1], &cimgs[4]] {
            chk_strict_functor(ctx, &json!({"f": f.json(), "img": img}));
            chk_lax_functor(ctx, &json!({"f": LM::plain(f.clone()).json(), "img": img}));
        }
        chk_optic(ctx, &json!({"f": LM::plain(f.clone()).json(), "fimg": cimgs[1], "rimg": cimgs[2], "res": [[0], [], [1, 1]]}));
    }
    // random
    for i in 0..ctx.budget(5000, 72000) {
        let b = pick_bounds(&mut ctx.rng);
        let f = rand_lm(&mut ctx.rng, b);
        let img = rand_img(&mut ctx.rng);
        chk_lax_functor(ctx, &json!({"f": f.json(), "img": img}));
        chk_strict_functor(ctx, &json!({"f": f.m.json(), "img": img}));
        if i % 2 == 0 {
            let (rimg, res) = (rand_img(&mut ctx.rng), rand_img(&mut ctx.rng));
            chk_optic(ctx, &json!({"f": f.json(), "fimg": img, "rimg": rimg, "res": res}));
        }
    }
}
