//! C05, part 2: the building blocks of every diagram operation — finite-function operations,
//! segmented-array operations and hypergraph operations — return well-formed values of the promised
//! shape (entries in range, segment sizes adding up, promised domain/codomain).
use super::util::*;
use crate::ctx::{guard, Ctx};
use crate::model::*;
use open_hypergraphs::array::vec::*;
use open_hypergraphs::category::*;
use open_hypergraphs::finite_function::FiniteFunction;
use open_hypergraphs::indexed_coproduct::IndexedCoproduct;
use open_hypergraphs::operations::Operations;
use open_hypergraphs::strict::hypergraph::Hypergraph;
use serde_json::{json, Value};

type F = FiniteFunction<VecKind>;

fn ff_expect(ctx: &mut Ctx, c: &str, op: &str, input: &Value, got: Result<Option<FF>, String>, want: Option<(Vec<usize>, usize)>) {
    match (got, want) {
        (Err(p), _) => panic_fail(ctx, c, op, input, &p),
        (Ok(None), None) => {}
        (Ok(None), Some(w)) => ctx.fail(c, &format!("C05.{}-defined", op), input, json!("None"), json!({"table": w.0, "target": w.1})),
        (Ok(Some(f)), None) => ctx.fail(c, &format!("C05.{}-defined", op), input, ff_json(&f), json!("None")),
        (Ok(Some(f)), Some(w)) => {
            if let Err(why) = ff_wf(&f) {
                ctx.fail(c, &format!("C05.{}-wf", op), input, json!([why, ff_json(&f)]), json!({"table": w.0, "target": w.1}));
            } else if f.table.0 != w.0 || f.target != w.1 {
                ctx.fail(c, &format!("C05.{}-value", op), input, ff_json(&f), json!({"table": w.0, "target": w.1}));
            }
        }
    }
}

/// input: {"a":n, "b":n, "x":n} — the parameterised constructors of finite functions
pub fn chk_ff_build(ctx: &mut Ctx, input: &Value) {
    const C: &str = "ff_build";
    let dec = || Some((num(input.get("a")?)?, num(input.get("b")?)?, num(input.get("x")?)?));
    let (a, b, x) = match dec() {
        Some(v) => v,
        None => return,
    };
    ctx.case(C, input, a + b > 0);
    ff_expect(ctx, C, "ff-identity", input, guard(|| Some(F::identity(a))), Some(((0..a).collect(), a)));
    ff_expect(ctx, C, "ff-inj0", input, guard(|| Some(F::inj0(a, b))), Some(((0..a).collect(), a + b)));
    ff_expect(ctx, C, "ff-inj1", input, guard(|| Some(F::inj1(a, b))), Some(((a..a + b).collect(), a + b)));
    ff_expect(ctx, C, "ff-initial", input, guard(|| Some(F::initial(a))), Some((vec![], a)));
    ff_expect(ctx, C, "ff-terminal", input, guard(|| Some(F::terminal(a))), Some((vec![0; a], 1)));
    ff_expect(ctx, C, "ff-constant", input, guard(|| Some(F::constant(a, x, b))), Some((vec![x; a], x + 1 + b)));
    // symmetry a+b -> b+a: the first a positions land after the b block
    ff_expect(ctx, C, "ff-twist", input, guard(|| Some(F::twist(a, b))), Some(((0..a + b).map(|i| if i < a { b + i } else { i - a }).collect(), a + b)));
    // transposition permutation of an a*b grid: a well-formed bijection on a*b points
    match guard(|| F::transpose(a, b)) {
        Err(p) => panic_fail(ctx, C, "ff-transpose", input, &p),
        Ok(f) => {
            let mut seen = vec![false; a * b];
            let mut ok = f.target == a * b && f.table.0.len() == a * b && ff_wf(&f).is_ok();
            if ok {
                for &v in &f.table.0 {
                    if seen[v] {
                        ok = false;
                    }
                    seen[v] = true;
                }
            }
            if !ok {
                ctx.fail(C, "C05.ff-transpose-wf", input, ff_json(&f), json!(format!("a permutation of {} points", a * b)));
            }
        }
    }
}

/// input: {"f":{"table","target"}, "g":{"table","target"}, "k":n} — binary operations on legal finite functions
pub fn chk_ff_ops(ctx: &mut Ctx, input: &Value) {
    const C: &str = "ff_ops";
    let dec = || Some((ff_spec(input.get("f")?)?, ff_spec(input.get("g")?)?, num(input.get("k")?)?));
    let ((ft, fn_), (gt, gn), k) = match dec() {
        Some(v) => v,
        None => return,
    };
    if !ft.iter().all(|&v| v < fn_) || !gt.iter().all(|&v| v < gn) {
        return;
    }
    ctx.case(C, input, !ft.is_empty() && !gt.is_empty());
    let (f, g) = (raw_ff(&ft, fn_), raw_ff(&gt, gn));
    ff_expect(ctx, C, "ff-inject0", input, guard(|| Some(f.inject0(k))), Some((ft.clone(), fn_ + k)));
    ff_expect(ctx, C, "ff-inject1", input, guard(|| Some(f.inject1(k))), Some((ft.iter().map(|v| v + k).collect(), fn_ + k)));
    ff_expect(ctx, C, "ff-to-initial", input, guard(|| Some(f.to_initial())), Some((vec![], fn_)));
    ff_expect(ctx, C, "ff-compose", input, guard(|| f.compose(&g)), if fn_ == gt.len() { Some((ft.iter().map(|&v| gt[v]).collect(), gn)) } else { None });
    ff_expect(ctx, C, "ff-compose", input, guard(|| &f >> &g), if fn_ == gt.len() { Some((ft.iter().map(|&v| gt[v]).collect(), gn)) } else { None });
    ff_expect(ctx, C, "ff-coproduct", input, guard(|| f.coproduct(&g)), if fn_ == gn { Some(([ft.clone(), gt.clone()].concat(), fn_)) } else { None });
    ff_expect(ctx, C, "ff-coproduct", input, guard(|| &f + &g), if fn_ == gn { Some(([ft.clone(), gt.clone()].concat(), fn_)) } else { None });
    let tens = (ft.iter().cloned().chain(gt.iter().map(|v| v + fn_)).collect::<Vec<_>>(), fn_ + gn);
    ff_expect(ctx, C, "ff-tensor", input, guard(|| Some(f.tensor(&g))), Some(tens.clone()));
    ff_expect(ctx, C, "ff-tensor", input, guard(|| Some(&f | &g)), Some(tens));
    // injections(s = f as sizes, a = g): block of s(a(x)) consecutive indices starting at the offset of a(x)
    let want_inj = if gn == ft.len() {
        let mut off = vec![0usize; ft.len() + 1];
        for i in 0..ft.len() {
            off[i + 1] = off[i] + ft[i];
        }
        let mut tab = vec![];
        for &x in &gt {
            tab.extend(off[x]..off[x] + ft[x]);
        }
        Some((tab, off[ft.len()]))
    } else {
        None
    };
    ff_expect(ctx, C, "ff-injections", input, guard(|| f.injections(&g)), want_inj);
    // coequalizer of a parallel pair: a well-formed surjection that identifies exactly the generated classes
    let want_def = ft.len() == gt.len() && fn_ == gn;
    // (with no points the library's component routine refuses edges, which cannot exist anyway)
    match guard(|| f.coequalizer(&g)) {
        Err(p) => panic_fail(ctx, C, "ff-coequalizer", input, &p),
        Ok(None) => {
            if want_def {
                ctx.fail(C, "C05.ff-coequalizer-defined", input, json!("None"), json!("Some (parallel pair)"));
            }
        }
        Ok(Some(q)) => {
            if !want_def {
                ctx.fail(C, "C05.ff-coequalizer-defined", input, ff_json(&q), json!("None (not parallel)"));
            } else {
                let prs: Vec<(usize, usize)> = ft.iter().cloned().zip(gt.iter().cloned()).collect();
                let (cls, kk) = classes(fn_, &prs);
                let mut ok = ff_wf(&q).is_ok() && q.table.0.len() == fn_ && q.target == kk;
                if ok {
                    for i in 0..fn_ {
                        for j in 0..fn_ {
                            if (cls[i] == cls[j]) != (q.table.0[i] == q.table.0[j]) {
                                ok = false;
                            }
                        }
                    }
                }
                if !ok {
                    ctx.fail(C, "C05.ff-coequalizer-wf", input, ff_json(&q), json!({"classes": cls, "count": kk}));
                }
            }
        }
    }
}

fn ic_expect(ctx: &mut Ctx, c: &str, op: &str, input: &Value, got: Result<Option<IC>, String>, want: Option<(Vec<Vec<usize>>, usize)>) {
    match (got, want) {
        (Err(p), _) => panic_fail(ctx, c, op, input, &p),
        (Ok(None), None) => {}
        (Ok(None), Some(w)) => ctx.fail(c, &format!("C05.{}-defined", op), input, json!("None"), json!({"segs": w.0, "target": w.1})),
        (Ok(Some(r)), None) => ctx.fail(c, &format!("C05.{}-defined", op), input, json!(format!("{:?}", r)), json!("None")),
        (Ok(Some(r)), Some(w)) => match ic_wf(&r, Some(w.0.len()), Some(w.1)) {
            Err(why) => ctx.fail(c, &format!("C05.{}-wf", op), input, json!([why, format!("{:?}", r)]), json!({"segs": w.0, "target": w.1})),
            Ok(segs) => {
                if segs != w.0 || r.len() != w.0.len() {
                    ctx.fail(c, &format!("C05.{}-value", op), input, json!(segs), json!({"segs": w.0, "target": w.1}));
                }
            }
        },
    }
}

/// input: {"a":{"segs","target"}, "b":{"segs","target"}, "x":{"table","target"}, "lab":[labels]}
pub fn chk_ic_ops(ctx: &mut Ctx, input: &Value) {
    const C: &str = "ic_ops";
    let dec = || Some((ic_spec(input.get("a")?)?, ic_spec(input.get("b")?)?, ff_spec(input.get("x")?)?, u8s(input.get("lab")?)?));
    let ((asg, an), (bsg, bn), (xt, xn), lab) = match dec() {
        Some(v) => v,
        None => return,
    };
    if !xt.iter().all(|&v| v < xn) {
        return;
    }
    let (a, b) = match (mk_ic(&asg, an), mk_ic(&bsg, bn)) {
        (Some(a), Some(b)) => (a, b),
        _ => return,
    };
    ctx.case(C, input, !asg.is_empty() && !bsg.is_empty());
    let x = raw_ff(&xt, xn);
    let aflat = flat(&asg);
    // constructors from a values array
    ic_expect(ctx, C, "ic-singleton", input, guard(|| Some(IndexedCoproduct::singleton(raw_ff(&aflat, an)))), Some((vec![aflat.clone()], an)));
    ic_expect(ctx, C, "ic-elements", input, guard(|| Some(IndexedCoproduct::elements(raw_ff(&aflat, an)))), Some((aflat.iter().map(|&v| vec![v]).collect(), an)));
    ic_expect(ctx, C, "ic-initial", input, guard(|| Some(IC::initial(an))), Some((vec![], an)));
    // tensor: segments side by side, second block shifted
    let tens: Vec<Vec<usize>> = asg.iter().cloned().chain(bsg.iter().map(|l| l.iter().map(|v| v + an).collect())).collect();
    ic_expect(ctx, C, "ic-tensor", input, guard(|| Some(a.tensor(&b))), Some((tens, an + bn)));
    // coproduct: same codomain required
    ic_expect(ctx, C, "ic-coproduct", input, guard(|| a.coproduct(&b)), if an == bn { Some((asg.iter().chain(bsg.iter()).cloned().collect(), an)) } else { None });
    // map_values: post-compose every segment
    ic_expect(ctx, C, "ic-map-values", input, guard(|| a.map_values(&x)), if xt.len() == an { Some((asg.iter().map(|l| l.iter().map(|&v| xt[v]).collect()).collect(), xn)) } else { None });
    // map_indexes / indexed_values: pick segments
    let picked: Option<Vec<Vec<usize>>> = if xn == asg.len() { Some(xt.iter().map(|&i| asg[i].clone()).collect()) } else { None };
    ic_expect(ctx, C, "ic-map-indexes", input, guard(|| a.map_indexes(&x)), picked.clone().map(|p| (p, an)));
    match (guard(|| a.indexed_values(&x)), &picked) {
        (Err(p), _) => panic_fail(ctx, C, "ic-indexed-values", input, &p),
        (Ok(None), None) => {}
        (Ok(Some(v)), Some(p)) if v.table.0 == flat(p) && v.target == an => {}
        (Ok(v), p) => ctx.fail(C, "C05.ic-indexed-values-value", input, json!(v.map(|f| ff_json(&f))), json!(p)),
    }
    // map_semifinite: relabel values
    match guard(|| a.map_semifinite(&sf(&lab))) {
        Err(p) => panic_fail(ctx, C, "ic-map-semifinite", input, &p),
        Ok(None) => {
            if lab.len() == an {
                ctx.fail(C, "C05.ic-map-semifinite-defined", input, json!("None"), json!("Some"));
            }
        }
        Ok(Some(r)) => {
            if lab.len() != an {
                ctx.fail(C, "C05.ic-map-semifinite-defined", input, json!(format!("{:?}", r)), json!("None"));
            } else {
                let want: Vec<Vec<u8>> = asg.iter().map(|l| l.iter().map(|&v| lab[v]).collect()).collect();
                match sic_wf(&r, Some(asg.len())) {
                    Err(why) => ctx.fail(C, "C05.ic-map-semifinite-wf", input, json!(why), json!(want)),
                    Ok(s) => {
                        if s != want {
                            ctx.fail(C, "C05.ic-map-semifinite-value", input, json!(s), json!(want));
                        }
                    }
                }
            }
        }
    }
    // flatmap: a : A -> B*, b : B -> C*  (precondition: b has one segment per element of a's codomain)
    if bsg.len() == an {
        let want: Vec<Vec<usize>> = asg.iter().map(|l| l.iter().flat_map(|&v| bsg[v].iter().cloned()).collect()).collect();
        ic_expect(ctx, C, "ic-flatmap", input, guard(|| Some(a.flatmap(&b))), Some((want, bn)));
    }
    // flatmap_sources: b has one segment per value of a; merge them along a's segments
    if bsg.len() == aflat.len() {
        let mut want = vec![];
        let mut p = 0;
        for l in &asg {
            want.push(bsg[p..p + l.len()].iter().flatten().cloned().collect::<Vec<_>>());
            p += l.len();
        }
        ic_expect(ctx, C, "ic-flatmap-sources", input, guard(|| Some(a.flatmap_sources(&b))), Some((want, bn)));
    }
}

/// input: {"f": model, "g": model, "q": {"table","target"}} — hypergraph-level operations
pub fn chk_hg_ops(ctx: &mut Ctx, input: &Value) {
    const C: &str = "hg_ops";
    let dec = || Some((M::from_json(input.get("f")?)?, M::from_json(input.get("g")?)?, ff_spec(input.get("q")?)?));
    let (f, g, (qt, qn)) = match dec() {
        Some(v) => v,
        None => return,
    };
    if !f.valid() || !g.valid() || !qt.iter().all(|&v| v < qn) {
        return;
    }
    ctx.case(C, input, f.nontrivial() && g.nontrivial());
    let strip = |m: &M| M { s: vec![], t: vec![], ..m.clone() };
    let (hf, hg) = (f.to_strict().h, g.to_strict().h);
    // empty / discrete
    match guard(|| (SH::empty(), SH::discrete(sf(&f.w)))) {
        Err(p) => panic_fail(ctx, C, "hg-discrete", input, &p),
        Ok((e, d)) => {
            if sh_wf(&e).ok() != Some(M::empty()) {
                ctx.fail(C, "C05.hg-empty-wf", input, json!(format!("{:?}", e)), M::empty().json());
            }
            let want = M { w: f.w.clone(), ..M::empty() };
            if sh_wf(&d).ok() != Some(want.clone()) {
                ctx.fail(C, "C05.hg-discrete-wf", input, json!(format!("{:?} / {:?}", d, sh_wf(&d))), want.json());
            }
            if !d.is_discrete() || (hf.is_discrete() != f.x.is_empty()) {
                ctx.fail(C, "C05.hg-is-discrete", input, json!([d.is_discrete(), hf.is_discrete()]), json!([true, f.x.is_empty()]));
            }
        }
    }
    // coproduct (both spellings)
    let want = strip(&tensor(&f, &g));
    for which in 0..2 {
        match guard(|| if which == 0 { hf.coproduct(&hg) } else { &hf + &hg }) {
            Err(p) => panic_fail(ctx, C, "hg-coproduct", input, &p),
            Ok(h) => match sh_wf(&h) {
                Err(why) => ctx.fail(C, "C05.hg-coproduct-wf", input, json!(why), want.json()),
                Ok(m) => expect_iso(ctx, C, "C05.hg-coproduct-model", input, &m, &want),
            },
        }
    }
    // coequalize_vertices with a (surjective) node map q: defined iff q is a map out of the node set
    // that never merges differently labelled nodes
    let n = f.w.len();
    let surj = (0..qn).all(|c| qt.contains(&c));
    if surj {
        let compatible = qt.len() == n && (0..n).all(|i| (0..n).all(|j| qt[i] != qt[j] || f.w[i] == f.w[j]));
        let q = raw_ff(&qt, qn);
        match guard(|| hf.coequalize_vertices(&q)) {
            Err(p) => panic_fail(ctx, C, "hg-coequalize", input, &p),
            Ok(None) => {
                if compatible {
                    ctx.fail(C, "C05.hg-coequalize-defined", input, json!("None"), json!("Some"));
                }
            }
            Ok(Some(h)) => {
                if !compatible {
                    ctx.fail(C, "C05.hg-coequalize-defined", input, json!(format!("{:?}", h)), json!("None"));
                } else {
                    let mut w = vec![0u8; qn];
                    for i in 0..n {
                        w[qt[i]] = f.w[i];
                    }
                    let mp = |l: &Vec<usize>| l.iter().map(|&v| qt[v]).collect::<Vec<_>>();
                    let want = M { w, x: f.x.clone(), src: f.src.iter().map(mp).collect(), tgt: f.tgt.iter().map(mp).collect(), s: vec![], t: vec![] };
                    match sh_wf(&h) {
                        Err(why) => ctx.fail(C, "C05.hg-coequalize-wf", input, json!(why), want.json()),
                        Ok(m) => {
                            if m != want {
                                ctx.fail(C, "C05.hg-coequalize-value", input, m.json(), want.json());
                            }
                        }
                    }
                }
            }
        }
    }
    let _ = (Operations::<VecKind, u8, u8>::singleton(0, sf(&[]), sf(&[])), Hypergraph::<VecKind, u8, u8>::empty());
}

// ---- enumeration -----------------------------------------------------------------------------------------
fn rand_ff(r: &mut crate::ctx::Rng, max_len: usize, max_target: usize) -> (Vec<usize>, usize) {
    let target = r.range(0, max_target);
    let len = if target == 0 { 0 } else { r.range(0, max_len) };
    (r.vec_below(len, target.max(1)), target)
}
fn rand_ic(r: &mut crate::ctx::Rng, max_segs: usize, max_len: usize, max_target: usize) -> (Vec<Vec<usize>>, usize) {
    let target = r.range(0, max_target);
    let k = r.range(0, max_segs);
    let segs = (0..k)
        .map(|_| {
            if target == 0 {
                vec![]
            } else {
                let l = r.range(0, max_len);
                r.vec_below(l, target)
            }
        })
        .collect();
    (segs, target)
}
fn ffj(f: &(Vec<usize>, usize)) -> Value {
    json!({"table": f.0, "target": f.1})
}
fn icj(c: &(Vec<Vec<usize>>, usize)) -> Value {
    json!({"segs": c.0, "target": c.1})
}

pub fn run(ctx: &mut Ctx) {
    // ff_build: exhaustive a,b,x in 0..=4
    for a in 0..=4usize {
        for b in 0..=4usize {
            for x in 0..=2usize {
                chk_ff_build(ctx, &json!({"a": a, "b": b, "x": x}));
            }
        }
    }
    // ff_ops: random pairs; half of them shaped to be composable / parallel / same-codomain
    for i in 0..ctx.budget(6000, 240000) {
        let f = rand_ff(&mut ctx.rng, 5, 4);
        let mut g = rand_ff(&mut ctx.rng, 5, 4);
        match i % 4 {
            0 => {
                // composable: g has f.target entries
                g.0 = if g.1 == 0 { vec![] } else { ctx.rng.vec_below(f.1, g.1) };
                if g.0.len() != f.1 {
                    g = ((0..f.1).collect(), f.1.max(1));
                }
            }
            1 => {
                // parallel pair
                g = (ctx.rng.vec_below(f.0.len(), f.1.max(1)), f.1);
            }
            2 => g.1 = g.1.max(f.1).max(g.0.iter().map(|v| v + 1).max().unwrap_or(0)),
            _ => {}
        }
        let k = ctx.rng.below(4);
        chk_ff_ops(ctx, &json!({"f": ffj(&f), "g": ffj(&g), "k": k}));
    }
    // a long identification chain and a binomial-order merge through the coequalizer
    for n in [16usize, 64] {
        let chain = ((0..n - 1).collect::<Vec<_>>(), n);
        let next = ((1..n).collect::<Vec<_>>(), n);
        chk_ff_ops(ctx, &json!({"f": ffj(&chain), "g": ffj(&next), "k": 1}));
        let b = binomial_lax(n);
        let l = (b.q.iter().map(|p| p.0).collect::<Vec<_>>(), n);
        let r = (b.q.iter().map(|p| p.1).collect::<Vec<_>>(), n);
        chk_ff_ops(ctx, &json!({"f": ffj(&l), "g": ffj(&r), "k": 0}));
    }
    // ic_ops: random; shapes chosen so that each precondition is met regularly
    for i in 0..ctx.budget(6000, 240000) {
        let a = rand_ic(&mut ctx.rng, 3, 3, 3);
        let mut b = rand_ic(&mut ctx.rng, 3, 3, 3);
        let mut x = rand_ff(&mut ctx.rng, 4, 4);
        let nvals: usize = a.0.iter().map(|l| l.len()).sum();
        match i % 5 {
            0 => {
                // b : one segment per element of a's codomain (flatmap)
                let t = b.1;
                b.0 = (0..a.1).map(|_| if t == 0 { vec![] } else { let l = ctx.rng.range(0, 2); ctx.rng.vec_below(l, t) }).collect();
            }
            1 => {
                // b : one segment per value of a (flatmap_sources)
                let t = b.1;
                b.0 = (0..nvals).map(|_| if t == 0 { vec![] } else { let l = ctx.rng.range(0, 2); ctx.rng.vec_below(l, t) }).collect();
            }
            2 => {
                // x : map out of a's codomain (map_values)
                let t = x.1.max(1);
                x = (ctx.rng.vec_below(a.1, t), t);
            }
            3 => {
                // x : selects segments of a (map_indexes), with repeats
                let l = ctx.rng.range(0, 4);
                x = (if a.0.is_empty() { vec![] } else { ctx.rng.vec_below(l, a.0.len()) }, a.0.len());
            }
            _ => {
                // same codomain (coproduct)
                if b.0.iter().flatten().all(|&v| v < a.1) {
                    b.1 = a.1;
                }
            }
        }
        let lab: Vec<u8> = if ctx.rng.chance(4, 5) { (0..a.1).map(|_| ctx.rng.below(3) as u8).collect() } else { rand_type(&mut ctx.rng, 3, 3) };
        chk_ic_ops(ctx, &json!({"a": icj(&a), "b": icj(&b), "x": ffj(&x), "lab": lab}));
    }
    // hg_ops: corners x corners with a random quotient map; then random
    let cs = corners();
    for f in &cs {
        for g in &cs {
            let n = f.w.len();
            let q = ((0..n).collect::<Vec<_>>(), n);
            chk_hg_ops(ctx, &json!({"f": f.json(), "g": g.json(), "q": ffj(&q)}));
        }
    }
    for i in 0..ctx.budget(4000, 120000) {
        let b = pick_bounds(&mut ctx.rng);
        let f = rand_model(&mut ctx.rng, b);
        let g = rand_model(&mut ctx.rng, b);
        let n = f.w.len();
        // q: classes generated by random pairs, label-respecting most of the time; sometimes wrong arity
        let prs = if i % 3 == 0 { (0..2).map(|_| (ctx.rng.below(n.max(1)), ctx.rng.below(n.max(1)))).filter(|_| n > 0).collect() } else { rand_pairs(&mut ctx.rng, &f, 3) };
        let (mut qt, qn) = classes(n, &prs);
        if i % 7 == 0 {
            qt.pop();
        }
        chk_hg_ops(ctx, &json!({"f": f.json(), "g": g.json(), "q": ffj(&(qt, qn))}));
    }
}
