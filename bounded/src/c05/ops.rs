//! C05, part 3: constructors and categorical operations of the strict and the lax module return
//! well-formed diagrams of the promised type (identity A→A, symmetry A●B→B●A, singleton and batches
//! as declared, tensor concatenates, dagger swaps, composition takes the source from the left and the
//! target from the right), and conversions between the two representations preserve both.
use super::util::*;
use crate::ctx::{guard, Ctx};
use crate::model::*;
use open_hypergraphs::array::vec::*;
use open_hypergraphs::category::*;
use open_hypergraphs::lax;
use open_hypergraphs::operations::Operations;
use open_hypergraphs::strict::hypergraph::Hypergraph;
use serde_json::{json, Value};

/// input: {"w":[labels]}
pub fn chk_identity(ctx: &mut Ctx, input: &Value) {
    const C: &str = "identity";
    let w = match input.get("w").and_then(u8s) {
        Some(w) => w,
        None => return,
    };
    ctx.case(C, input, !w.is_empty());
    let e = identity(&w);
    for which in 0..2 {
        let w2 = w.clone();
        match guard(move || if which == 0 { SOH::identity(sf(&w2)) } else { <SOH as Arrow>::identity(sf(&w2)) }) {
            Err(p) => panic_fail(ctx, C, "identity", input, &p),
            Ok(r) => {
                if let Some(m) = strict_result(ctx, C, "identity", input, &r, &w, &w) {
                    expect_iso(ctx, C, "C05.identity-model", input, &m, &e);
                }
            }
        }
    }
    for which in 0..2 {
        let w2 = w.clone();
        match guard(move || if which == 0 { LOH::identity(w2) } else { <LOH as Arrow>::identity(w2) }) {
            Err(p) => panic_fail(ctx, C, "lax-identity", input, &p),
            Ok(r) => {
                if let Some(lm) = lax_result(ctx, C, "lax-identity", input, &r, &w, &w) {
                    expect_iso(ctx, C, "C05.lax-identity-model", input, &lm.encoded(), &e);
                }
            }
        }
    }
    // the units
    match guard(|| (<SOH as Monoidal>::unit(), <LOH as Monoidal>::unit(), LOH::empty())) {
        Err(p) => panic_fail(ctx, C, "unit", input, &p),
        Ok((a, b, e0)) => {
            if !a.0 .0.is_empty() || !b.is_empty() {
                ctx.fail(C, "C05.unit-type", input, json!([a.0 .0, b]), json!([[], []]));
            }
            if let Some(lm) = lax_result(ctx, C, "lax-empty", input, &e0, &[], &[]) {
                if lm.encoded() != M::empty() {
                    ctx.fail(C, "C05.lax-empty-model", input, lm.json(), M::empty().json());
                }
            }
        }
    }
}

/// input: {"a":[labels], "b":[labels]}
pub fn chk_twist(ctx: &mut Ctx, input: &Value) {
    const C: &str = "twist";
    let dec = || Some((u8s(input.get("a")?)?, u8s(input.get("b")?)?));
    let (a, b) = match dec() {
        Some(v) => v,
        None => return,
    };
    ctx.case(C, input, !a.is_empty() && !b.is_empty() && a != b);
    let e = twist(&a, &b);
    let (ab, ba) = ([a.clone(), b.clone()].concat(), [b.clone(), a.clone()].concat());
    let (a2, b2) = (a.clone(), b.clone());
    match guard(move || SOH::twist(sf(&a2), sf(&b2))) {
        Err(p) => panic_fail(ctx, C, "twist", input, &p),
        Ok(r) => {
            if let Some(m) = strict_result(ctx, C, "twist", input, &r, &ab, &ba) {
                expect_iso(ctx, C, "C05.twist-model", input, &m, &e);
            }
        }
    }
    let (a2, b2) = (a.clone(), b.clone());
    match guard(move || LOH::twist(a2, b2)) {
        Err(p) => panic_fail(ctx, C, "lax-twist", input, &p),
        Ok(r) => {
            if let Some(lm) = lax_result(ctx, C, "lax-twist", input, &r, &ab, &ba) {
                expect_iso(ctx, C, "C05.lax-twist-model", input, &lm.encoded(), &e);
            }
        }
    }
}

/// input: {"x":label, "a":[labels], "b":[labels]}
pub fn chk_singleton(ctx: &mut Ctx, input: &Value) {
    const C: &str = "singleton";
    let dec = || Some((num(input.get("x")?)? as u8, u8s(input.get("a")?)?, u8s(input.get("b")?)?));
    let (x, a, b) = match dec() {
        Some(v) => v,
        None => return,
    };
    ctx.case(C, input, !a.is_empty() || !b.is_empty());
    let e = singleton(x, &a, &b);
    let (a2, b2) = (a.clone(), b.clone());
    match guard(move || SOH::singleton(x, sf(&a2), sf(&b2))) {
        Err(p) => panic_fail(ctx, C, "singleton", input, &p),
        Ok(r) => {
            if let Some(m) = strict_result(ctx, C, "singleton", input, &r, &a, &b) {
                expect_iso(ctx, C, "C05.singleton-model", input, &m, &e);
            }
        }
    }
    let (a2, b2) = (a.clone(), b.clone());
    match guard(move || LOH::singleton(x, a2, b2)) {
        Err(p) => panic_fail(ctx, C, "lax-singleton", input, &p),
        Ok(r) => {
            if let Some(lm) = lax_result(ctx, C, "lax-singleton", input, &r, &a, &b) {
                expect_iso(ctx, C, "C05.lax-singleton-model", input, &lm.encoded(), &e);
            }
        }
    }
    // the one-element batch
    let (a2, b2) = (a.clone(), b.clone());
    match guard(move || Operations::<VecKind, u8, u8>::singleton(x, sf(&a2), sf(&b2))) {
        Err(p) => panic_fail(ctx, C, "ops-singleton", input, &p),
        Ok(ops) => {
            let ok = ops.x.0 .0 == vec![x] && sic_wf(&ops.a, Some(1)).ok() == Some(vec![a.clone()]) && sic_wf(&ops.b, Some(1)).ok() == Some(vec![b.clone()]) && ops.len() == 1;
            if !ok {
                ctx.fail(C, "C05.ops-singleton-wf", input, json!(format!("{:?}", ops)), input.clone());
            }
        }
    }
}

/// input: {"x":[labels], "a":[[labels]..], "b":[[labels]..]} with equal counts — a batch of operations
pub fn chk_tensor_operations(ctx: &mut Ctx, input: &Value) {
    const C: &str = "tensor_operations";
    let dec = || Some((u8s(input.get("x")?)?, u8ss(input.get("a")?)?, u8ss(input.get("b")?)?));
    let (x, a, b) = match dec() {
        Some(v) => v,
        None => return,
    };
    if x.len() != a.len() || x.len() != b.len() {
        return;
    }
    ctx.case(C, input, x.len() >= 2 || (x.len() == 1 && a[0].len() + b[0].len() > 0));
    let mut e = M::empty();
    for i in 0..x.len() {
        e = tensor(&e, &singleton(x[i], &a[i], &b[i]));
    }
    let (src, tgt) = (flat(&a), flat(&b));
    let mk = {
        let (x, a, b) = (x.clone(), a.clone(), b.clone());
        move || Operations::<VecKind, u8, u8>::new(sf(&x), mk_sic(&a), mk_sic(&b)).expect("batch")
    };
    let mk2 = mk.clone();
    match guard(move || SOH::tensor_operations(mk())) {
        Err(p) => panic_fail(ctx, C, "tensor-operations", input, &p),
        Ok(r) => {
            if let Some(m) = strict_result(ctx, C, "tensor-operations", input, &r, &src, &tgt) {
                // as declared: edge i carries label x[i] and has the declared source and target types
                let declared = m.x == x && (0..x.len()).all(|i| m.src[i].iter().map(|&v| m.w[v]).collect::<Vec<_>>() == a[i] && m.tgt[i].iter().map(|&v| m.w[v]).collect::<Vec<_>>() == b[i]);
                if !declared {
                    ctx.fail(C, "C05.tensor-operations-declared", input, m.json(), e.json());
                }
                expect_iso(ctx, C, "C05.tensor-operations-model", input, &m, &e);
            }
        }
    }
    match guard(move || Hypergraph::<VecKind, u8, u8>::tensor_operations(mk2())) {
        Err(p) => panic_fail(ctx, C, "hg-tensor-operations", input, &p),
        Ok(h) => match sh_wf(&h) {
            Err(why) => ctx.fail(C, "C05.hg-tensor-operations-wf", input, json!(why), e.json()),
            Ok(m) => expect_iso(ctx, C, "C05.hg-tensor-operations-model", input, &m, &M { s: vec![], t: vec![], ..e.clone() }),
        },
    }
}

fn two(input: &Value) -> Option<(LM, LM)> {
    let (f, g) = (LM::from_json(input.get("f")?)?, LM::from_json(input.get("g")?)?);
    if f.valid() && g.valid() {
        Some((f, g))
    } else {
        None
    }
}
fn shift(p: &[(usize, usize)], n: usize) -> Vec<(usize, usize)> {
    p.iter().map(|&(a, b)| (a + n, b + n)).collect()
}

/// input: {"f": {"m": model, "q": pairs}, "g": {..}} — strict tensor of the plain parts, lax tensor
/// (three spellings) of the diagrams with their pending identifications
pub fn chk_tensor(ctx: &mut Ctx, input: &Value) {
    const C: &str = "tensor";
    let (f, g) = match two(input) {
        Some(v) => v,
        None => return,
    };
    ctx.case(C, input, f.nontrivial() && g.nontrivial());
    let e = tensor(&f.m, &g.m);
    let (src, tgt) = (e.source_type(), e.target_type());
    let (sf_, sg) = (f.m.to_strict(), g.m.to_strict());
    for which in 0..2 {
        match guard(|| if which == 0 { sf_.tensor(&sg) } else { &sf_ | &sg }) {
            Err(p) => panic_fail(ctx, C, "tensor", input, &p),
            Ok(r) => {
                if let Some(m) = strict_result(ctx, C, "tensor", input, &r, &src, &tgt) {
                    expect_iso(ctx, C, "C05.tensor-model", input, &m, &e);
                }
            }
        }
    }
    let (lf, lg) = (f.to_lax(), g.to_lax());
    let n = f.m.w.len();
    let all_pairs: Vec<(usize, usize)> = f.q.iter().cloned().chain(shift(&g.q, n)).collect();
    let eq = quotient(&e, &all_pairs).map(|(m, _)| m);
    for which in 0..4 {
        let got = guard(|| match which {
            0 => lf.tensor(&lg),
            1 => <LOH as Monoidal>::tensor(&lf, &lg),
            2 => &lf | &lg,
            _ => {
                let mut h = lf.clone();
                h.tensor_assign(lg.clone());
                h
            }
        });
        match got {
            Err(p) => panic_fail(ctx, C, "lax-tensor", input, &p),
            Ok(r) => {
                if let Some(lm) = lax_result(ctx, C, "lax-tensor", input, &r, &src, &tgt) {
                    if lm.q.len() != all_pairs.len() {
                        ctx.fail(C, "C05.lax-tensor-pending", input, pairs_json(&lm.q), pairs_json(&all_pairs));
                    }
                    if let Some(eq) = &eq {
                        lax_then_strict(ctx, C, "lax-tensor", input, &r, &eq.source_type(), &eq.target_type(), Some(eq));
                    }
                }
            }
        }
    }
}

/// input as `tensor`.  Strict composition of the plain parts (defined iff the types agree); lax
/// composition (label-checked `compose`, arity-checked `lax_compose`) keeping pending identifications.
pub fn chk_compose(ctx: &mut Ctx, input: &Value) {
    const C: &str = "compose";
    let (f, g) = match two(input) {
        Some(v) => v,
        None => return,
    };
    ctx.case(C, input, f.nontrivial() && g.nontrivial() && f.m.target_type() == g.m.source_type());
    let e = compose(&f.m, &g.m);
    let (src, tgt) = (f.m.source_type(), g.m.target_type());
    let (sf_, sg) = (f.m.to_strict(), g.m.to_strict());
    for which in 0..2 {
        match (guard(|| if which == 0 { sf_.compose(&sg) } else { &sf_ >> &sg }), &e) {
            (Err(p), _) => panic_fail(ctx, C, "compose", input, &p),
            (Ok(None), None) => {}
            (Ok(None), Some(e)) => ctx.fail(C, "C05.compose-defined", input, json!("None"), e.json()),
            (Ok(Some(r)), None) => ctx.fail(C, "C05.compose-defined", input, json!(format!("{:?}", r)), json!("None (types differ)")),
            (Ok(Some(r)), Some(e)) => {
                if let Some(m) = strict_result(ctx, C, "compose", input, &r, &src, &tgt) {
                    expect_iso(ctx, C, "C05.compose-model", input, &m, e);
                }
            }
        }
    }
    // lax: disjoint union + one pending identification per boundary position
    let (lf, lg) = (f.to_lax(), g.to_lax());
    let n = f.m.w.len();
    let typed = f.m.target_type() == g.m.source_type();
    let arity = f.m.t.len() == g.m.s.len();
    let mut j = tensor(&f.m, &g.m);
    j.s = f.m.s.clone();
    j.t = g.m.t.iter().map(|&v| v + n).collect();
    let all_pairs: Vec<(usize, usize)> = f.q.iter().cloned().chain(shift(&g.q, n)).chain(f.m.t.iter().zip(g.m.s.iter()).map(|(&a, &b)| (a, b + n))).collect();
    let eq = if arity { quotient(&j, &all_pairs).map(|(m, _)| m) } else { None };
    for which in 0..3 {
        let got = guard(|| match which {
            0 => <LOH as Arrow>::compose(&lf, &lg),
            1 => &lf >> &lg,
            _ => lf.lax_compose(&lg),
        });
        let want_some = if which == 2 { arity } else { typed };
        match got {
            Err(p) => panic_fail(ctx, C, "lax-compose", input, &p),
            Ok(None) => {
                if want_some {
                    ctx.fail(C, "C05.lax-compose-defined", input, json!([which, "None"]), json!("Some"));
                }
            }
            Ok(Some(r)) => {
                if !want_some {
                    ctx.fail(C, "C05.lax-compose-defined", input, json!([which, format!("{:?}", r)]), json!("None"));
                } else if let Some(lm) = lax_result(ctx, C, "lax-compose", input, &r, &src, &tgt) {
                    if lm.q.len() != all_pairs.len() {
                        ctx.fail(C, "C05.lax-compose-pending", input, pairs_json(&lm.q), pairs_json(&all_pairs));
                    }
                    if let Some(eq) = &eq {
                        lax_then_strict(ctx, C, "lax-compose", input, &r, &eq.source_type(), &eq.target_type(), Some(eq));
                    }
                }
            }
        }
    }
}

/// input: {"f": {"m","q"}}
pub fn chk_dagger(ctx: &mut Ctx, input: &Value) {
    const C: &str = "dagger";
    let f = match input.get("f").and_then(LM::from_json) {
        Some(f) if f.valid() => f,
        _ => return,
    };
    ctx.case(C, input, f.nontrivial() && f.m.source_type() != f.m.target_type());
    let e = dagger(&f.m);
    let (src, tgt) = (f.m.target_type(), f.m.source_type());
    let s = f.m.to_strict();
    match guard(|| s.dagger()) {
        Err(p) => panic_fail(ctx, C, "dagger", input, &p),
        Ok(r) => {
            if let Some(m) = strict_result(ctx, C, "dagger", input, &r, &src, &tgt) {
                expect_iso(ctx, C, "C05.dagger-model", input, &m, &e);
            }
        }
    }
    let l = f.to_lax();
    match guard(|| l.dagger()) {
        Err(p) => panic_fail(ctx, C, "lax-dagger", input, &p),
        Ok(r) => {
            if let Some(lm) = lax_result(ctx, C, "lax-dagger", input, &r, &src, &tgt) {
                expect_iso(ctx, C, "C05.lax-dagger-model", input, &lm.encoded(), &LM { m: e.clone(), q: f.q.clone() }.encoded());
            }
        }
    }
}

/// input: {"f": {"m","q"}} with a label-consistent set of pending identifications — conversions
pub fn chk_convert(ctx: &mut Ctx, input: &Value) {
    const C: &str = "convert";
    let f = match input.get("f").and_then(LM::from_json) {
        Some(f) if f.valid() => f,
        _ => return,
    };
    let e = match f.quotiented() {
        Some(e) => e,
        None => return, // not a legal argument of to_strict
    };
    ctx.case(C, input, f.nontrivial() && !f.q.is_empty());
    let (src, tgt) = (e.source_type(), e.target_type());
    let l = f.to_lax();
    // lax -> strict
    lax_then_strict(ctx, C, "to-strict", input, &l, &src, &tgt, Some(&e));
    // in-place quotient: returns the node map, clears the pending list
    let mut l2 = l.clone();
    match guard(move || {
        let q = l2.quotient();
        (q, l2)
    }) {
        Err(p) => panic_fail(ctx, C, "quotient", input, &p),
        Ok((Err(q), _)) => ctx.fail(C, "C05.quotient-defined", input, json!(["Err", ff_json(&q)]), json!("Ok (labels agree on every class)")),
        Ok((Ok(q), after)) => {
            if let Some(lm) = lax_result(ctx, C, "quotient", input, &after, &src, &tgt) {
                if !lm.q.is_empty() {
                    ctx.fail(C, "C05.quotient-pending", input, pairs_json(&lm.q), json!([]));
                }
                expect_iso(ctx, C, "C05.quotient-model", input, &lm.m, &e);
                // the returned map: a well-formed function from the old onto the new node set that moves
                // labels, incidences and interfaces along
                let n = f.m.w.len();
                let ok = ff_wf(&q).is_ok()
                    && q.table.0.len() == n
                    && q.target == lm.m.w.len()
                    && (0..n).all(|i| lm.m.w[q.table.0[i]] == f.m.w[i])
                    && lm.m.s == f.m.s.iter().map(|&v| q.table.0[v]).collect::<Vec<_>>()
                    && lm.m.t == f.m.t.iter().map(|&v| q.table.0[v]).collect::<Vec<_>>();
                if !ok {
                    ctx.fail(C, "C05.quotient-map", input, ff_json(&q), lm.json());
                }
            }
        }
    }
    // hypergraph-level conversion forgets the pending list and keeps the numbering
    match guard(|| l.hypergraph.to_hypergraph()) {
        Err(p) => panic_fail(ctx, C, "to-hypergraph", input, &p),
        Ok(h) => {
            let want = M { s: vec![], t: vec![], ..f.m.clone() };
            match sh_wf(&h) {
                Err(why) => ctx.fail(C, "C05.to-hypergraph-wf", input, json!(why), want.json()),
                Ok(m) => {
                    if m != want {
                        ctx.fail(C, "C05.to-hypergraph-model", input, m.json(), want.json());
                    }
                }
            }
        }
    }
    // strict -> lax (diagram and bare hypergraph)
    let s = e.to_strict();
    let s2 = s.clone();
    match guard(move || LOH::from_strict(s2)) {
        Err(p) => panic_fail(ctx, C, "from-strict", input, &p),
        Ok(r) => {
            if let Some(lm) = lax_result(ctx, C, "from-strict", input, &r, &src, &tgt) {
                expect_iso(ctx, C, "C05.from-strict-model", input, &lm.encoded(), &e);
                // and back again
                lax_then_strict(ctx, C, "round-trip", input, &r, &src, &tgt, Some(&e));
            }
        }
    }
    match guard(move || lax::Hypergraph::from_strict(s.h)) {
        Err(p) => panic_fail(ctx, C, "hg-from-strict", input, &p),
        Ok(h) => {
            let r = lax::OpenHypergraph { sources: vec![], targets: vec![], hypergraph: h };
            if let Some(lm) = lax_result(ctx, C, "hg-from-strict", input, &r, &[], &[]) {
                expect_iso(ctx, C, "C05.hg-from-strict-model", input, &lm.encoded(), &M { s: vec![], t: vec![], ..e.clone() });
            }
        }
    }
}

// ---- enumeration ----------------------------------------------------------------------------------------
pub fn run(ctx: &mut Ctx) {
    // constructors: all label lists of length <= 3 over 3 labels (identity), all pairs of lists of length <= 2
    // over 3 labels plus length-3 lists over 2 labels (twist, singleton)
    for w in all_types(3, 3) {
        chk_identity(ctx, &json!({"w": w}));
    }
    chk_identity(ctx, &json!({"w": vec![1u8; 40]}));
    let mut tys = all_types(2, 3);
    tys.extend(all_types(3, 2).into_iter().filter(|t| t.len() == 3));
    for a in &tys {
        for b in &tys {
            chk_twist(ctx, &json!({"a": a, "b": b}));
            chk_singleton(ctx, &json!({"x": 10 + (a.len() + b.len()) % 3, "a": a, "b": b}));
        }
    }
    for _ in 0..ctx.budget(1000, 30000) {
        let (a, b) = (rand_type(&mut ctx.rng, 6, 3), rand_type(&mut ctx.rng, 6, 3));
        chk_twist(ctx, &json!({"a": a, "b": b}));
        let x = 10 + ctx.rng.below(3);
        chk_singleton(ctx, &json!({"x": x, "a": a, "b": b}));
    }
    // batches: 0..=3 operations, exhaustive over arities 0..=2 per side (labels random); then random larger ones
    chk_tensor_operations(ctx, &json!({"x": [], "a": [], "b": []}));
    for k in 1..=3usize {
        let combos = 9usize.pow(k as u32);
        for c in 0..combos {
            let mut cc = c;
            let mut a = vec![];
            let mut b = vec![];
            for _ in 0..k {
                let (la, lb) = (cc % 3, (cc / 3) % 3);
                cc /= 9;
                a.push((0..la).map(|_| ctx.rng.below(3) as u8).collect::<Vec<u8>>());
                b.push((0..lb).map(|_| ctx.rng.below(3) as u8).collect::<Vec<u8>>());
            }
            let x: Vec<u8> = (0..k).map(|_| 10 + ctx.rng.below(3) as u8).collect();
            chk_tensor_operations(ctx, &json!({"x": x, "a": a, "b": b}));
        }
    }
    for _ in 0..ctx.budget(1500, 48000) {
        let k = ctx.rng.range(0, 5);
        let x: Vec<u8> = (0..k).map(|_| 10 + ctx.rng.below(3) as u8).collect();
        let a: Vec<Vec<u8>> = (0..k).map(|_| rand_type(&mut ctx.rng, 4, 3)).collect();
        let b: Vec<Vec<u8>> = (0..k).map(|_| rand_type(&mut ctx.rng, 4, 3)).collect();
        chk_tensor_operations(ctx, &json!({"x": x, "a": a, "b": b}));
    }
    // binary operations: corner x corner, exhaustive tiny models, random (composable 2/3 of the time)
    let cs = corner_lms();
    for f in &cs {
        chk_dagger(ctx, &json!({"f": f.json()}));
        chk_convert(ctx, &json!({"f": f.json()}));
        for g in &cs {
            let inp = json!({"f": f.json(), "g": g.json()});
            chk_tensor(ctx, &inp);
            chk_compose(ctx, &inp);
        }
    }
    let small = small_models(if ctx.thorough() { 2 } else { 1 });
    for f in &small {
        let fj = LM::plain(f.clone()).json();
        chk_dagger(ctx, &json!({"f": fj}));
        chk_convert(ctx, &json!({"f": fj}));
    }
    let stride = 1;
    for (i, f) in small.iter().enumerate() {
        let fj = LM::plain(f.clone()).json();
        for (k, g) in small.iter().enumerate() {
            // thorough: the 2-node table is sampled on a fixed lattice (every third pair), 1-node table in full
            if stride > 1 && f.w.len() + g.w.len() > 2 && (i + k) % stride != 0 {
                continue;
            }
            let inp = json!({"f": fj, "g": LM::plain(g.clone()).json()});
            chk_tensor(ctx, &inp);
            chk_compose(ctx, &inp);
        }
    }
    for i in 0..ctx.budget(12000, 240000) {
        let b = pick_bounds(&mut ctx.rng);
        let f = rand_lm(&mut ctx.rng, b);
        let gm = if i % 3 != 0 { rand_model_with_source(&mut ctx.rng, b, &f.m.target_type()) } else { rand_model(&mut ctx.rng, b) };
        let gq = if ctx.rng.chance(1, 2) { rand_pairs(&mut ctx.rng, &gm, 3) } else { vec![] };
        let g = LM { m: gm, q: gq };
        let inp = json!({"f": f.json(), "g": g.json()});
        chk_compose(ctx, &inp);
        if i % 2 == 0 {
            chk_tensor(ctx, &inp);
        }
        if i % 4 == 0 {
            chk_dagger(ctx, &json!({"f": g.json()}));
            chk_convert(ctx, &json!({"f": g.json()}));
        }
    }
    // 32+32 boundary nodes merged in binomial-tree order; long chains
    for half in [4usize, 32] {
        let (f, g) = binomial_pair(half);
        chk_compose(ctx, &json!({"f": LM::plain(f).json(), "g": LM::plain(g).json()}));
    }
    for n in [8usize, 64] {
        chk_convert(ctx, &json!({"f": binomial_lax(n).json()}));
        // chain 0~1~2~...~n-1 given in reverse order
        let chain = LM { m: M { w: vec![2; n], x: vec![], src: vec![], tgt: vec![], s: vec![0], t: vec![n - 1] }, q: (0..n - 1).rev().map(|i| (i + 1, i)).collect() };
        chk_convert(ctx, &json!({"f": chain.json()}));
        chk_compose(ctx, &json!({"f": chain.json(), "g": chain.json()}));
    }
}
