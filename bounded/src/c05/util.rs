//! helpers shared by the C05 check modules: JSON decoding, raw constructors, deep well-formedness
//! readers on raw public fields, lax models with pending identifications, generators.
use crate::ctx::{guard, Ctx, Rng};
use crate::model::*;
use open_hypergraphs::array::vec::*;
use open_hypergraphs::finite_function::FiniteFunction;
use open_hypergraphs::indexed_coproduct::IndexedCoproduct;
use open_hypergraphs::lax;
use open_hypergraphs::semifinite::SemifiniteFunction;
use open_hypergraphs::strict::hypergraph::Hypergraph;
use open_hypergraphs::strict::open_hypergraph::OpenHypergraph;
use serde_json::{json, Value};

pub type SIC = IndexedCoproduct<VecKind, SF<u8>>;

// ---- JSON decoding ----------------------------------------------------------------------------
pub fn us(v: &Value) -> Option<Vec<usize>> {
    v.as_array()?.iter().map(|x| x.as_u64().map(|y| y as usize)).collect()
}
pub fn u8s(v: &Value) -> Option<Vec<u8>> {
    v.as_array()?.iter().map(|x| x.as_u64().map(|y| y as u8)).collect()
}
pub fn uss(v: &Value) -> Option<Vec<Vec<usize>>> {
    v.as_array()?.iter().map(us).collect()
}
pub fn u8ss(v: &Value) -> Option<Vec<Vec<u8>>> {
    v.as_array()?.iter().map(u8s).collect()
}
pub fn num(v: &Value) -> Option<usize> {
    v.as_u64().map(|x| x as usize)
}
pub fn pairs(v: &Value) -> Option<Vec<(usize, usize)>> {
    v.as_array()?
        .iter()
        .map(|p| {
            let l = us(p)?;
            if l.len() == 2 {
                Some((l[0], l[1]))
            } else {
                None
            }
        })
        .collect()
}
pub fn pairs_json(p: &[(usize, usize)]) -> Value {
    json!(p.iter().map(|&(a, b)| vec![a, b]).collect::<Vec<_>>())
}
/// {"table":[..],"target":n}
pub fn ff_spec(v: &Value) -> Option<(Vec<usize>, usize)> {
    Some((us(v.get("table")?)?, num(v.get("target")?)?))
}
/// {"segs":[[..]..],"target":n}
pub fn ic_spec(v: &Value) -> Option<(Vec<Vec<usize>>, usize)> {
    Some((uss(v.get("segs")?)?, num(v.get("target")?)?))
}

// ---- raw constructors ---------------------------------------------------------------------------
/// a finite function built from its two public fields, bypassing the checked constructor
pub fn raw_ff(table: &[usize], target: usize) -> FF {
    FiniteFunction { table: VecArray(table.to_vec()), target }
}
pub fn sf(v: &[u8]) -> SF<u8> {
    SemifiniteFunction(VecArray(v.to_vec()))
}
pub fn flat<T: Clone>(segs: &[Vec<T>]) -> Vec<T> {
    segs.iter().flatten().cloned().collect()
}
pub fn sizes<T>(segs: &[Vec<T>]) -> Vec<usize> {
    segs.iter().map(|l| l.len()).collect()
}
/// segmented array of finite functions (only constructible through the checked constructors)
pub fn mk_ic(segs: &[Vec<usize>], target: usize) -> Option<IC> {
    let vals = FiniteFunction::new(VecArray(flat(segs)), target)?;
    IndexedCoproduct::from_semifinite(SemifiniteFunction(VecArray(sizes(segs))), vals)
}
pub fn mk_sic(segs: &[Vec<u8>]) -> SIC {
    IndexedCoproduct::from_semifinite(SemifiniteFunction(VecArray(sizes(segs))), sf(&flat(segs))).expect("mk_sic")
}

// ---- deep well-formedness on raw fields ------------------------------------------------------------
pub fn ff_wf(f: &FF) -> Result<(), String> {
    match f.table.0.iter().find(|&&v| v >= f.target) {
        Some(v) => Err(format!("entry {} out of range {}", v, f.target)),
        None => Ok(()),
    }
}
pub fn ff_json(f: &FF) -> Value {
    json!({"table": f.table.0, "target": f.target})
}
pub fn sic_wf(c: &SIC, n_segments: Option<usize>) -> Result<Vec<Vec<u8>>, String> {
    let sz = &c.sources.table.0;
    let vals = &c.values.0 .0;
    let sum: usize = sz.iter().sum();
    if c.sources.target != sum + 1 {
        return Err(format!("sources.target {} != sum of sizes {} + 1", c.sources.target, sum));
    }
    if sum != vals.len() {
        return Err(format!("sum of sizes {} != values length {}", sum, vals.len()));
    }
    if let Some(k) = n_segments {
        if sz.len() != k {
            return Err(format!("{} segments, expected {}", sz.len(), k));
        }
    }
    let mut out = vec![];
    let mut p = 0;
    for &k in sz {
        out.push(vals[p..p + k].to_vec());
        p += k;
    }
    Ok(out)
}
/// deep well-formedness of a strict hypergraph (no interfaces)
pub fn sh_wf(h: &SH) -> Result<M, String> {
    let n = h.w.0 .0.len();
    let f: SOH = OpenHypergraph { s: raw_ff(&[], n), t: raw_ff(&[], n), h: h.clone() };
    strict_wf(&f)
}
pub fn raw_sh(s: IC, t: IC, w: &[u8], x: &[u8]) -> SH {
    Hypergraph { s, t, w: sf(w), x: sf(x) }
}

// ---- lax diagrams with pending identifications ---------------------------------------------------------
#[derive(Clone, Debug, PartialEq)]
pub struct LM {
    pub m: M,
    pub q: Vec<(usize, usize)>,
}
impl LM {
    pub fn plain(m: M) -> LM {
        LM { m, q: vec![] }
    }
    pub fn json(&self) -> Value {
        json!({"m": self.m.json(), "q": pairs_json(&self.q)})
    }
    pub fn from_json(v: &Value) -> Option<LM> {
        Some(LM { m: M::from_json(v.get("m")?)?, q: pairs(v.get("q")?)? })
    }
    pub fn valid(&self) -> bool {
        self.m.valid() && self.q.iter().all(|&(a, b)| a < self.m.w.len() && b < self.m.w.len())
    }
    pub fn to_lax(&self) -> LOH {
        let mut f = self.m.to_lax();
        f.hypergraph.quotient = (self.q.iter().map(|p| lax::NodeId(p.0)).collect(), self.q.iter().map(|p| lax::NodeId(p.1)).collect());
        f
    }
    /// the diagram after carrying out the pending identifications (None: a class carries two labels)
    pub fn quotiented(&self) -> Option<M> {
        quotient(&self.m, &self.q).map(|(m, _)| m)
    }
    /// pending identifications encoded as pseudo-edges (label 255, one source, one target), so that
    /// `iso` also compares them
    pub fn encoded(&self) -> M {
        let mut m = self.m.clone();
        for &(a, b) in &self.q {
            m.x.push(255);
            m.src.push(vec![a]);
            m.tgt.push(vec![b]);
        }
        m
    }
    pub fn nontrivial(&self) -> bool {
        self.m.nontrivial()
    }
}

/// deep well-formedness of a lax diagram on raw fields: one incidence record per edge label, every
/// node reference (incidence, interfaces, pending identifications) in range, the two identification
/// lists equally long
pub fn lax_wf_with<A>(f: &lax::OpenHypergraph<u8, A>, lab: impl Fn(&A) -> u8) -> Result<LM, String> {
    let h = &f.hypergraph;
    let n = h.nodes.len();
    if h.adjacency.len() != h.edges.len() {
        return Err(format!("{} incidence records for {} edges", h.adjacency.len(), h.edges.len()));
    }
    for (e, a) in h.adjacency.iter().enumerate() {
        if let Some(v) = a.sources.iter().chain(a.targets.iter()).find(|v| v.0 >= n) {
            return Err(format!("edge {} refers to node {} of {}", e, v.0, n));
        }
    }
    if h.quotient.0.len() != h.quotient.1.len() {
        return Err(format!("identification lists of lengths {} and {}", h.quotient.0.len(), h.quotient.1.len()));
    }
    if let Some(v) = h.quotient.0.iter().chain(h.quotient.1.iter()).find(|v| v.0 >= n) {
        return Err(format!("pending identification refers to node {} of {}", v.0, n));
    }
    if let Some(v) = f.sources.iter().chain(f.targets.iter()).find(|v| v.0 >= n) {
        return Err(format!("interface refers to node {} of {}", v.0, n));
    }
    Ok(LM {
        m: M {
            w: h.nodes.clone(),
            x: h.edges.iter().map(lab).collect(),
            src: h.adjacency.iter().map(|e| e.sources.iter().map(|n| n.0).collect()).collect(),
            tgt: h.adjacency.iter().map(|e| e.targets.iter().map(|n| n.0).collect()).collect(),
            s: f.sources.iter().map(|n| n.0).collect(),
            t: f.targets.iter().map(|n| n.0).collect(),
        },
        q: h.quotient.0.iter().zip(h.quotient.1.iter()).map(|(a, b)| (a.0, b.0)).collect(),
    })
}
pub fn lax_wf(f: &LOH) -> Result<LM, String> {
    lax_wf_with(f, |a| *a)
}

// ---- reporting ------------------------------------------------------------------------------------
/// well-formedness and promised type of a strict result; also the library's own type accessors must
/// agree with the raw data.  Returns the model of the result.
pub fn strict_result(ctx: &mut Ctx, check: &str, op: &str, input: &Value, r: &SOH, src: &[u8], tgt: &[u8]) -> Option<M> {
    match strict_wf(r) {
        Err(why) => {
            ctx.fail(check, &format!("C05.{}-wf", op), input, json!(why), json!("well-formed strict diagram"));
            None
        }
        Ok(m) => {
            if m.source_type() != src {
                ctx.fail(check, &format!("C05.{}-source-type", op), input, json!(m.source_type()), json!(src));
            }
            if m.target_type() != tgt {
                ctx.fail(check, &format!("C05.{}-target-type", op), input, json!(m.target_type()), json!(tgt));
            }
            // the library's own (shallow) validation must accept what is deeply well-formed
            match guard(|| r.clone().validate().is_ok()) {
                Ok(true) => {}
                other => ctx.fail(check, &format!("C05.{}-validate", op), input, json!(format!("{:?}", other)), json!("Ok")),
            }
            match guard(|| (r.source().0 .0, r.target().0 .0)) {
                Err(p) => ctx.fail(check, &format!("C05.{}-type-accessor", op), input, json!(format!("panic: {}", p)), json!([src, tgt])),
                Ok((a, b)) => {
                    if a != m.source_type() || b != m.target_type() {
                        ctx.fail(check, &format!("C05.{}-type-accessor", op), input, json!([a, b]), json!([m.source_type(), m.target_type()]));
                    }
                }
            }
            Some(m)
        }
    }
}
/// well-formedness and promised type (read off the raw node labels) of a lax result
pub fn lax_result(ctx: &mut Ctx, check: &str, op: &str, input: &Value, r: &LOH, src: &[u8], tgt: &[u8]) -> Option<LM> {
    match lax_wf(r) {
        Err(why) => {
            ctx.fail(check, &format!("C05.{}-wf", op), input, json!(why), json!("well-formed lax diagram"));
            None
        }
        Ok(lm) => {
            if lm.m.source_type() != src {
                ctx.fail(check, &format!("C05.{}-source-type", op), input, json!(lm.m.source_type()), json!(src));
            }
            if lm.m.target_type() != tgt {
                ctx.fail(check, &format!("C05.{}-target-type", op), input, json!(lm.m.target_type()), json!(tgt));
            }
            Some(lm)
        }
    }
}
pub fn expect_iso(ctx: &mut Ctx, check: &str, clause: &str, input: &Value, got: &M, want: &M) {
    if !is_iso(got, want) {
        ctx.fail(check, clause, input, got.json(), want.json());
    }
}
pub fn panic_fail(ctx: &mut Ctx, check: &str, op: &str, input: &Value, p: &str) {
    ctx.fail(check, &format!("C05.{}-no-panic", op), input, json!(format!("panic: {}", p)), json!("returns"));
}
/// carry out the pending identifications of a well-formed lax result with the library, then check
/// the strict diagram: well-formed, typed, and (if given) isomorphic to the expected model
pub fn lax_then_strict(ctx: &mut Ctx, check: &str, op: &str, input: &Value, r: &LOH, src: &[u8], tgt: &[u8], want: Option<&M>) {
    let r2 = r.clone();
    match guard(move || r2.to_strict()) {
        Err(p) => panic_fail(ctx, check, &format!("{}-to-strict", op), input, &p),
        Ok(s) => {
            if let Some(m) = strict_result(ctx, check, &format!("{}-to-strict", op), input, &s, src, tgt) {
                if let Some(w) = want {
                    expect_iso(ctx, check, &format!("C05.{}-model", op), input, &m, w);
                }
            }
        }
    }
}

// ---- generators -------------------------------------------------------------------------------------
pub const TINY: Bounds = Bounds { nodes: 2, edges: 1, arity: 2, iface: 2, labels: 2 };
pub const SM: Bounds = Bounds { nodes: 3, edges: 2, arity: 2, iface: 3, labels: 3 };
pub const MD: Bounds = Bounds { nodes: 5, edges: 3, arity: 3, iface: 5, labels: 3 };
pub const WIDE: Bounds = Bounds { nodes: 2, edges: 2, arity: 5, iface: 6, labels: 2 };

pub fn pick_bounds(r: &mut Rng) -> Bounds {
    match r.below(8) {
        0 => MD,
        1 => WIDE,
        2 | 3 => TINY,
        _ => SM,
    }
}

/// random model: node labels 0..labels, edge labels 10..=12, arities 0..=arity (also with no nodes:
/// zero-arity edges only)
pub fn rand_model(r: &mut Rng, b: Bounds) -> M {
    let n = r.range(0, b.nodes);
    let labels = r.range(1, b.labels);
    let w: Vec<u8> = (0..n).map(|_| r.below(labels) as u8).collect();
    let k = r.range(0, b.edges);
    let mut m = M { w, x: vec![], src: vec![], tgt: vec![], s: vec![], t: vec![] };
    for _ in 0..k {
        m.x.push(10 + r.below(3) as u8);
        let (a, c) = if n == 0 { (0, 0) } else { (r.range(0, b.arity), r.range(0, b.arity)) };
        m.src.push(r.vec_below(a, n.max(1)));
        m.tgt.push(r.vec_below(c, n.max(1)));
    }
    if n > 0 {
        let (ls, lt) = (r.range(0, b.iface), r.range(0, b.iface));
        m.s = r.vec_below(ls, n);
        m.t = r.vec_below(lt, n);
    }
    m
}
/// a random model whose source type is `ty`
pub fn rand_model_with_source(r: &mut Rng, b: Bounds, ty: &[u8]) -> M {
    let mut m = rand_model(r, b);
    for &l in ty {
        if !m.w.contains(&l) || r.chance(1, 3) {
            m.w.push(l);
        }
    }
    m.s = ty
        .iter()
        .map(|&l| {
            let c: Vec<usize> = (0..m.w.len()).filter(|&i| m.w[i] == l).collect();
            c[r.below(c.len())]
        })
        .collect();
    m
}
/// pending identifications between equally labelled nodes (so the quotient exists); may repeat a
/// pair, may identify a node with itself
pub fn rand_pairs(r: &mut Rng, m: &M, max: usize) -> Vec<(usize, usize)> {
    let n = m.w.len();
    let mut out = vec![];
    if n == 0 {
        return out;
    }
    for _ in 0..r.range(0, max) {
        let a = r.below(n);
        let c: Vec<usize> = (0..n).filter(|&i| m.w[i] == m.w[a]).collect();
        out.push((a, c[r.below(c.len())]));
    }
    out
}
pub fn rand_lm(r: &mut Rng, b: Bounds) -> LM {
    let m = rand_model(r, b);
    let q = if r.chance(1, 2) { rand_pairs(r, &m, 3) } else { vec![] };
    LM { m, q }
}

/// corner diagrams (extends model::corner_models)
pub fn corners() -> Vec<M> {
    let mut v = corner_models();
    v.extend(vec![
        // multiplicity larger than the number of nodes and operations
        M { w: vec![0], x: vec![], src: vec![], tgt: vec![], s: vec![0, 0, 0, 0], t: vec![0, 0, 0] },
        M { w: vec![1], x: vec![10], src: vec![vec![0, 0, 0, 0, 0]], tgt: vec![vec![0, 0, 0]], s: vec![0, 0], t: vec![0, 0, 0] },
        // parallel identical edges
        M { w: vec![0, 1], x: vec![11, 11, 11], src: vec![vec![0], vec![0], vec![0]], tgt: vec![vec![1], vec![1], vec![1]], s: vec![0], t: vec![1] },
        // operation-free diagram with non-identity wiring (non-injective, non-surjective, permuted)
        M { w: vec![0, 1, 2], x: vec![], src: vec![], tgt: vec![], s: vec![1, 0, 1], t: vec![1, 1, 0, 0] },
        M { w: vec![2, 1], x: vec![], src: vec![], tgt: vec![], s: vec![0, 1], t: vec![1, 0] },
        // dangling nodes + zero-arity edge + edge without sources / without targets
        M { w: vec![0, 1, 2, 1], x: vec![12, 10, 11], src: vec![vec![], vec![], vec![3, 1]], tgt: vec![vec![], vec![1], vec![]], s: vec![], t: vec![3] },
        // three labels, cycle through the interface
        M { w: vec![2, 2], x: vec![12], src: vec![vec![1]], tgt: vec![vec![0]], s: vec![0, 1], t: vec![1, 0] },
        // operation-free, source leg = target leg but not injective (merges on composition); identity on two equal labels
        M { w: vec![0], x: vec![], src: vec![], tgt: vec![], s: vec![0, 0], t: vec![0, 0] },
        identity(&[0, 0]),
        M { w: vec![0, 0, 0], x: vec![10], src: vec![vec![0]], tgt: vec![vec![1]], s: vec![0, 2], t: vec![1, 2] },
        // empty interfaces, several zero-arity edges, no nodes
        M { w: vec![], x: vec![10, 12], src: vec![vec![], vec![]], tgt: vec![vec![], vec![]], s: vec![], t: vec![] },
    ]);
    v
}
pub fn corner_lms() -> Vec<LM> {
    let mut v: Vec<LM> = corners().into_iter().map(LM::plain).collect();
    v.extend(vec![
        // pending identifications: repeated, reflexive, chain
        LM { m: M { w: vec![0, 0, 0], x: vec![10], src: vec![vec![0]], tgt: vec![vec![2]], s: vec![0, 1], t: vec![2] }, q: vec![(0, 1), (1, 0), (2, 2), (1, 2)] },
        LM { m: M { w: vec![1, 0, 1, 0], x: vec![11, 12], src: vec![vec![0, 1], vec![2]], tgt: vec![vec![2], vec![3, 3]], s: vec![1, 0], t: vec![3] }, q: vec![(0, 2), (3, 1)] },
        LM { m: M { w: vec![2], x: vec![], src: vec![], tgt: vec![], s: vec![0], t: vec![] }, q: vec![(0, 0)] },
        binomial_lax(64),
    ]);
    v
}
/// 2^k equally labelled nodes merged in binomial-tree order (deep union-find trees without path
/// compression); every node on some interface
pub fn binomial_lax(n: usize) -> LM {
    let mut q = vec![];
    let mut step = 1;
    while step < n {
        let mut i = 0;
        while i + step < n {
            q.push((i, i + step));
            i += 2 * step;
        }
        step *= 2;
    }
    LM { m: M { w: vec![0; n], x: vec![10], src: vec![vec![n - 1]], tgt: vec![vec![0]], s: (0..n).collect(), t: vec![n / 2] }, q }
}
/// composable pair whose 32+32 boundary nodes are merged in binomial-tree order
pub fn binomial_pair(half: usize) -> (M, M) {
    // element 2j = node j of f, element 2j+1 = node j of g; pairs always join an f node with a g node
    let mut ft = vec![];
    let mut gs = vec![];
    for j in 0..half {
        ft.push(j);
        gs.push(j);
    }
    let total = 2 * half;
    let mut step = 2;
    while step < total {
        let mut i = 0;
        while i + step < total {
            ft.push(i / 2);
            gs.push((i + step + 1) / 2);
            i += 2 * step;
        }
        step *= 2;
    }
    let f = M { w: vec![0; half], x: vec![10], src: vec![vec![0]], tgt: vec![vec![half - 1]], s: vec![half - 1], t: ft };
    let g = M { w: vec![0; half], x: vec![], src: vec![], tgt: vec![], s: gs, t: vec![0, half - 1] };
    (f, g)
}

/// every model with at most `max_nodes` nodes (labels 0/1), at most one edge (label 10) with source
/// and target lists of length <= 1, and interfaces of length <= 1
pub fn small_models(max_nodes: usize) -> Vec<M> {
    let mut out = vec![];
    for n in 0..=max_nodes {
        let lists: Vec<Vec<usize>> = std::iter::once(vec![]).chain((0..n).map(|i| vec![i])).collect();
        for wbits in 0..(1usize << n) {
            let w: Vec<u8> = (0..n).map(|i| ((wbits >> i) & 1) as u8).collect();
            let mut edge_opts: Vec<Option<(Vec<usize>, Vec<usize>)>> = vec![None];
            for a in &lists {
                for b in &lists {
                    edge_opts.push(Some((a.clone(), b.clone())));
                }
            }
            for e in &edge_opts {
                for s in &lists {
                    for t in &lists {
                        let mut m = M { w: w.clone(), x: vec![], src: vec![], tgt: vec![], s: s.clone(), t: t.clone() };
                        if let Some((a, b)) = e {
                            m.x.push(10);
                            m.src.push(a.clone());
                            m.tgt.push(b.clone());
                        }
                        out.push(m);
                    }
                }
            }
        }
    }
    out
}

/// random list of labels
pub fn rand_type(r: &mut Rng, max_len: usize, labels: usize) -> Vec<u8> {
    let l = r.range(0, max_len);
    (0..l).map(|_| r.below(labels) as u8).collect()
}
/// all label lists of length <= max_len over `labels` labels
pub fn all_types(max_len: usize, labels: usize) -> Vec<Vec<u8>> {
    let mut out: Vec<Vec<u8>> = vec![vec![]];
    let mut layer: Vec<Vec<u8>> = vec![vec![]];
    for _ in 0..max_len {
        let mut next = vec![];
        for t in &layer {
            for l in 0..labels {
                let mut u = t.clone();
                u.push(l as u8);
                next.push(u);
            }
        }
        out.extend(next.iter().cloned());
        layer = next;
    }
    out
}
/// object images for functors: one list of length 0/1/2 per node label 0..3
pub fn rand_img(r: &mut Rng) -> Vec<Vec<u8>> {
    (0..3).map(|_| rand_type(r, 2, 3)).collect()
}
pub fn corner_imgs() -> Vec<Vec<Vec<u8>>> {
    vec![
        vec![vec![0], vec![1], vec![2]],          // identity on objects
        vec![vec![], vec![2], vec![0, 1]],        // lengths 0/1/2 mixed
        vec![vec![1, 1], vec![], vec![]],         // 2/0/0
        vec![vec![], vec![], vec![]],             // everything to the unit
        vec![vec![2, 0], vec![0, 2], vec![1, 1]], // all doubled
    ]
}
pub fn apply_img(img: &[Vec<u8>], ty: &[u8]) -> Vec<u8> {
    ty.iter().flat_map(|&l| img[l as usize].iter().cloned()).collect()
}
pub fn img_ok(img: &[Vec<u8>]) -> bool {
    img.len() == 3
}
pub fn labels_ok(m: &M) -> bool {
    m.w.iter().all(|&l| l < 3)
}
