//! C05, part 5: the imperative editing interface of the lax module keeps a diagram well-formed
//! after every step and delivers what each step promises (fresh identifiers, declared types,
//! renumbered interfaces); the `Var` builder returns well-formed diagrams.
use super::functors::{to_e, E};
use super::util::*;
use crate::ctx::{guard, Ctx, Rng};
use crate::model::*;
use open_hypergraphs::lax::var;
use open_hypergraphs::lax::{EdgeId, Hyperedge, NodeId};
use serde_json::{json, Value};

fn nid(l: &[usize]) -> Vec<NodeId> {
    l.iter().map(|&i| NodeId(i)).collect()
}

/// delete nodes by definition: survivors keep their relative order; references to deleted nodes
/// disappear from incidences and interfaces; an identification with a deleted end disappears
fn delete_nodes_def(lm: &LM, ids: &[usize]) -> LM {
    let n = lm.m.w.len();
    let mut new = vec![usize::MAX; n];
    let mut k = 0;
    for i in 0..n {
        if !ids.contains(&i) {
            new[i] = k;
            k += 1;
        }
    }
    let mp = |l: &Vec<usize>| l.iter().filter(|&&v| new[v] != usize::MAX).map(|&v| new[v]).collect::<Vec<_>>();
    LM {
        m: M { w: (0..n).filter(|i| new[*i] != usize::MAX).map(|i| lm.m.w[i]).collect(), x: lm.m.x.clone(), src: lm.m.src.iter().map(mp).collect(), tgt: lm.m.tgt.iter().map(mp).collect(), s: mp(&lm.m.s), t: mp(&lm.m.t) },
        q: lm.q.iter().filter(|p| new[p.0] != usize::MAX && new[p.1] != usize::MAX).map(|p| (new[p.0], new[p.1])).collect(),
    }
}
fn delete_edges_def(lm: &LM, ids: &[usize]) -> LM {
    let keep: Vec<usize> = (0..lm.m.x.len()).filter(|e| !ids.contains(e)).collect();
    LM { m: M { x: keep.iter().map(|&e| lm.m.x[e]).collect(), src: keep.iter().map(|&e| lm.m.src[e].clone()).collect(), tgt: keep.iter().map(|&e| lm.m.tgt[e].clone()).collect(), ..lm.m.clone() }, q: lm.q.clone() }
}

/// input: {"f": {"m","q"}, "script": [step..]} — every step is applied to the library value and to a
/// plain mirror; after each step the library value must be well-formed and equal to the mirror up
/// to renumbering (pending identifications included), and the step's return value must be as promised.
pub fn chk_lax_edit(ctx: &mut Ctx, input: &Value) {
    const C: &str = "lax_edit";
    let dec = || Some((LM::from_json(input.get("f")?)?, input.get("script")?.as_array()?.clone()));
    let (f, script) = match dec() {
        Some(v) => v,
        None => return,
    };
    if !f.valid() {
        return;
    }
    ctx.case(C, input, script.len() >= 2);
    let mut cur = f.to_lax();
    let mut mir = f.clone();
    for (si, step) in script.iter().enumerate() {
        let op = step.get("op").and_then(|v| v.as_str()).unwrap_or("");
        let n = mir.m.w.len();
        let k = mir.m.x.len();
        let g = |name: &str| step.get(name);
        let tag = format!("{}#{}", op, si);
        // decode + legality of the step against the mirror; illegal steps are skipped
        let mut promised_ok = true;
        let res: Result<(), String> = match op {
            "new_node" => {
                let w = g("w").and_then(num).unwrap_or(0) as u8;
                mir.m.w.push(w);
                guard(|| cur.new_node(w)).map(|id| promised_ok = id.0 == n)
            }
            "new_edge" => {
                let (x, s, t) = (g("x").and_then(num).unwrap_or(10) as u8, g("s").and_then(us).unwrap_or_default(), g("t").and_then(us).unwrap_or_default());
                if s.iter().chain(t.iter()).any(|&v| v >= n) {
                    continue;
                }
                mir.m.x.push(x);
                mir.m.src.push(s.clone());
                mir.m.tgt.push(t.clone());
                guard(|| cur.new_edge(x, Hyperedge { sources: nid(&s), targets: nid(&t) })).map(|id| promised_ok = id.0 == k)
            }
            "new_operation" => {
                let (x, a, b) = (g("x").and_then(num).unwrap_or(10) as u8, g("a").and_then(u8s).unwrap_or_default(), g("b").and_then(u8s).unwrap_or_default());
                let s: Vec<usize> = (n..n + a.len()).collect();
                let t: Vec<usize> = (n + a.len()..n + a.len() + b.len()).collect();
                mir.m.w.extend(a.iter().chain(b.iter()));
                mir.m.x.push(x);
                mir.m.src.push(s.clone());
                mir.m.tgt.push(t.clone());
                guard(|| cur.new_operation(x, a.clone(), b.clone())).map(|(e, (rs, rt))| {
                    // fresh, pairwise distinct nodes of the declared types, attached to the new edge
                    let h = &cur.hypergraph;
                    let all: Vec<usize> = rs.iter().chain(rt.iter()).map(|v| v.0).collect();
                    let fresh = all.iter().all(|&v| v >= n && v < h.nodes.len()) && (0..all.len()).all(|i| (0..i).all(|j| all[i] != all[j]));
                    promised_ok = fresh && e.0 < h.adjacency.len() && e.0 >= k && h.adjacency[e.0].sources == rs && h.adjacency[e.0].targets == rt && rs.iter().map(|v| h.nodes[v.0]).collect::<Vec<_>>() == a && rt.iter().map(|v| h.nodes[v.0]).collect::<Vec<_>>() == b;
                })
            }
            "add_edge_source" | "add_edge_target" => {
                let (e, w) = (g("e").and_then(num).unwrap_or(0), g("w").and_then(num).unwrap_or(0) as u8);
                if e >= k {
                    continue;
                }
                mir.m.w.push(w);
                if op == "add_edge_source" {
                    mir.m.src[e].push(n);
                } else {
                    mir.m.tgt[e].push(n);
                }
                guard(|| if op == "add_edge_source" { cur.add_edge_source(EdgeId(e), w) } else { cur.add_edge_target(EdgeId(e), w) }).map(|id| promised_ok = id.0 == n)
            }
            "unify" => {
                let (a, b) = (g("a").and_then(num).unwrap_or(0), g("b").and_then(num).unwrap_or(0));
                if a >= n || b >= n {
                    continue;
                }
                mir.q.push((a, b));
                guard(|| cur.unify(NodeId(a), NodeId(b)))
            }
            "delete_edges" => {
                let ids = g("ids").and_then(us).unwrap_or_default();
                if ids.iter().any(|&e| e >= k) {
                    continue;
                }
                mir = delete_edges_def(&mir, &ids);
                guard(|| cur.delete_edges(&ids.iter().map(|&e| EdgeId(e)).collect::<Vec<_>>()))
            }
            "delete_nodes" => {
                let ids = g("ids").and_then(us).unwrap_or_default();
                if ids.iter().any(|&v| v >= n) {
                    continue;
                }
                mir = delete_nodes_def(&mir, &ids);
                guard(|| cur.delete_nodes(&nid(&ids)))
            }
            "map_nodes" | "with_nodes" | "map_edges" | "with_edges" => {
                let d = g("add").and_then(num).unwrap_or(1) as u8;
                let extra = g("extra").and_then(num).unwrap_or(0);
                let c2 = cur.clone();
                let r = guard(move || match op {
                    "map_nodes" => Some(c2.map_nodes(|w| (w + d) % 3)),
                    "map_edges" => Some(c2.map_edges(|x| 10 + (x + d) % 3)),
                    "with_nodes" => c2.with_nodes(|ws| ws.into_iter().map(|w| (w + d) % 3).chain(std::iter::repeat(0).take(extra)).collect()),
                    _ => c2.with_edges(|xs| xs.into_iter().map(|x| 10 + (x + d) % 3).chain(std::iter::repeat(10).take(extra)).collect()),
                });
                // a replacement list of a different length is refused (documented), otherwise labels change only
                let refuse = extra > 0 && op.starts_with("with");
                match r {
                    Err(p) => Err(p),
                    Ok(None) => {
                        promised_ok = refuse;
                        Ok(())
                    }
                    Ok(Some(nf)) => {
                        promised_ok = !refuse;
                        if !refuse {
                            if op.ends_with("nodes") {
                                mir.m.w = mir.m.w.iter().map(|w| (w + d) % 3).collect();
                            } else {
                                mir.m.x = mir.m.x.iter().map(|x| 10 + (x + d) % 3).collect();
                            }
                            cur = nf;
                        }
                        Ok(())
                    }
                }
            }
            "tensor_assign" | "append" => {
                let h = match g("g").and_then(LM::from_json) {
                    Some(h) if h.valid() => h,
                    _ => continue,
                };
                let sh = |l: &Vec<usize>| l.iter().map(|v| v + n).collect::<Vec<_>>();
                mir.m.w.extend(h.m.w.iter());
                mir.m.x.extend(h.m.x.iter());
                mir.m.src.extend(h.m.src.iter().map(sh));
                mir.m.tgt.extend(h.m.tgt.iter().map(sh));
                mir.q.extend(h.q.iter().map(|p| (p.0 + n, p.1 + n)));
                let lh = h.to_lax();
                if op == "tensor_assign" {
                    mir.m.s.extend(sh(&h.m.s));
                    mir.m.t.extend(sh(&h.m.t));
                    guard(|| cur.tensor_assign(lh))
                } else {
                    // boundaries unchanged; the appended diagram's interfaces are returned, renumbered
                    guard(|| cur.append(lh)).map(|(rs, rt)| {
                        let nodes = &cur.hypergraph.nodes;
                        let ty = |l: &Vec<NodeId>| l.iter().map(|v| nodes.get(v.0).cloned()).collect::<Vec<_>>();
                        promised_ok = ty(&rs) == h.m.source_type().into_iter().map(Some).collect::<Vec<_>>() && ty(&rt) == h.m.target_type().into_iter().map(Some).collect::<Vec<_>>() && rs.iter().chain(rt.iter()).all(|v| v.0 >= n);
                    })
                }
            }
            _ => continue,
        };
        if let Err(p) = res {
            panic_fail(ctx, C, &format!("edit-{}", op), input, &p);
            return;
        }
        if !promised_ok {
            ctx.fail(C, &format!("C05.edit-{}-promise", op), input, json!(tag), json!("return value as documented"));
        }
        match lax_wf(&cur) {
            Err(why) => {
                ctx.fail(C, &format!("C05.edit-{}-wf", op), input, json!([tag, why]), json!("well-formed lax diagram"));
                return;
            }
            Ok(lm) => {
                if lm.m.source_type() != mir.m.source_type() || lm.m.target_type() != mir.m.target_type() {
                    ctx.fail(C, &format!("C05.edit-{}-type", op), input, json!([tag, lm.m.source_type(), lm.m.target_type()]), json!([mir.m.source_type(), mir.m.target_type()]));
                    return;
                }
                if !is_iso(&lm.encoded(), &mir.encoded()) {
                    ctx.fail(C, &format!("C05.edit-{}-model", op), input, json!([tag, lm.json()]), mir.json());
                    return;
                }
                // continue from the library's own numbering
                mir = lm;
            }
        }
    }
    // whatever was built converts to a well-formed strict diagram when the labels agree
    if let Some(e) = mir.quotiented() {
        lax_then_strict(ctx, C, "edit-final", input, &cur, &e.source_type(), &e.target_type(), Some(&e));
    }
}

/// input: {"ins":[labels], "ops":[{"args":[var indices], "outs":[labels], "x":label}], "res":[var indices]}
/// a term built with the `Var` interface: `ins` are the input variables, every op consumes earlier
/// variables and creates new ones, `res` are the outputs.
pub fn chk_var_build(ctx: &mut Ctx, input: &Value) {
    const C: &str = "var_build";
    let dec = || -> Option<(Vec<u8>, Vec<(Vec<usize>, Vec<u8>, u8)>, Vec<usize>)> {
        let ops = input.get("ops")?.as_array()?.iter().map(|o| Some((us(o.get("args")?)?, u8s(o.get("outs")?)?, num(o.get("x")?)? as u8))).collect::<Option<Vec<_>>>()?;
        Some((u8s(input.get("ins")?)?, ops, us(input.get("res")?)?))
    };
    let (ins, ops, res) = match dec() {
        Some(v) => v,
        None => return,
    };
    // legality: every reference points at an existing variable
    let mut labels = ins.clone();
    for (args, outs, _) in &ops {
        if args.iter().any(|&a| a >= labels.len()) {
            return;
        }
        labels.extend(outs.iter());
    }
    if res.iter().any(|&r| r >= labels.len()) {
        return;
    }
    ctx.case(C, input, !ops.is_empty() && !ins.is_empty());
    let got = guard(|| {
        var::build::<_, u8, E>(|state| {
            let mut vars: Vec<var::Var<u8, E>> = ins.iter().map(|&l| var::Var::new(state.clone(), l)).collect();
            let inputs = vars.clone();
            for (args, outs, x) in &ops {
                let a: Vec<var::Var<u8, E>> = args.iter().map(|&i| vars[i].clone()).collect();
                let new = var::operation(state, &a, outs.clone(), E(*x));
                vars.extend(new);
            }
            (inputs, res.iter().map(|&i| vars[i].clone()).collect())
        })
    });
    match got {
        Err(p) => panic_fail(ctx, C, "var-build", input, &p),
        Ok(Err(_)) => ctx.fail(C, "C05.var-build-returns", input, json!("Err (state still shared)"), json!("Ok")),
        Ok(Ok(f)) => match lax_wf_with(&f, |e| e.0) {
            Err(why) => ctx.fail(C, "C05.var-build-wf", input, json!(why), json!("well-formed lax diagram")),
            Ok(lm) => {
                let want_t: Vec<u8> = res.iter().map(|&i| labels[i]).collect();
                if lm.m.source_type() != ins || lm.m.target_type() != want_t {
                    ctx.fail(C, "C05.var-build-type", input, json!([lm.m.source_type(), lm.m.target_type()]), json!([ins, want_t]));
                }
                // as declared by the builder's documentation: one variable edge (label 10) per variable, one
                // edge per operation; every use of a variable is a fresh target node of its edge, every
                // definition (operation result / diagram input) a fresh source node of its edge
                let mut e = M::empty();
                let mut var_edge: Vec<usize> = vec![];
                let new_var = |e: &mut M, var_edge: &mut Vec<usize>| {
                    var_edge.push(e.x.len());
                    e.x.push(10);
                    e.src.push(vec![]);
                    e.tgt.push(vec![]);
                };
                for _ in &ins {
                    new_var(&mut e, &mut var_edge);
                }
                let mut lab = ins.clone();
                for (args, outs, x) in &ops {
                    let mut used = vec![];
                    for &a in args {
                        e.w.push(lab[a]);
                        e.tgt[var_edge[a]].push(e.w.len() - 1);
                        used.push(e.w.len() - 1);
                    }
                    let first = var_edge.len();
                    for &o in outs {
                        new_var(&mut e, &mut var_edge);
                        lab.push(o);
                    }
                    let mut made = vec![];
                    for v in first..var_edge.len() {
                        e.w.push(lab[v]);
                        e.src[var_edge[v]].push(e.w.len() - 1);
                        made.push(e.w.len() - 1);
                    }
                    e.x.push(*x);
                    e.src.push(used);
                    e.tgt.push(made);
                }
                for i in 0..ins.len() {
                    e.w.push(ins[i]);
                    e.src[var_edge[i]].push(e.w.len() - 1);
                    e.s.push(e.w.len() - 1);
                }
                for &r in &res {
                    e.w.push(lab[r]);
                    e.tgt[var_edge[r]].push(e.w.len() - 1);
                    e.t.push(e.w.len() - 1);
                }
                if !lm.q.is_empty() || !is_iso(&lm.m, &e) {
                    ctx.fail(C, "C05.var-build-declared", input, lm.json(), e.json());
                }
                // forgetting the variables keeps the type and well-formedness
                match guard(|| var::forget::forget(&f)) {
                    Err(p) => panic_fail(ctx, C, "var-forget", input, &p),
                    Ok(r) => match lax_wf_with(&r, |e| e.0) {
                        Err(why) => ctx.fail(C, "C05.var-forget-wf", input, json!(why), json!("well-formed lax diagram")),
                        Ok(l2) => {
                            if l2.m.source_type() != ins || l2.m.target_type() != want_t {
                                ctx.fail(C, "C05.var-forget-type", input, json!([l2.m.source_type(), l2.m.target_type()]), json!([ins, want_t]));
                            }
                        }
                    },
                }
            }
        },
    }
    let _ = to_e;
}

// ---- enumeration -----------------------------------------------------------------------------------------
fn rand_ids(r: &mut Rng, n: usize) -> Vec<usize> {
    // unsorted, with duplicates, sometimes everything, sometimes nothing
    if n == 0 {
        return vec![];
    }
    match r.below(6) {
        0 => vec![],
        1 => (0..n).rev().collect(),
        2 => {
            let v = r.below(n);
            vec![v, v, v]
        }
        _ => {
            let l = r.range(1, 4);
            r.vec_below(l, n)
        }
    }
}
fn rand_step(r: &mut Rng, n: usize, k: usize) -> Value {
    match r.below(14) {
        0 => json!({"op": "new_node", "w": r.below(3)}),
        1 => {
            let (a, b) = (r.range(0, 3), r.range(0, 3));
            json!({"op": "new_edge", "x": 10 + r.below(3), "s": r.vec_below(if n == 0 { 0 } else { a }, n.max(1)), "t": r.vec_below(if n == 0 { 0 } else { b }, n.max(1))})
        }
        2 | 3 => json!({"op": "new_operation", "x": 10 + r.below(3), "a": rand_type(r, 3, 3), "b": rand_type(r, 3, 3)}),
        4 => json!({"op": "add_edge_source", "e": r.below(k.max(1)), "w": r.below(3)}),
        5 => json!({"op": "add_edge_target", "e": r.below(k.max(1)), "w": r.below(3)}),
        6 => json!({"op": "unify", "a": r.below(n.max(1)), "b": r.below(n.max(1))}),
        7 => json!({"op": "delete_edges", "ids": rand_ids(r, k)}),
        8 | 9 => json!({"op": "delete_nodes", "ids": rand_ids(r, n)}),
        10 => {
            let name = ["map_nodes", "with_nodes", "map_edges", "with_edges"][r.below(4)];
            json!({"op": name, "add": r.below(3), "extra": r.below(2)})
        }
        11 => json!({"op": "append", "g": rand_lm(r, TINY).json()}),
        _ => json!({"op": "tensor_assign", "g": rand_lm(r, SM).json()}),
    }
}

pub fn run(ctx: &mut Ctx) {
    // every single step on every corner diagram
    let cs = corner_lms();
    for f in &cs {
        let (n, k) = (f.m.w.len(), f.m.x.len());
        if n > 16 {
            continue;
        }
        let all: Vec<usize> = (0..n).collect();
        let steps = vec![
            json!({"op": "new_node", "w": 2}),
            json!({"op": "new_operation", "x": 11, "a": [], "b": []}),
            json!({"op": "new_operation", "x": 12, "a": [1, 0], "b": [2]}),
            json!({"op": "delete_nodes", "ids": all}),
            json!({"op": "delete_nodes", "ids": [0]}),
            json!({"op": "delete_nodes", "ids": [n.saturating_sub(1), n.saturating_sub(1)]}),
            json!({"op": "delete_nodes", "ids": []}),
            json!({"op": "delete_edges", "ids": (0..k).rev().collect::<Vec<_>>()}),
            json!({"op": "delete_edges", "ids": [0, 0]}),
            json!({"op": "delete_edges", "ids": []}),
            json!({"op": "add_edge_source", "e": k.saturating_sub(1), "w": 1}),
            json!({"op": "add_edge_target", "e": 0, "w": 0}),
            json!({"op": "unify", "a": 0, "b": n.saturating_sub(1)}),
            json!({"op": "with_nodes", "add": 1, "extra": 1}),
            json!({"op": "with_edges", "add": 2, "extra": 0}),
            json!({"op": "tensor_assign", "g": cs[9 % cs.len()].json()}),
            json!({"op": "append", "g": f.json()}),
        ];
        for s in steps {
            chk_lax_edit(ctx, &json!({"f": f.json(), "script": [s]}));
        }
    }
    // random scripts of 1..=8 steps
    for _ in 0..ctx.budget(6000, 150000) {
        let b = pick_bounds(&mut ctx.rng);
        let f = rand_lm(&mut ctx.rng, b);
        let len = ctx.rng.range(1, 8);
        // the generator tracks rough node/edge counts so that most steps are legal
        let (mut n, mut k) = (f.m.w.len(), f.m.x.len());
        let mut script = vec![];
        for _ in 0..len {
            let s = rand_step(&mut ctx.rng, n, k);
            match s["op"].as_str().unwrap_or("") {
                "new_node" | "add_edge_source" | "add_edge_target" => n += 1,
                "new_edge" => k += 1,
                "new_operation" => {
                    n += s["a"].as_array().map(|a| a.len()).unwrap_or(0) + s["b"].as_array().map(|a| a.len()).unwrap_or(0);
                    k += 1;
                }
                "delete_nodes" => {
                    let mut ids = us(&s["ids"]).unwrap_or_default();
                    ids.sort();
                    ids.dedup();
                    n -= ids.len().min(n);
                }
                "delete_edges" => {
                    let mut ids = us(&s["ids"]).unwrap_or_default();
                    ids.sort();
                    ids.dedup();
                    k -= ids.len().min(k);
                }
                "append" | "tensor_assign" => {
                    n += s["g"]["m"]["w"].as_array().map(|a| a.len()).unwrap_or(0);
                    k += s["g"]["m"]["x"].as_array().map(|a| a.len()).unwrap_or(0);
                }
                _ => {}
            }
            script.push(s);
        }
        chk_lax_edit(ctx, &json!({"f": f.json(), "script": script}));
    }
    // Var builder: corner terms + random terms
    chk_var_build(ctx, &json!({"ins": [], "ops": [], "res": []}));
    chk_var_build(ctx, &json!({"ins": [0], "ops": [], "res": [0, 0, 0]}));
    chk_var_build(ctx, &json!({"ins": [0, 1], "ops": [{"args": [0, 1, 0], "outs": [2], "x": 11}], "res": [2, 0]}));
    chk_var_build(ctx, &json!({"ins": [1], "ops": [{"args": [], "outs": [], "x": 12}, {"args": [0], "outs": [1, 1], "x": 11}], "res": []}));
    for _ in 0..ctx.budget(2000, 48000) {
        let ins = rand_type(&mut ctx.rng, 3, 3);
        let mut nv = ins.len();
        let mut ops = vec![];
        for _ in 0..ctx.rng.range(0, 4) {
            let la = ctx.rng.range(0, 3);
            let args = if nv == 0 { vec![] } else { ctx.rng.vec_below(la, nv) };
            let outs = rand_type(&mut ctx.rng, 2, 3);
            nv += outs.len();
            ops.push(json!({"args": args, "outs": outs, "x": 11 + ctx.rng.below(2)}));
        }
        let lr = ctx.rng.range(0, 3);
        let res = if nv == 0 { vec![] } else { ctx.rng.vec_below(lr, nv) };
        chk_var_build(ctx, &json!({"ins": ins, "ops": ops, "res": res}));
    }
}
