//! C13 — the native lax functor path agrees with the strict path; the witness is correct; diagrams
//! with pending unifications are refused.
//!
//! Oracles: the strict-path image (`dyn_functor::define_map_arrow`, the subject of C12) and, as a
//! second opinion, the definitional substitution oracle of C12 (`c12::subst`).  The native result is
//! quotiented by the reference closure `model::quotient` (and, separately, by the library's own
//! `quotient`) and compared up to isomorphism.  The witness clauses are evaluated on raw fields.
use crate::c12::*;
use crate::ctx::{guard, Ctx};
use crate::model::*;
use open_hypergraphs::lax::functor as lf;
use serde_json::{json, Value};

type Check = fn(&mut Ctx, &Value);
const CHECKS: &[(&str, Check)] = &[("native", chk_native), ("witness", chk_witness), ("refusal", chk_refusal)];

/// raw reading of a lax result: plain model + pending pairs, all indices checked
fn read_raw(r: &LOH) -> Result<(M, Vec<(usize, usize)>), String> {
    if r.hypergraph.adjacency.len() != r.hypergraph.edges.len() {
        return Err(format!("{} edge labels but {} incidence records", r.hypergraph.edges.len(), r.hypergraph.adjacency.len()));
    }
    if r.hypergraph.quotient.0.len() != r.hypergraph.quotient.1.len() {
        return Err("pending unification lists of different length".into());
    }
    let (m, q) = M::from_lax(r);
    if !m.valid() {
        return Err(format!("node index out of range in {}", m.json()));
    }
    if q.iter().any(|&(u, v)| u >= m.w.len() || v >= m.w.len()) {
        return Err("pending unification out of range".into());
    }
    Ok((m, q))
}

/// the strict-path image of a quotient-free lax diagram (None + failure record if it cannot be had)
fn strict_path(ctx: &mut Ctx, check: &str, input: &Value, fun: &Fun, l: &LOH) -> Option<M> {
    match guard(|| lf::dyn_functor::define_map_arrow(fun, l)) {
        Err(p) => {
            ctx.fail(check, "C13.strict-path-available", input, json!(format!("strict path panic: {}", p)), json!("a diagram"));
            None
        }
        Ok(r) => match read_lax(&r) {
            Err(why) => {
                ctx.fail(check, "C13.strict-path-available", input, json!(why), json!("well-formed diagram"));
                None
            }
            Ok(m) => Some(m),
        },
    }
}

/// input: {"f": model (no pending unifications), "F": functor}
fn chk_native(ctx: &mut Ctx, input: &Value) {
    let Some(i) = decode(input) else { return };
    if !i.fq.is_empty() {
        return;
    }
    ctx.case("native", input, i.f.nontrivial());
    let l = i.f.to_lax();
    let r = match guard(|| lf::try_define_map_arrow(&i.fun, &l)) {
        Err(p) => return ctx.fail("native", "C13.native-no-panic", input, json!(format!("panic: {}", p)), json!("Some(diagram)")),
        Ok(None) => return ctx.fail("native", "C13.native-returns", input, json!("None"), json!("Some(diagram) for a quotient-free input")),
        Ok(Some(r)) => r,
    };
    let (raw, pend) = match read_raw(&r) {
        Err(why) => return ctx.fail("native", "C13.native-wf", input, json!(why), json!("well-formed lax diagram")),
        Ok(x) => x,
    };
    let Some((mq, _)) = quotient(&raw, &pend) else {
        return ctx.fail("native", "C13.native-wf", input, json!({"diagram": raw.json(), "pending": pairs_json(&pend)}), json!("pending unifications relate equal labels"));
    };
    let (fa, fb) = (i.fun.fobj(&i.f.source_type()), i.fun.fobj(&i.f.target_type()));
    if mq.source_type() != fa || mq.target_type() != fb {
        ctx.fail("native", "C13.native-type", input, json!({"source": mq.source_type(), "target": mq.target_type()}), json!({"source": fa, "target": fb}));
    }
    if let Some(sm) = strict_path(ctx, "native", input, &i.fun, &l) {
        if !is_iso(&mq, &sm) {
            ctx.fail("native", "C13.native-vs-strict", input, mq.json(), sm.json());
        }
        // "once quotiented" with the library's own quotient
        let mut r2 = r.clone();
        match guard(|| r2.quotient().is_ok()) {
            Err(p) => ctx.fail("native", "C13.native-quotient-by-library", input, json!(format!("quotient panic: {}", p)), sm.json()),
            Ok(false) => ctx.fail("native", "C13.native-quotient-by-library", input, json!("quotient reported a label clash"), sm.json()),
            Ok(true) => match read_raw(&r2) {
                Err(why) => ctx.fail("native", "C13.native-quotient-by-library", input, json!(why), sm.json()),
                Ok((m2, p2)) => {
                    if !p2.is_empty() || !is_iso(&m2, &sm) {
                        ctx.fail("native", "C13.native-quotient-by-library", input, json!({"diagram": m2.json(), "pending": pairs_json(&p2)}), sm.json());
                    }
                }
            },
        }
    }
    if let Some(e) = subst(&i.f, &i.fun) {
        if !is_iso(&mq, &e) {
            ctx.fail("native", "C13.native-vs-definition", input, mq.json(), e.json());
        }
    }
}

/// input: {"f": model (no pending unifications), "F": functor}
fn chk_witness(ctx: &mut Ctx, input: &Value) {
    let Some(i) = decode(input) else { return };
    if !i.fq.is_empty() {
        return;
    }
    ctx.case("witness", input, i.f.nontrivial());
    let (f, fun) = (&i.f, &i.fun);
    let l = f.to_lax();
    let (r, wit) = match guard(|| lf::map_arrow_witness(fun, &l)) {
        Err(p) => return ctx.fail("witness", "C13.witness-no-panic", input, json!(format!("panic: {}", p)), json!("Some((diagram, witness))")),
        Ok(None) => return ctx.fail("witness", "C13.witness-returns", input, json!("None"), json!("Some for a quotient-free input")),
        Ok(Some(x)) => x,
    };
    let (raw, pend) = match read_raw(&r) {
        Err(why) => return ctx.fail("witness", "C13.native-wf", input, json!(why), json!("well-formed lax diagram")),
        Ok(x) => x,
    };
    let n = f.w.len();
    let blocks: Vec<Vec<u8>> = f.w.iter().map(|&a| fun.obj[a as usize].clone()).collect();
    // shape: one segment per input node, values are nodes of the returned (unquotiented) diagram
    let seg = match ic_wf(&wit, Some(n), Some(raw.w.len())) {
        Err(why) => return ctx.fail("witness", "C13.witness-shape", input, json!({"why": why, "sizes": wit.sources.table.0, "values": wit.values.table.0, "values_target": wit.values.target}), json!({"segments": n, "values_target": raw.w.len()})),
        Ok(s) => s,
    };
    let sizes: Vec<usize> = seg.iter().map(|s| s.len()).collect();
    let exp_sizes: Vec<usize> = blocks.iter().map(|b| b.len()).collect();
    if sizes != exp_sizes {
        return ctx.fail("witness", "C13.witness-sizes", input, json!(sizes), json!(exp_sizes));
    }
    let labels: Vec<Vec<u8>> = seg.iter().map(|s| s.iter().map(|&v| raw.w[v]).collect()).collect();
    if labels != blocks {
        ctx.fail("witness", "C13.witness-labels", input, json!({"witness": seg, "labels": labels}), json!(blocks));
    }
    let Some((mq, q)) = quotient(&raw, &pend) else {
        return ctx.fail("witness", "C13.native-wf", input, json!({"diagram": raw.json(), "pending": pairs_json(&pend)}), json!("pending unifications relate equal labels"));
    };
    // pushing the input interfaces through the witness and the quotient map
    let push = |list: &Vec<usize>, q: &Vec<usize>| -> Vec<usize> { list.iter().flat_map(|&v| seg[v].iter().map(|&u| q[u])).collect() };
    let (ps, pt) = (push(&f.s, &q), push(&f.t, &q));
    if ps != mq.s || pt != mq.t {
        ctx.fail("witness", "C13.witness-interfaces", input, json!({"witness": seg, "pushed_s": ps, "pushed_t": pt}), json!({"s": mq.s, "t": mq.t}));
    }
    // the same with the library's quotient map
    let mut r2 = r.clone();
    match guard(|| r2.quotient()) {
        Ok(Ok(ql)) if ql.table.0.len() == raw.w.len() => {
            let ql = ql.table.0.clone();
            let (ps, pt) = (push(&f.s, &ql), push(&f.t, &ql));
            let (s2, t2): (Vec<usize>, Vec<usize>) = (r2.sources.iter().map(|x| x.0).collect(), r2.targets.iter().map(|x| x.0).collect());
            if ps != s2 || pt != t2 {
                ctx.fail("witness", "C13.witness-interfaces-library-quotient", input, json!({"witness": seg, "q": ql, "pushed_s": ps, "pushed_t": pt}), json!({"s": s2, "t": t2}));
            }
        }
        other => ctx.fail("witness", "C13.witness-interfaces-library-quotient", input, json!(format!("quotient of the result: {:?}", other.map(|x| x.map(|q| q.table.0.len())))), json!("Ok(q) with one entry per node")),
    }
    // the diagram returned next to the witness is the functor image
    if let Some(sm) = strict_path(ctx, "witness", input, fun, &l) {
        if !is_iso(&mq, &sm) {
            ctx.fail("witness", "C13.witness-result-vs-strict", input, mq.json(), sm.json());
        }
    }
    // the witness nodes are the nodes that replace input node i: expose them as extra interface
    // entries on both the definitional image and the returned image and ask for an isomorphism
    if let Some((e, marks)) = subst_marked(f, fun) {
        let mut a = e.clone();
        a.s.extend(marks.iter().flatten().cloned());
        let mut b = mq.clone();
        b.s.extend(seg.iter().flatten().map(|&u| q[u]));
        if !is_iso(&b, &a) {
            ctx.fail("witness", "C13.witness-tracks-nodes", input, json!({"witness": seg, "image_with_witness_nodes_appended_to_sources": b.json()}), a.json());
        }
    }
}

/// input: {"f": model, "fq": non-empty pending pairs (any labels), "F": functor}
fn chk_refusal(ctx: &mut Ctx, input: &Value) {
    let Some(f) = input.get("f").and_then(M::from_json) else { return };
    let Some(fq) = pairs_from_json(input.get("fq").unwrap_or(&Value::Null)) else { return };
    let Some(fun) = input.get("F").and_then(Fun::from_json) else { return };
    if !f.valid() || fq.is_empty() || fq.iter().any(|&(u, v)| u >= f.w.len() || v >= f.w.len()) || !fun.well_typed() || !fun.covers(&f) {
        return;
    }
    ctx.case("refusal", input, f.nontrivial());
    let l = to_lax_q(&f, &fq);
    match guard(|| lf::try_define_map_arrow(&fun, &l)) {
        Err(p) => ctx.fail("refusal", "C13.refuses-pending", input, json!(format!("panic: {}", p)), json!("None")),
        Ok(Some(r)) => ctx.fail("refusal", "C13.refuses-pending", input, json!(format!("Some({:?})", r)), json!("None")),
        Ok(None) => {}
    }
    match guard(|| lf::map_arrow_witness(&fun, &l)) {
        Err(p) => ctx.fail("refusal", "C13.refuses-pending-witness", input, json!(format!("panic: {}", p)), json!("None")),
        Ok(Some((r, _))) => ctx.fail("refusal", "C13.refuses-pending-witness", input, json!(format!("Some({:?})", r)), json!("None")),
        Ok(None) => {}
    }
}

fn both(ctx: &mut Ctx, input: &Value) {
    chk_native(ctx, input);
    chk_witness(ctx, input);
}

pub fn run(ctx: &mut Ctx) {
    if let Some((name, input)) = ctx.replay.clone() {
        for (n, c) in CHECKS {
            if *n == name {
                c(ctx, &input);
            }
        }
        return;
    }
    let thorough = ctx.thorough();

    // (a) corner diagrams x corner object maps x image kinds
    let corners = corner_diagrams();
    let objs = corner_objs();
    for f in &corners {
        for obj in &objs {
            for kind in 0..KINDS {
                let fun = fun_with_obj(&mut ctx.rng, &[f], obj.clone(), Some(kind));
                both(ctx, &json!({"f": f.json(), "F": fun.json()}));
            }
        }
    }
    // long chains (64 = 32+32 nodes merged in binomial-tree order by wire-only images)
    for k in [1usize, 3, 6] {
        let f = binomial_chain(k, 0);
        for obj in [vec![vec![0u8], vec![1], vec![2]], vec![vec![1, 0], vec![1], vec![2]], vec![vec![], vec![1], vec![2]], vec![vec![0, 0, 0], vec![1], vec![2]]] {
            for kind in [0usize, 3, 5] {
                let mut fun = Fun { obj: obj.clone(), ops: vec![] };
                let fa = fun.fobj(&[0]);
                let m = match kind {
                    0 => singleton(30, &fa, &fa),
                    3 => identity(&fa),
                    _ => gen_image(&mut ctx.rng, 10, &fa, &fa, 5).0,
                };
                fun.ops.push(OpImg { x: 10, a: vec![0], b: vec![0], m, q: vec![] });
                both(ctx, &json!({"f": f.json(), "F": fun.json()}));
            }
        }
    }

    // refusal corners: reflexive pair, redundant pair, pair between different labels, pair on an
    // otherwise empty diagram, pending pair next to operations, many pairs
    {
        let idf = |f: &M| -> Fun {
            Fun { obj: (0..NLABELS).map(|l| vec![l as u8]).collect(), ops: sigs(&[f]).into_iter().map(|(x, a, b)| OpImg { m: singleton(x, &a, &b), x, a, b, q: vec![] }).collect() }
        };
        let one = M { w: vec![0], x: vec![], src: vec![], tgt: vec![], s: vec![], t: vec![] };
        let two = M { w: vec![0, 0], x: vec![], src: vec![], tgt: vec![], s: vec![0], t: vec![1] };
        let mixed = M { w: vec![0, 1], x: vec![], src: vec![], tgt: vec![], s: vec![0], t: vec![1] };
        let cases: Vec<(M, Vec<(usize, usize)>)> = vec![
            (one.clone(), vec![(0, 0)]),
            (two.clone(), vec![(0, 1)]),
            (two.clone(), vec![(1, 0)]),
            (two.clone(), vec![(0, 0)]),
            (two.clone(), vec![(1, 1)]),
            (two.clone(), vec![(0, 1), (0, 1), (1, 0)]),
            (mixed.clone(), vec![(0, 1)]),
            (mixed.clone(), vec![(1, 1)]),
            (singleton(10, &[0, 1], &[1]), vec![(1, 2)]),
            (singleton(10, &[0, 1], &[1]), vec![(2, 2)]),
            (binomial_chain(3, 0), vec![(7, 0)]),
            (binomial_chain(5, 0), (0..31).map(|i| (i, i + 1)).collect()),
        ];
        for (f, fq) in cases {
            for obj in [idf(&f).obj, vec![vec![], vec![], vec![]], vec![vec![0, 1], vec![1, 1], vec![2]]] {
                let fun = fun_with_obj(&mut ctx.rng, &[&f], obj, Some(0));
                chk_refusal(ctx, &json!({"f": f.json(), "fq": pairs_json(&fq), "F": fun.json()}));
            }
        }
    }

    // (b) exhaustive small diagrams x the 27 family functors
    let small = if thorough { enum_models(2, 2, 2, false) } else { enum_models(2, 2, 1, false) };
    let small2 = if thorough { enum_models(2, 0, 1, true) } else { vec![] };
    let mut cnt = 0usize;
    for f in small.iter().chain(small2.iter()) {
        for i0 in 0..3 {
            for i1 in 0..3 {
                for kind in 0..3 {
                    if f.x.is_empty() && kind > 0 {
                        continue;
                    }
                    cnt += 1;
                    if !thorough && cnt % 2 == 1 && f.w.len() == 2 {
                        continue; // quick tier: every second functor on the 2-node diagrams
                    }
                    let fun = family_fun(&[f], i0, i1, kind);
                    both(ctx, &json!({"f": f.json(), "F": fun.json()}));
                }
            }
        }
        // refusal on every small diagram with a node: one reflexive or one genuine pending pair
        if !f.w.is_empty() {
            let fun = family_fun(&[f], 1, 1, 0);
            let n = f.w.len();
            for fq in [vec![(0usize, 0usize)], vec![(n - 1, 0)]] {
                chk_refusal(ctx, &json!({"f": f.json(), "fq": pairs_json(&fq), "F": fun.json()}));
            }
        }
    }

    // (c) seeded random
    let n = ctx.budget(2000, 50000);
    for i in 0..n {
        let b = if i % 4 == 0 { GEN_MEDIUM } else { GEN_SMALL };
        let f = random_model(&mut ctx.rng, b);
        let mode = [0usize, 0, 0, 5, 1, 3, 2, 4][ctx.rng.below(8)];
        let kind = if ctx.rng.chance(1, 3) { Some(ctx.rng.below(KINDS)) } else { None };
        let fun = gen_fun(&mut ctx.rng, &[&f], mode, kind);
        both(ctx, &json!({"f": f.json(), "F": fun.json()}));
        if i % 4 == 0 && !f.w.is_empty() {
            // any pending pairs at all, equal labels or not
            let k = ctx.rng.range(1, 3);
            let fq: Vec<(usize, usize)> = (0..k).map(|_| (ctx.rng.below(f.w.len()), ctx.rng.below(f.w.len()))).collect();
            chk_refusal(ctx, &json!({"f": f.json(), "fq": pairs_json(&fq), "F": fun.json()}));
        }
    }
    // operation-free diagrams with arbitrary wiring and long interfaces
    let n = ctx.budget(300, 5000);
    for _ in 0..n {
        let mut f = random_model(&mut ctx.rng, Bounds { nodes: 4, edges: 0, arity: 0, iface: 6, labels: 3 });
        f.x.clear();
        f.src.clear();
        f.tgt.clear();
        let fun = gen_fun(&mut ctx.rng, &[&f], 0, None);
        both(ctx, &json!({"f": f.json(), "F": fun.json()}));
    }

    ctx.notes.push(format!(
        "rule: inputs are (quotient-free diagram f, table functor F as in C12) for native/witness and (diagram f, non-empty list of \
         pending unifications fq between arbitrary nodes, F) for refusal. native: try_define_map_arrow result quotiented by the \
         reference closure (and by the library quotient) is isomorphic to the strict-path image and to the definitional \
         substitution; witness: shape/sizes/labels on raw fields, interfaces pushed through witness and quotient map (reference \
         and library), returned diagram isomorphic to the strict-path image, witness nodes are the nodes replacing each input \
         node (isomorphism with the witness nodes exposed as extra interface entries). Enumeration: {} corner diagrams x {} \
         object maps x {} image kinds; binomial chains of 2/8/64 nodes; 12 refusal corners (reflexive, redundant, \
         label-mismatching, long chain) x 3 object maps; exhaustive: {} diagrams with <=2 nodes (labels 0/1), <=1 edge with lists \
         <=2, interfaces <={}{} x 27 family functors{}; random: bounds (3 nodes,2 edges,arity 2,iface 3,labels 3) and (5,3,3,4,3), \
         object-map lengths 0..3, every fourth also with 1..3 random pending pairs for refusal; operation-free diagrams with \
         interfaces up to 6. non-trivial = the diagram has a node and an edge or an interface entry.",
        corners.len(),
        objs.len(),
        KINDS,
        small.len(),
        if thorough { 2 } else { 1 },
        if thorough { format!(" + {} two-edge diagrams", small2.len()) } else { String::new() },
        if thorough { "" } else { " (every second functor on 2-node diagrams)" }
    ));
}
