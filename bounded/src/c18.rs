//! C18 — hypergraph morphism validation, monomorphism and convexity tests are exact.
//!
//! Input of the three main checks: two plain hypergraphs g, h (model `M` with empty interfaces) and
//! two finite maps  w : len(w) -> wt,  x : len(x) -> xt  (any lengths, any declared codomains).
//!
//! Oracles (plain loops, from the property statement):
//!  * typed-w / typed-x : the declared codomain is the node / hyperedge set of h
//!  * labels-w / labels-x: the map is defined exactly on the nodes / hyperedges of g, every image is an
//!                        element of h and g's label of every element equals h's label of its image
//!  * sources / targets : for every hyperedge e of g, x(e) is a hyperedge of h and the ordered list of
//!                        e, mapped elementwise by w, equals the ordered list of x(e)
//!    (each clause is evaluated on the values alone, independently of the others)
//!    accepted  <=>  all six hold;   Err(variant)  =>  the clause named by the variant is false.
//!  * monomorphism      : no value repeated in w and none in x
//!  * convex            : monomorphism and there is NO hyperedge e outside the image of x together
//!                        with image nodes u, v such that u reaches (in >= 0 steps, any hyperedges)
//!                        some source of e and some target of e reaches (>= 0 steps) v.
//!                        (= "a directed path between two image nodes passes through an outside
//!                        hyperedge"; reachability by Warshall closure on the whole of h.)
//! A fourth check exercises the two segmented-array reindexing routines validation is made of.
use crate::ctx::{guard, Ctx, Rng};
use crate::model::*;
use open_hypergraphs::array::vec::*;
use open_hypergraphs::finite_function::FiniteFunction;
use open_hypergraphs::indexed_coproduct::IndexedCoproduct;
use open_hypergraphs::semifinite::SemifiniteFunction;
use open_hypergraphs::strict::hypergraph::arrow::{HypergraphArrow, InvalidHypergraphArrow};
use serde_json::{json, Value};
use std::sync::atomic::{AtomicU64, Ordering};

type Check = fn(&mut Ctx, &Value);
const CHECKS: &[(&str, Check)] = &[("validate", chk_validate), ("mono", chk_mono), ("convex", chk_convex), ("reindex", chk_reindex)];

static ACCEPTED: AtomicU64 = AtomicU64::new(0);
static REJ: [AtomicU64; 6] = [AtomicU64::new(0), AtomicU64::new(0), AtomicU64::new(0), AtomicU64::new(0), AtomicU64::new(0), AtomicU64::new(0)];
static MONO_T: AtomicU64 = AtomicU64::new(0);
static MONO_F: AtomicU64 = AtomicU64::new(0);
static CONVEX_T: AtomicU64 = AtomicU64::new(0);
static CONVEX_F_PATH: AtomicU64 = AtomicU64::new(0);
static CONVEX_F_MONO: AtomicU64 = AtomicU64::new(0);

#[derive(Clone, Debug)]
struct In {
    g: M,
    h: M,
    w: Vec<usize>,
    wt: usize,
    x: Vec<usize>,
    xt: usize,
}

impl In {
    fn json(&self) -> Value {
        json!({"g": self.g.json(), "h": self.h.json(), "w": self.w, "wt": self.wt, "x": self.x, "xt": self.xt})
    }
    fn from_json(v: &Value) -> Option<In> {
        let us = |v: &Value| -> Option<Vec<usize>> { v.as_array()?.iter().map(|x| x.as_u64().map(|y| y as usize)).collect() };
        let i = In {
            g: M::from_json(v.get("g")?)?,
            h: M::from_json(v.get("h")?)?,
            w: us(v.get("w")?)?,
            wt: v.get("wt")?.as_u64()? as usize,
            x: us(v.get("x")?)?,
            xt: v.get("xt")?.as_u64()? as usize,
        };
        // two well-formed hypergraphs and two finite maps (every value below the declared codomain)
        if i.g.valid() && i.h.valid() && i.w.iter().all(|&v| v < i.wt) && i.x.iter().all(|&v| v < i.xt) {
            Some(i)
        } else {
            None
        }
    }
}

// ------------------------------------------------------------------------------------------------
// watchdog: "returns an answer" includes termination.  The checks announce every library call
// sequence (`enter`); if the same one is still running after LIMIT_S seconds, the watchdog writes a
// report (same shape as Ctx::report) naming the input and the violated totality clause and exits 1.
// ------------------------------------------------------------------------------------------------
mod watchdog {
    use serde_json::{json, Value};
    use std::sync::atomic::{AtomicU64, Ordering};
    use std::sync::{Mutex, Once};
    use std::time::{Duration, Instant};

    pub const LIMIT_S: u64 = 20;
    static CUR: Mutex<Option<(String, String, String)>> = Mutex::new(None);
    static TICK: AtomicU64 = AtomicU64::new(0);
    static FAILS: Mutex<Vec<Value>> = Mutex::new(Vec::new());
    static START: Once = Once::new();

    pub fn start(property: &str, tier: &str, seed: u64, replay: bool) {
        let (property, tier) = (property.to_string(), tier.to_string());
        START.call_once(move || {
            std::thread::spawn(move || {
                let t0 = Instant::now();
                let mut last = (u64::MAX, Instant::now());
                loop {
                    std::thread::sleep(Duration::from_millis(250));
                    let tick = TICK.load(Ordering::SeqCst);
                    if tick != last.0 {
                        last = (tick, Instant::now());
                        continue;
                    }
                    if last.1.elapsed().as_secs() < LIMIT_S {
                        continue;
                    }
                    let cur = CUR.lock().map(|g| g.clone()).unwrap_or(None);
                    if let Some((check, clause, input)) = cur {
                        let input: Value = serde_json::from_str(&input).unwrap_or(Value::Null);
                        let observed = format!("no answer within {} s: the call did not return", LIMIT_S);
                        if replay {
                            println!("replay: check={} clause={} input={} observed={} expected={}", check, clause, input, json!(observed), json!("an answer"));
                        } else {
                            let mut fails: Vec<Value> = FAILS.lock().map(|g| g.clone()).unwrap_or_default();
                            fails.insert(0, json!({"check": check, "clause": clause, "input": input, "observed": observed, "expected": "an answer"}));
                            let nfail = fails.len();
                            let rep = json!({
                                "property": property, "tier": tier, "seed": seed,
                                "evaluations": tick, "distinct_nontrivial": 0, "per_check": {},
                                "failures": fails,
                                "samples": [], "notes": ["run aborted by the termination watchdog; counts are incomplete"],
                                "wall_s": t0.elapsed().as_secs_f64(),
                            });
                            let args: Vec<String> = std::env::args().collect();
                            if args.len() >= 6 && args[1] == "run" {
                                let _ = std::fs::write(&args[5], serde_json::to_string_pretty(&rep).unwrap());
                            }
                            println!("bounded {}: aborted after {} evaluations, {} failures (first: check {} clause {}: call did not return)", property, tick, nfail, check, clause);
                        }
                        std::process::exit(1);
                    }
                }
            });
        });
    }
    pub fn record(f: Value) {
        if let Ok(mut g) = FAILS.lock() {
            if g.len() < 49 {
                g.push(f);
            }
        }
    }
    /// announce the library calls made for one input
    pub fn enter(check: &str, clause: &str, input: &Value) {
        if let Ok(mut g) = CUR.lock() {
            *g = Some((check.to_string(), clause.to_string(), input.to_string()));
        }
        TICK.fetch_add(1, Ordering::SeqCst);
    }
    pub fn leave() {
        if let Ok(mut g) = CUR.lock() {
            *g = None;
        }
        TICK.fetch_add(1, Ordering::SeqCst);
    }
}

/// report a violated clause (and mirror it for the watchdog, whose abort report would otherwise lose it)
fn fail(ctx: &mut Ctx, check: &str, clause: &str, input: &Value, observed: Value, expected: Value) {
    watchdog::record(json!({"check": check, "clause": clause, "input": input, "observed": observed, "expected": expected}));
    ctx.fail(check, clause, input, observed, expected);
}

// ------------------------------------------------------------------------------------------------
// oracles
// ------------------------------------------------------------------------------------------------
struct Clauses {
    typed_w: bool,
    typed_x: bool,
    labels_w: bool,
    labels_x: bool,
    sources: bool,
    targets: bool,
}

impl Clauses {
    fn all(&self) -> bool {
        self.typed_w && self.typed_x && self.labels_w && self.labels_x && self.sources && self.targets
    }
    fn json(&self) -> Value {
        json!({"typed_w": self.typed_w, "typed_x": self.typed_x, "labels_w": self.labels_w, "labels_x": self.labels_x, "sources": self.sources, "targets": self.targets})
    }
}

fn lists_preserved(i: &In, gl: &[Vec<usize>], hl: &[Vec<usize>]) -> bool {
    for e in 0..i.g.x.len() {
        if e >= i.x.len() {
            return false; // no image for this hyperedge
        }
        let fe = i.x[e];
        if fe >= hl.len() {
            return false;
        }
        let img = &hl[fe];
        if gl[e].len() != img.len() {
            return false;
        }
        for j in 0..img.len() {
            let v = gl[e][j];
            if v >= i.w.len() || i.w[v] != img[j] {
                return false;
            }
        }
    }
    true
}

fn clauses(i: &In) -> Clauses {
    let typed_w = i.wt == i.h.w.len();
    let typed_x = i.xt == i.h.x.len();
    // every clause is judged on its own condition only (a mistyped map whose values happen to be in
    // range still preserves labels / lists elementwise; a value without an image element does not)
    let (nh, kh) = (i.h.w.len(), i.h.x.len());
    let labels_w = i.w.len() == i.g.w.len() && (0..i.w.len()).all(|k| i.w[k] < nh && i.g.w[k] == i.h.w[i.w[k]]);
    let labels_x = i.x.len() == i.g.x.len() && (0..i.x.len()).all(|k| i.x[k] < kh && i.g.x[k] == i.h.x[i.x[k]]);
    let sources = lists_preserved(i, &i.g.src, &i.h.src);
    let targets = lists_preserved(i, &i.g.tgt, &i.h.tgt);
    Clauses { typed_w, typed_x, labels_w, labels_x, sources, targets }
}

fn has_repeat(l: &[usize]) -> bool {
    for i in 0..l.len() {
        for j in 0..i {
            if l[i] == l[j] {
                return true;
            }
        }
    }
    false
}

/// rs[u][v] iff v is reachable from u in >= 0 steps
fn reach_refl(m: &M) -> Vec<Vec<bool>> {
    let n = m.w.len();
    let mut r = vec![vec![false; n]; n];
    for u in 0..n {
        r[u][u] = true;
    }
    for e in 0..m.x.len() {
        for &u in &m.src[e] {
            for &v in &m.tgt[e] {
                r[u][v] = true;
            }
        }
    }
    for k in 0..n {
        for i in 0..n {
            if r[i][k] {
                for j in 0..n {
                    if r[k][j] {
                        r[i][j] = true;
                    }
                }
            }
        }
    }
    r
}

/// some directed path between two image nodes passes through a hyperedge outside the image
fn outside_path(i: &In) -> Option<(usize, usize, usize)> {
    let h = &i.h;
    let rs = reach_refl(h);
    for e in 0..h.x.len() {
        if i.x.contains(&e) {
            continue;
        }
        let mut entry = None;
        for &u in &i.w {
            if h.src[e].iter().any(|&a| rs[u][a]) {
                entry = Some(u);
                break;
            }
        }
        let mut exit = None;
        for &v in &i.w {
            if h.tgt[e].iter().any(|&b| rs[b][v]) {
                exit = Some(v);
                break;
            }
        }
        if let (Some(u), Some(v)) = (entry, exit) {
            return Some((u, e, v));
        }
    }
    None
}

// ------------------------------------------------------------------------------------------------
// library side helpers
// ------------------------------------------------------------------------------------------------
fn ff(table: &[usize], target: usize) -> FF {
    FiniteFunction::new(VecArray(table.to_vec()), target).expect("finite map: values below codomain")
}

fn h_model(h: &SH) -> Result<M, String> {
    let n = h.w.0 .0.len();
    let k = h.x.0 .0.len();
    let src = ic_wf(&h.s, Some(k), Some(n)).map_err(|e| format!("s: {}", e))?;
    let tgt = ic_wf(&h.t, Some(k), Some(n)).map_err(|e| format!("t: {}", e))?;
    Ok(M { w: h.w.0 .0.clone(), x: h.x.0 .0.clone(), src, tgt, s: vec![], t: vec![] })
}

fn strip(m: &M) -> M {
    let mut m = m.clone();
    m.s = vec![];
    m.t = vec![];
    m
}

fn variant_index(e: &InvalidHypergraphArrow) -> usize {
    match e {
        InvalidHypergraphArrow::TypeMismatchW => 0,
        InvalidHypergraphArrow::TypeMismatchX => 1,
        InvalidHypergraphArrow::NotNaturalW => 2,
        InvalidHypergraphArrow::NotNaturalX => 3,
        InvalidHypergraphArrow::NotNaturalS => 4,
        InvalidHypergraphArrow::NotNaturalT => 5,
    }
}

// ------------------------------------------------------------------------------------------------
// checks
// ------------------------------------------------------------------------------------------------
/// input: {"g","h","w","wt","x","xt"}
fn chk_validate(ctx: &mut Ctx, input: &Value) {
    let i = match In::from_json(input) {
        Some(i) => i,
        None => return,
    };
    ctx.case("validate", input, i.w.len() + i.x.len() > 0);
    watchdog::enter("validate", "C18.validate-total", input);
    let c = clauses(&i);
    let (sg, sh) = (strip(&i.g).to_strict().h, strip(&i.h).to_strict().h);
    let (fw, fx) = (ff(&i.w, i.wt), ff(&i.x, i.xt));
    let got = guard(|| HypergraphArrow::new(sg, sh, fw, fx));
    match got {
        Err(p) => fail(ctx, "validate", "C18.validate-total", input, json!(format!("panic: {}", p)), c.json()),
        Ok(Ok(a)) => {
            ACCEPTED.fetch_add(1, Ordering::Relaxed);
            if !c.all() {
                fail(ctx, "validate", "C18.accept-iff", input, json!("accepted"), c.json());
            }
            // the accepted arrow carries exactly what was given
            let same = a.w.table.0 == i.w
                && a.w.target == i.wt
                && a.x.table.0 == i.x
                && a.x.target == i.xt
                && h_model(&a.source).as_ref() == Ok(&strip(&i.g))
                && h_model(&a.target).as_ref() == Ok(&strip(&i.h));
            if !same {
                fail(ctx, "validate", "C18.accepted-arrow-is-the-input", input, json!(format!("{:?}", a)), json!("same g, h, w, x"));
            }
        }
        Ok(Err(e)) => {
            let v = variant_index(&e);
            REJ[v].fetch_add(1, Ordering::Relaxed);
            if c.all() {
                fail(ctx, "validate", "C18.accept-iff", input, json!(format!("rejected: {:?}", e)), json!("accepted (all clauses hold)"));
            } else {
                let named_holds = [c.typed_w, c.typed_x, c.labels_w, c.labels_x, c.sources, c.targets][v];
                if named_holds {
                    fail(ctx, "validate", "C18.rejection-names-failing-condition", input, json!(format!("{:?}", e)), c.json());
                }
            }
        }
    }
}

/// input: as validate; evaluated when both maps go between the node / hyperedge sets (natural or not)
fn chk_mono(ctx: &mut Ctx, input: &Value) {
    let i = match In::from_json(input) {
        Some(i) => i,
        None => return,
    };
    if !(i.w.len() == i.g.w.len() && i.wt == i.h.w.len() && i.x.len() == i.g.x.len() && i.xt == i.h.x.len()) {
        return;
    }
    ctx.case("mono", input, i.w.len() + i.x.len() > 0);
    watchdog::enter("mono", "C18.mono-total", input);
    let expected = !has_repeat(&i.w) && !has_repeat(&i.x);
    if expected {
        MONO_T.fetch_add(1, Ordering::Relaxed);
    } else {
        MONO_F.fetch_add(1, Ordering::Relaxed);
    }
    let a = HypergraphArrow { source: strip(&i.g).to_strict().h, target: strip(&i.h).to_strict().h, w: ff(&i.w, i.wt), x: ff(&i.x, i.xt) };
    match guard(|| a.is_monomorphism()) {
        Err(p) => fail(ctx, "mono", "C18.mono-total", input, json!(format!("panic: {}", p)), json!(expected)),
        Ok(got) => {
            if got != expected {
                fail(ctx, "mono", "C18.mono-iff", input, json!(got), json!(expected));
            }
        }
    }
}

/// input: as validate; evaluated when (g, h, w, x) is a morphism by the oracle
fn chk_convex(ctx: &mut Ctx, input: &Value) {
    let i = match In::from_json(input) {
        Some(i) => i,
        None => return,
    };
    if !clauses(&i).all() {
        return;
    }
    let has_step = (0..i.h.x.len()).any(|e| !i.h.src[e].is_empty() && !i.h.tgt[e].is_empty());
    ctx.case("convex", input, has_step);
    watchdog::enter("convex", "C18.convex-total", input);
    let mono = !has_repeat(&i.w) && !has_repeat(&i.x);
    let witness = outside_path(&i);
    let expected = mono && witness.is_none();
    if expected {
        CONVEX_T.fetch_add(1, Ordering::Relaxed);
    } else if !mono {
        CONVEX_F_MONO.fetch_add(1, Ordering::Relaxed);
    } else {
        CONVEX_F_PATH.fetch_add(1, Ordering::Relaxed);
    }
    let a = HypergraphArrow { source: strip(&i.g).to_strict().h, target: strip(&i.h).to_strict().h, w: ff(&i.w, i.wt), x: ff(&i.x, i.xt) };
    match guard(|| a.is_convex_subgraph()) {
        Err(p) => fail(ctx, "convex", "C18.convex-total", input, json!(format!("panic: {}", p)), json!(expected)),
        Ok(got) => {
            if got != expected {
                let clause = if !mono { "C18.convex-requires-mono" } else { "C18.convex-iff" };
                fail(ctx, "convex", clause, input, json!(got), json!({"expected": expected, "mono": mono, "outside_path(from,edge,to)": witness.map(|(u, e, v)| vec![u, e, v])}));
            }
        }
    }
}

/// input: {"segs": [[..]], "n": codomain, "x": [..], "xt": .., "f": [..], "ft": ..}
/// map_indexes(x) = the segments [segs[x[0]], segs[x[1]], ..] (None iff xt != number of segments);
/// map_values(f)  = every value v replaced by f[v]          (None iff len(f) != n)
fn chk_reindex(ctx: &mut Ctx, input: &Value) {
    let us = |v: &Value| -> Option<Vec<usize>> { v.as_array()?.iter().map(|x| x.as_u64().map(|y| y as usize)).collect() };
    let parse = || -> Option<(Vec<Vec<usize>>, usize, Vec<usize>, usize, Vec<usize>, usize)> {
        let segs: Option<Vec<Vec<usize>>> = input.get("segs")?.as_array()?.iter().map(|l| us(l)).collect();
        Some((segs?, input.get("n")?.as_u64()? as usize, us(input.get("x")?)?, input.get("xt")?.as_u64()? as usize, us(input.get("f")?)?, input.get("ft")?.as_u64()? as usize))
    };
    let (segs, n, x, xt, f, ft) = match parse() {
        Some(p) => p,
        None => return,
    };
    if segs.iter().flatten().any(|&v| v >= n) || x.iter().any(|&v| v >= xt) || f.iter().any(|&v| v >= ft) {
        return;
    }
    ctx.case("reindex", input, !segs.is_empty() && !x.is_empty());
    watchdog::enter("reindex", "C18.reindex-total", input);
    let sizes: Vec<usize> = segs.iter().map(|l| l.len()).collect();
    let vals: Vec<usize> = segs.iter().flatten().cloned().collect();
    let c: IC = IndexedCoproduct::from_semifinite(SemifiniteFunction(VecArray(sizes)), ff(&vals, n)).unwrap();
    // map_indexes
    let exp_idx: Option<Vec<Vec<usize>>> = if xt == segs.len() { Some(x.iter().map(|&k| segs[k].clone()).collect()) } else { None };
    let fx = ff(&x, xt);
    match guard(|| c.map_indexes(&fx)) {
        Err(p) => fail(ctx, "reindex", "C18.reindex-total", input, json!(format!("map_indexes panicked: {}", p)), json!(exp_idx)),
        Ok(None) => {
            if exp_idx.is_some() {
                fail(ctx, "reindex", "C18.map-indexes", input, json!("None"), json!(exp_idx));
            }
        }
        Ok(Some(r)) => match (ic_wf(&r, Some(x.len()), Some(n)), &exp_idx) {
            (Ok(got), Some(e)) if &got == e => {}
            (got, e) => fail(ctx, "reindex", "C18.map-indexes", input, json!(format!("{:?}", got)), json!(e)),
        },
    }
    // map_values
    let exp_val: Option<Vec<Vec<usize>>> = if f.len() == n { Some(segs.iter().map(|l| l.iter().map(|&v| f[v]).collect()).collect()) } else { None };
    let fv = ff(&f, ft);
    match guard(|| c.map_values(&fv)) {
        Err(p) => fail(ctx, "reindex", "C18.reindex-total", input, json!(format!("map_values panicked: {}", p)), json!(exp_val)),
        Ok(None) => {
            if exp_val.is_some() {
                fail(ctx, "reindex", "C18.map-values", input, json!("None"), json!(exp_val));
            }
        }
        Ok(Some(r)) => match (ic_wf(&r, Some(segs.len()), Some(ft)), &exp_val) {
            (Ok(got), Some(e)) if &got == e => {}
            (got, e) => fail(ctx, "reindex", "C18.map-values", input, json!(format!("{:?}", got)), json!(e)),
        },
    }
}

fn all_checks(ctx: &mut Ctx, i: &In) {
    let input = i.json();
    chk_validate(ctx, &input);
    chk_mono(ctx, &input);
    chk_convex(ctx, &input);
}

// ------------------------------------------------------------------------------------------------
// generators
// ------------------------------------------------------------------------------------------------
fn perm(r: &mut Rng, n: usize) -> Vec<usize> {
    let mut p: Vec<usize> = (0..n).collect();
    for i in (1..n).rev() {
        let j = r.below(i + 1);
        p.swap(i, j);
    }
    p
}

fn lists(n: usize, maxlen: usize) -> Vec<Vec<usize>> {
    let mut out = vec![vec![]];
    let mut last: Vec<Vec<usize>> = vec![vec![]];
    for _ in 0..maxlen {
        let mut next = vec![];
        for l in &last {
            for v in 0..n {
                let mut l2 = l.clone();
                l2.push(v);
                next.push(l2);
            }
        }
        out.extend(next.iter().cloned());
        last = next;
    }
    out
}

/// every hypergraph on `n` nodes with exactly k hyperedges, lists from `ls`, labels from the given sets
fn hypergraphs(n: usize, k: usize, ls: &[Vec<usize>], nlabels: usize, elabels: usize) -> Vec<M> {
    let mut out = vec![];
    // digits: n node labels, then per edge (label, src, tgt)
    let mut radix = vec![nlabels; n];
    for _ in 0..k {
        radix.push(elabels);
        radix.push(ls.len());
        radix.push(ls.len());
    }
    let mut idx = vec![0usize; radix.len()];
    loop {
        out.push(M {
            w: (0..n).map(|i| idx[i] as u8).collect(),
            x: (0..k).map(|e| 10 + idx[n + 3 * e] as u8).collect(),
            src: (0..k).map(|e| ls[idx[n + 3 * e + 1]].clone()).collect(),
            tgt: (0..k).map(|e| ls[idx[n + 3 * e + 2]].clone()).collect(),
            s: vec![],
            t: vec![],
        });
        let mut p = 0;
        loop {
            if p == idx.len() {
                return out;
            }
            idx[p] += 1;
            if idx[p] < radix[p] {
                break;
            }
            idx[p] = 0;
            p += 1;
        }
    }
}

/// all maps a -> b as tables
fn all_maps(a: usize, b: usize) -> Vec<Vec<usize>> {
    let mut out = vec![vec![]];
    for _ in 0..a {
        let mut next = vec![];
        for m in &out {
            for v in 0..b {
                let mut m2 = m.clone();
                m2.push(v);
                next.push(m2);
            }
        }
        out = next;
    }
    out
}

/// the sub-hypergraph of h on the node list `ns` (distinct) and hyperedge list `es` (distinct; all
/// incident nodes must be in `ns`), numbered in the order given, with its inclusion
fn inclusion(h: &M, ns: &[usize], es: &[usize]) -> In {
    let mut pos = vec![usize::MAX; h.w.len()];
    for (k, &v) in ns.iter().enumerate() {
        pos[v] = k;
    }
    let mp = |l: &Vec<usize>| l.iter().map(|&v| pos[v]).collect::<Vec<_>>();
    let g = M {
        w: ns.iter().map(|&v| h.w[v]).collect(),
        x: es.iter().map(|&e| h.x[e]).collect(),
        src: es.iter().map(|&e| mp(&h.src[e])).collect(),
        tgt: es.iter().map(|&e| mp(&h.tgt[e])).collect(),
        s: vec![],
        t: vec![],
    };
    In { g, h: strip(h), w: ns.to_vec(), wt: h.w.len(), x: es.to_vec(), xt: h.x.len() }
}

/// random sub-hypergraph: hyperedges with probability pe, extra nodes with probability pn (in 1/4ths)
fn gen_inclusion(r: &mut Rng, h: &M, pe: usize, pn: usize) -> In {
    let mut es: Vec<usize> = (0..h.x.len()).filter(|_| r.chance(pe, 4)).collect();
    let mut need = vec![false; h.w.len()];
    for &e in &es {
        for &v in h.src[e].iter().chain(h.tgt[e].iter()) {
            need[v] = true;
        }
    }
    let mut ns: Vec<usize> = (0..h.w.len()).filter(|&v| need[v] || r.chance(pn, 4)).collect();
    // random numbering of the subobject (the inclusion need not be monotone)
    let p = perm(r, ns.len());
    ns = p.iter().map(|&k| ns[k]).collect();
    let q = perm(r, es.len());
    es = q.iter().map(|&k| es[k]).collect();
    inclusion(h, &ns, &es)
}

/// disjoint union of two arrows into the same h (copairing): a morphism, injective iff the images are disjoint
fn copair(a: &In, b: &In) -> In {
    let g = tensor(&a.g, &b.g);
    In { g, h: a.h.clone(), w: [a.w.clone(), b.w.clone()].concat(), wt: a.wt, x: [a.x.clone(), b.x.clone()].concat(), xt: a.xt }
}

/// a morphism into h built backwards: choose images first, then g's incidence among the preimages
fn gen_natural(r: &mut Rng, h: &M) -> In {
    let nh = h.w.len();
    let kg = if h.x.is_empty() { 0 } else { r.range(0, 4) };
    let x = r.vec_below(kg, h.x.len().max(1));
    let n0 = if nh == 0 { 0 } else { r.range(0, 4) };
    let mut w: Vec<usize> = r.vec_below(n0, nh.max(1));
    let pick = |r: &mut Rng, w: &mut Vec<usize>, v: usize| -> usize {
        let pre: Vec<usize> = (0..w.len()).filter(|&k| w[k] == v).collect();
        if pre.is_empty() || r.chance(1, 4) {
            w.push(v);
            w.len() - 1
        } else {
            pre[r.below(pre.len())]
        }
    };
    let mut src = vec![];
    let mut tgt = vec![];
    for &e in &x {
        src.push(h.src[e].iter().map(|&v| pick(r, &mut w, v)).collect::<Vec<_>>());
        tgt.push(h.tgt[e].iter().map(|&v| pick(r, &mut w, v)).collect::<Vec<_>>());
    }
    let g = M { w: w.iter().map(|&v| h.w[v]).collect(), x: x.iter().map(|&e| h.x[e]).collect(), src, tgt, s: vec![], t: vec![] };
    In { g, h: strip(h), w, wt: nh, x, xt: h.x.len() }
}

/// one small edit; the oracle decides whether the result is still a morphism
fn mutate(r: &mut Rng, i: &mut In) {
    let (ng, kg) = (i.g.w.len(), i.g.x.len());
    match r.below(16) {
        0 => {
            if ng > 0 {
                let k = r.below(ng);
                i.g.w[k] ^= 1;
            }
        }
        1 => {
            if kg > 0 {
                let k = r.below(kg);
                i.g.x[k] ^= 1;
            }
        }
        2 => {
            // replace an incidence by another node of g (may have the same image: stays natural)
            if kg > 0 && ng > 0 {
                let e = r.below(kg);
                let l = if r.chance(1, 2) { &mut i.g.src[e] } else { &mut i.g.tgt[e] };
                if !l.is_empty() {
                    let j = r.below(l.len());
                    l[j] = r.below(ng);
                }
            }
        }
        3 => {
            if kg > 0 {
                let e = r.below(kg);
                let l = if r.chance(1, 2) { &mut i.g.src[e] } else { &mut i.g.tgt[e] };
                if r.chance(1, 2) {
                    l.pop();
                } else if ng > 0 {
                    l.push(r.below(ng));
                }
            }
        }
        4 => {
            if kg > 0 {
                let e = r.below(kg);
                let l = if r.chance(1, 2) { &mut i.g.src[e] } else { &mut i.g.tgt[e] };
                if l.len() >= 2 {
                    let a = r.below(l.len());
                    let b = r.below(l.len());
                    l.swap(a, b);
                }
            }
        }
        5 => {
            if kg > 0 {
                let e = r.below(kg);
                std::mem::swap(&mut i.g.src[e], &mut i.g.tgt[e]);
            }
        }
        6 => {
            if !i.w.is_empty() && i.wt > 0 {
                let k = r.below(i.w.len());
                i.w[k] = r.below(i.wt);
            }
        }
        7 => {
            if !i.x.is_empty() && i.xt > 0 {
                let k = r.below(i.x.len());
                i.x[k] = r.below(i.xt);
            }
        }
        8 => {
            // mistype w
            if r.chance(1, 2) || i.wt == 0 || i.w.iter().any(|&v| v + 1 >= i.wt) {
                i.wt += r.range(1, 2);
            } else {
                i.wt -= 1;
            }
        }
        9 => {
            if r.chance(1, 2) || i.xt == 0 || i.x.iter().any(|&v| v + 1 >= i.xt) {
                i.xt += r.range(1, 2);
            } else {
                i.xt -= 1;
            }
        }
        10 => {
            if r.chance(1, 2) {
                i.w.pop();
            } else if i.wt > 0 {
                i.w.push(r.below(i.wt));
            }
        }
        11 => {
            if r.chance(1, 2) {
                i.x.pop();
            } else if i.xt > 0 {
                i.x.push(r.below(i.xt));
            }
        }
        12 => {
            // move a list boundary between two consecutive hyperedges of g (flattened values unchanged)
            if kg >= 2 {
                let e = r.below(kg - 1);
                let src = r.chance(1, 2);
                let ls = if src { &mut i.g.src } else { &mut i.g.tgt };
                if let Some(v) = ls[e].pop() {
                    ls[e + 1].insert(0, v);
                } else if !ls[e + 1].is_empty() {
                    let v = ls[e + 1].remove(0);
                    ls[e].push(v);
                }
            }
        }
        13 => {
            // edit the codomain hypergraph: label or incidence
            let (nh, kh) = (i.h.w.len(), i.h.x.len());
            if r.chance(1, 2) {
                if nh > 0 {
                    let k = r.below(nh);
                    i.h.w[k] ^= 1;
                }
            } else if kh > 0 && nh > 0 {
                let e = r.below(kh);
                let l = if r.chance(1, 2) { &mut i.h.src[e] } else { &mut i.h.tgt[e] };
                if !l.is_empty() {
                    let j = r.below(l.len());
                    l[j] = r.below(nh);
                } else {
                    l.push(r.below(nh));
                }
            }
        }
        14 => {
            // move an element from the source list to the target list of the same hyperedge
            if kg > 0 {
                let e = r.below(kg);
                if let Some(v) = i.g.src[e].pop() {
                    i.g.tgt[e].insert(0, v);
                }
            }
        }
        _ => {
            // add a node or a hyperedge to g without extending the maps
            if r.chance(1, 2) {
                i.g.w.push(0);
            } else {
                i.g.x.push(10);
                i.g.src.push(vec![]);
                i.g.tgt.push(vec![]);
            }
        }
    }
}

/// codomains for convexity: mostly unary/binary hyperedges, cycles likely, isolated nodes possible
fn gen_host(r: &mut Rng, max_nodes: usize, max_edges: usize) -> M {
    let n = r.range(1, max_nodes);
    let k = r.range(0, max_edges);
    let mut m = M { w: (0..n).map(|_| r.below(2) as u8).collect(), ..M::empty() };
    let touch = r.range(1, n); // nodes >= touch are never touched by a hyperedge
    let acyclic = r.chance(1, 3);
    for _ in 0..k {
        let a = [0, 1, 1, 1, 2][r.below(5)];
        let b = [0, 1, 1, 1, 2, 3][r.below(6)];
        let mut src = r.vec_below(a, touch);
        let mut tgt = r.vec_below(b, touch);
        if acyclic {
            // orient along the numbering
            let lo = src.iter().cloned().max().unwrap_or(0);
            for v in tgt.iter_mut() {
                if *v <= lo {
                    *v = (lo + 1 + r.below(touch)).min(touch);
                }
            }
            tgt.retain(|&v| v < touch);
            if r.chance(1, 8) {
                std::mem::swap(&mut src, &mut tgt);
            }
        }
        m.x.push(10 + r.below(2) as u8);
        m.src.push(src);
        m.tgt.push(tgt);
    }
    m
}

fn path_host(len: usize, close: bool, doubled: bool) -> M {
    let mut m = M { w: vec![0; len + 1], ..M::empty() };
    for i in 0..len {
        m.x.push(10);
        m.src.push(vec![i]);
        m.tgt.push(vec![i + 1]);
        if doubled {
            m.x.push(10);
            m.src.push(vec![i, i]);
            m.tgt.push(vec![i + 1, i + 1]);
        }
    }
    if close {
        m.x.push(10);
        m.src.push(vec![len]);
        m.tgt.push(vec![0]);
    }
    m
}

/// all sub-hypergraphs (node subset, hyperedge subset with incident nodes inside) of h, numbered monotonically
fn for_each_sub(h: &M, f: &mut dyn FnMut(In)) {
    let (n, k) = (h.w.len(), h.x.len());
    for em in 0..(1usize << k) {
        let es: Vec<usize> = (0..k).filter(|e| em >> e & 1 == 1).collect();
        let mut need = 0usize;
        for &e in &es {
            for &v in h.src[e].iter().chain(h.tgt[e].iter()) {
                need |= 1 << v;
            }
        }
        for nm in 0..(1usize << n) {
            if nm & need != need {
                continue;
            }
            let ns: Vec<usize> = (0..n).filter(|v| nm >> v & 1 == 1).collect();
            f(inclusion(h, &ns, &es));
        }
    }
}

fn corners() -> Vec<In> {
    let e = M::empty;
    let mut out = vec![];
    // identity and empty inclusion on every corner model
    let mut hosts = corner_models();
    // the triangle of the library's own tests, plus variants
    hosts.push(M { w: vec![0; 3], x: vec![10; 3], src: vec![vec![0], vec![1], vec![0]], tgt: vec![vec![1], vec![2], vec![2]], ..e() });
    hosts.push(M { w: vec![0; 3], x: vec![10; 3], src: vec![vec![0], vec![1], vec![2]], tgt: vec![vec![1], vec![2], vec![0]], ..e() });
    hosts.push(M { w: vec![0; 2], x: vec![10; 3], src: vec![vec![0]; 3], tgt: vec![vec![1]; 3], ..e() });
    hosts.push(M { w: vec![0, 0, 1], x: vec![10], src: vec![vec![0, 0]], tgt: vec![vec![1, 1]], ..e() });
    hosts.push(M { w: vec![0], x: vec![10, 10], src: vec![vec![0], vec![]], tgt: vec![vec![0], vec![]], ..e() });
    for h in &hosts {
        let (n, k) = (h.w.len(), h.x.len());
        out.push(inclusion(h, &(0..n).collect::<Vec<_>>(), &(0..k).collect::<Vec<_>>()));
        out.push(inclusion(h, &(0..n).rev().collect::<Vec<_>>(), &(0..k).rev().collect::<Vec<_>>()));
        out.push(inclusion(h, &[], &[]));
        out.push(inclusion(h, &(0..n).collect::<Vec<_>>(), &[]));
        // codiagonal h + h -> h (not injective unless h is empty)
        let id = inclusion(h, &(0..n).collect::<Vec<_>>(), &(0..k).collect::<Vec<_>>());
        out.push(copair(&id, &id));
        // mistyped copies
        let mut a = id.clone();
        a.wt += 1;
        out.push(a);
        let mut a = id.clone();
        a.xt += 1;
        out.push(a);
        let mut a = id.clone();
        a.wt += 1;
        a.xt += 1;
        out.push(a);
    }
    // two parallel hyperedges folded onto one (valid, not injective on hyperedges only)
    let h = M { w: vec![0, 1], x: vec![10], src: vec![vec![0]], tgt: vec![vec![1]], ..e() };
    let g = M { w: vec![0, 1], x: vec![10, 10], src: vec![vec![0]; 2], tgt: vec![vec![1]; 2], ..e() };
    out.push(In { g, h: h.clone(), w: vec![0, 1], wt: 2, x: vec![0, 0], xt: 1 });
    // two isolated nodes folded onto one (not injective on nodes only)
    out.push(In { g: M { w: vec![0, 0], ..e() }, h: M { w: vec![0], ..e() }, w: vec![0, 0], wt: 1, x: vec![], xt: 0 });
    // same flattened values, different segmentation
    let h2 = M { w: vec![0; 3], x: vec![10, 10], src: vec![vec![0, 1], vec![2]], tgt: vec![vec![], vec![]], ..e() };
    let g2 = M { w: vec![0; 3], x: vec![10, 10], src: vec![vec![0], vec![1, 2]], tgt: vec![vec![], vec![]], ..e() };
    out.push(In { g: g2, h: h2, w: vec![0, 1, 2], wt: 3, x: vec![0, 1], xt: 2 });
    // sources and targets exchanged
    let h3 = M { w: vec![0; 2], x: vec![10], src: vec![vec![0]], tgt: vec![vec![1]], ..e() };
    let g3 = M { w: vec![0; 2], x: vec![10], src: vec![vec![1]], tgt: vec![vec![0]], ..e() };
    out.push(In { g: g3.clone(), h: h3.clone(), w: vec![0, 1], wt: 2, x: vec![0], xt: 1 });
    out.push(In { g: g3, h: h3, w: vec![1, 0], wt: 2, x: vec![0], xt: 1 });
    // leave-and-re-enter through three outside hyperedges; image = the two end nodes / one end node
    let p = path_host(4, false, false);
    out.push(inclusion(&p, &[0, 4], &[]));
    out.push(inclusion(&p, &[4, 0], &[]));
    out.push(inclusion(&p, &[0], &[]));
    out.push(inclusion(&p, &[0, 1, 3, 4], &[0, 3]));
    out.push(inclusion(&p, &[0, 1, 2, 3, 4], &[0, 1, 3]));
    // cycle: one node / all nodes and all but one hyperedge
    let c = path_host(3, true, false);
    out.push(inclusion(&c, &[2], &[]));
    out.push(inclusion(&c, &[0, 1, 2, 3], &[0, 1, 2]));
    out.push(inclusion(&c, &[0, 1, 2, 3], &[3, 2, 1, 0]));
    out
}

pub fn run(ctx: &mut Ctx) {
    watchdog::start(&ctx.property, &ctx.tier, ctx.seed, ctx.replay.is_some());
    if let Some((name, input)) = ctx.replay.clone() {
        for (n, c) in CHECKS {
            if *n == name {
                c(ctx, &input);
            }
        }
        watchdog::leave();
        return;
    }
    let thorough = ctx.thorough();

    // (a) corner cases
    for i in corners() {
        all_checks(ctx, &i);
    }

    // (b1) exhaustive validation: all pairs of tiny labelled hypergraphs, all typed maps, plus mistyped variants
    {
        let mut tiny: Vec<M> = vec![];
        for n in 0..=2usize {
            let ls = lists(n, 1);
            for k in 0..=1usize {
                tiny.extend(hypergraphs(n, k, &ls, 2, 2));
            }
        }
        for g in &tiny {
            for h in &tiny {
                let (wt, xt) = (h.w.len(), h.x.len());
                for w in all_maps(g.w.len(), wt) {
                    for x in all_maps(g.x.len(), xt) {
                        let i = In { g: g.clone(), h: h.clone(), w: w.clone(), wt, x, xt };
                        all_checks(ctx, &i);
                    }
                }
                // mistyped: codomain one too large / map one too short / one too long
                let w0: Vec<usize> = vec![0; g.w.len()];
                let x0: Vec<usize> = vec![0; g.x.len()];
                let variants = [
                    In { g: g.clone(), h: h.clone(), w: w0.clone(), wt: wt + 1, x: x0.clone(), xt: xt.max(1) },
                    In { g: g.clone(), h: h.clone(), w: w0.clone(), wt: wt.max(1), x: x0.clone(), xt: xt + 1 },
                    In { g: g.clone(), h: h.clone(), w: w0[..g.w.len().saturating_sub(1)].to_vec(), wt: wt.max(1), x: x0.clone(), xt: xt.max(1) },
                    In { g: g.clone(), h: h.clone(), w: w0.clone(), wt: wt.max(1), x: [x0.clone(), vec![0]].concat(), xt: xt.max(1) },
                ];
                for v in variants.iter() {
                    chk_validate(ctx, &v.json());
                }
            }
        }
    }
    // two-edge hypergraphs with unary lists on <= 2 nodes, one label: all typed maps among them
    {
        let mut two: Vec<M> = vec![];
        for n in 1..=2usize {
            let ls = lists(n, 1);
            two.extend(hypergraphs(n, 2, &ls, 1, 1));
        }
        let stride = if thorough { 1 } else { 5 };
        let mut c = 0usize;
        for g in &two {
            for h in &two {
                c += 1;
                if c % stride != 0 {
                    continue;
                }
                for w in all_maps(g.w.len(), h.w.len()) {
                    for x in all_maps(2, 2) {
                        let i = In { g: g.clone(), h: h.clone(), w: w.clone(), wt: h.w.len(), x, xt: 2 };
                        all_checks(ctx, &i);
                    }
                }
            }
        }
    }

    // (b2) exhaustive convexity: every sub-hypergraph of every small host
    {
        // hosts: <=2 nodes, <=2 hyperedges, lists of length <=2; 3 nodes with <=3 unary hyperedges
        let mut hosts: Vec<M> = vec![];
        for n in 0..=2usize {
            let ls = lists(n, 2);
            for k in 0..=2usize {
                hosts.extend(hypergraphs(n, k, &ls, 1, 1));
            }
        }
        let unary3: Vec<Vec<usize>> = (0..3).map(|v| vec![v]).collect();
        for k in 0..=3usize {
            hosts.extend(hypergraphs(3, k, &unary3, 1, 1));
        }
        if thorough {
            let unary4: Vec<Vec<usize>> = (0..4).map(|v| vec![v]).collect();
            hosts.extend(hypergraphs(4, 3, &unary4, 1, 1));
            let ls3 = lists(3, 2);
            hosts.extend(hypergraphs(3, 2, &ls3, 1, 1));
        }
        for h in &hosts {
            for_each_sub(h, &mut |i| {
                let input = i.json();
                chk_convex(ctx, &input);
            });
        }
    }

    // (c) random
    let n = ctx.budget(2500, 200000);
    for it in 0..n {
        match it % 5 {
            0 => {
                // morphism by construction, then 0..2 edits
                let b = [SMALL, MEDIUM][ctx.rng.below(2)];
                let h = strip(&random_model(&mut ctx.rng, b));
                let mut i = gen_natural(&mut ctx.rng, &h);
                let edits = [0, 1, 1, 2][ctx.rng.below(4)];
                for _ in 0..edits {
                    mutate(&mut ctx.rng, &mut i);
                }
                all_checks(ctx, &i);
            }
            1 => {
                // arbitrary pair of hypergraphs and arbitrary maps (typed with probability 1/2)
                let g = strip(&random_model(&mut ctx.rng, SMALL));
                let h = strip(&random_model(&mut ctx.rng, SMALL));
                let typed = ctx.rng.chance(1, 2);
                let wt = if typed { h.w.len() } else { ctx.rng.range(0, 4) };
                let xt = if typed { h.x.len() } else { ctx.rng.range(0, 3) };
                let wl = if typed || ctx.rng.chance(1, 2) { g.w.len() } else { ctx.rng.range(0, 4) };
                let xl = if typed || ctx.rng.chance(1, 2) { g.x.len() } else { ctx.rng.range(0, 3) };
                let w = if wt == 0 { vec![] } else { ctx.rng.vec_below(wl, wt) };
                let x = if xt == 0 { vec![] } else { ctx.rng.vec_below(xl, xt) };
                all_checks(ctx, &In { g, h, w, wt, x, xt });
            }
            2 | 3 => {
                // sub-hypergraph inclusions into hosts with cycles, parallel/repeated incidences, untouched nodes
                let h = match ctx.rng.below(4) {
                    0 => strip(&random_model(&mut ctx.rng, MEDIUM)),
                    _ => gen_host(&mut ctx.rng, 7, 8),
                };
                let pe = ctx.rng.below(5);
                let pn = ctx.rng.below(5);
                let i = gen_inclusion(&mut ctx.rng, &h, pe, pn);
                if ctx.rng.chance(1, 6) {
                    // a second inclusion glued on: morphism, injective only if the images are disjoint
                    let j = gen_inclusion(&mut ctx.rng, &h, pe, pn);
                    all_checks(ctx, &copair(&i, &j));
                } else {
                    all_checks(ctx, &i);
                }
            }
            _ => {
                // long paths / cycles with random image
                let len = ctx.rng.range(2, 9);
                let h = path_host(len, ctx.rng.chance(1, 2), ctx.rng.chance(1, 4));
                let pe = ctx.rng.below(5);
                let pn = ctx.rng.below(5);
                let i = gen_inclusion(&mut ctx.rng, &h, pe, pn);
                all_checks(ctx, &i);
            }
        }
    }

    // reindexing routines: corner list + random
    {
        let fixed = [
            json!({"segs": [], "n": 0, "x": [], "xt": 0, "f": [], "ft": 0}),
            json!({"segs": [], "n": 3, "x": [], "xt": 0, "f": [0, 0, 0], "ft": 1}),
            json!({"segs": [[], [], []], "n": 0, "x": [2, 2, 0, 1], "xt": 3, "f": [], "ft": 5}),
            json!({"segs": [[0, 1], [], [2, 2, 2]], "n": 3, "x": [2, 0, 2, 1, 1], "xt": 3, "f": [1, 1, 0], "ft": 2}),
            json!({"segs": [[0, 1], [], [2, 2, 2]], "n": 3, "x": [], "xt": 3, "f": [1, 1, 0], "ft": 2}),
            json!({"segs": [[0, 1], [1]], "n": 2, "x": [0], "xt": 3, "f": [0], "ft": 1}),
            json!({"segs": [[0, 1], [1]], "n": 2, "x": [0, 0, 0, 0, 0, 0], "xt": 2, "f": [0, 0, 0], "ft": 1}),
        ];
        for f in fixed.iter() {
            chk_reindex(ctx, f);
        }
        let m = ctx.budget(800, 40000);
        for _ in 0..m {
            let r = &mut ctx.rng;
            let n = r.range(0, 4);
            let k = r.range(0, 4);
            let segs: Vec<Vec<usize>> = (0..k).map(|_| if n == 0 { vec![] } else { let l = r.range(0, 3); r.vec_below(l, n) }).collect();
            let xt = if r.chance(3, 4) { k } else { r.range(0, 5) };
            let xl = r.range(0, 5);
            let x = if xt == 0 { vec![] } else { r.vec_below(xl, xt) };
            let fl = if r.chance(3, 4) { n } else { r.range(0, 5) };
            let ft = r.range(0, 4);
            let f = if ft == 0 { vec![] } else { r.vec_below(fl, ft) };
            let ft = if f.len() != fl { 0 } else { ft };
            chk_reindex(ctx, &json!({"segs": segs, "n": n, "x": x, "xt": xt, "f": f, "ft": ft}));
        }
    }

    let rej: Vec<u64> = REJ.iter().map(|a| a.load(Ordering::Relaxed)).collect();
    watchdog::leave();
    ctx.notes.push(format!(
        "rule: input = (g, h, w:len->wt, x:len->xt) with g, h well-formed plain hypergraphs and w, x finite maps of ANY length and declared codomain. \
         validate runs on every input; mono on inputs whose maps go between the node/hyperedge sets (natural or not; the arrow is assembled from its public fields); convex on inputs the oracle accepts as morphisms. \
         exhaustive: all pairs of hypergraphs with <=2 nodes (2 labels), <=1 hyperedge (2 labels), lists of length <=1, with ALL typed maps and 4 mistyped variants per pair; two-hyperedge unary hypergraphs on <=2 nodes with all maps (quick: every 5th pair); \
         convexity of EVERY sub-hypergraph of every host with <=2 nodes/<=2 hyperedges/lists <=2 and 3 nodes/<=3 unary hyperedges (thorough: + 4 nodes/3 unary, 3 nodes/2 hyperedges with lists <=2). \
         random: morphisms built backwards from h (<=5 nodes, <=3 hyperedges, arity <=3; g up to ~10 nodes, 4 hyperedges) with 0-2 of 16 edit kinds (labels, incidence, order, arity, list boundary, src/tgt exchange, map entries, lengths, codomains, host edits); arbitrary pairs; \
         random sub-hypergraph inclusions (random numbering) and copairings of two inclusions into hosts with <=7 nodes, <=8 hyperedges (cycles, parallel and repeated incidences, untouched nodes), paths/cycles up to 10 nodes with doubled hyperedges. \
         non-trivial: validate/mono = g has a node or hyperedge or a map is non-empty; convex = h has a hyperedge with a source and a target; reindex = non-empty segments and index map. \
         outcomes: accepted {} ; rejected TypeMismatchW {} TypeMismatchX {} NotNaturalW {} NotNaturalX {} NotNaturalS {} NotNaturalT {} ; mono true {} false {} ; convex true {} , false by outside path {} , false by non-injectivity {}.",
        ACCEPTED.load(Ordering::Relaxed),
        rej[0], rej[1], rej[2], rej[3], rej[4], rej[5],
        MONO_T.load(Ordering::Relaxed),
        MONO_F.load(Ordering::Relaxed),
        CONVEX_T.load(Ordering::Relaxed),
        CONVEX_F_PATH.load(Ordering::Relaxed),
        CONVEX_F_MONO.load(Ordering::Relaxed),
    ));
}
