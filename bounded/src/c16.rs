//! C16 — evaluation computes the diagram's function and refuses cyclic diagrams.
//!
//! Test signature (edge label -> arity, coarity, meaning) over T = i64 with wrapping arithmetic:
//! see `sig` / `interp`.  It contains non-commutative gates (SUB, LT, IMPLIES, MUX), a gate with two
//! distinguishable outputs (DIVMOD), fan-out (COPY, SPLIT3), constants, DISCARD and a 0 -> 0 gate.
//!
//! Oracle (from the statement): a node's value is the input value written to it or the value of the
//! hyperedge target position writing it; hyperedges are interpreted one at a time, each as soon as
//! all writers of its source nodes are done (any such order; the pick is varied).  Values of nodes
//! that nobody writes are not fixed by the statement: they are tracked as "undefined" and every
//! output position depending on one is excluded from the comparison.
//! Cyclic  <=>  the transitive closure of `depends` has a reflexive pair.
//!
//! Checks:
//!   eval        : strict::eval::eval on (diagram, input vector, optional renumbering)
//!   eval_order  : eval::verif_hooks_local::eval_order with a caller-chosen dependency-respecting grouped order
use crate::ctx::{guard, Ctx, Rng};
use crate::model::*;
use open_hypergraphs::array::vec::*;
use open_hypergraphs::finite_function::FiniteFunction;
use open_hypergraphs::indexed_coproduct::IndexedCoproduct;
use open_hypergraphs::semifinite::SemifiniteFunction;
use open_hypergraphs::strict::eval::{eval, verif_hooks_local::eval_order};
use serde_json::{json, Value};
use std::cell::RefCell;
use std::sync::atomic::{AtomicUsize, Ordering};

/// case statistics reported in the notes: cyclic, acyclic single-writer, acyclic many-writer, with an undefined output position
static STATS: [AtomicUsize; 4] = [AtomicUsize::new(0), AtomicUsize::new(0), AtomicUsize::new(0), AtomicUsize::new(0)];

type T = i64;
type Check = fn(&mut Ctx, &Value);
const CHECKS: &[(&str, Check)] = &[("eval", chk_eval), ("eval_order", chk_eval_order)];

// ------------------------------------------------------------------------------------------------
// test signature
// ------------------------------------------------------------------------------------------------
const ADD: u8 = 0;
const SUB: u8 = 1;
const MUL: u8 = 2;
const NEG: u8 = 3;
const COPY: u8 = 4;
const DISCARD: u8 = 5;
const ONE: u8 = 6;
const SEVEN: u8 = 7;
const AND: u8 = 8;
const OR: u8 = 9;
const NOT: u8 = 10;
const XOR: u8 = 11;
const DIVMOD: u8 = 12;
const MUX: u8 = 13;
const NOP: u8 = 14;
const LT: u8 = 15;
const SPLIT3: u8 = 16;
const IMPLIES: u8 = 17;
const NLABELS: usize = 18;

fn sig(l: u8) -> Option<(usize, usize)> {
    Some(match l {
        ADD | SUB | MUL | AND | OR | XOR | LT | IMPLIES => (2, 1),
        NEG | NOT => (1, 1),
        COPY => (1, 2),
        DISCARD => (1, 0),
        ONE | SEVEN => (0, 1),
        DIVMOD => (2, 2),
        MUX => (3, 1),
        NOP => (0, 0),
        SPLIT3 => (1, 3),
        _ => return None,
    })
}

fn interp(l: u8, a: &[T]) -> Vec<T> {
    let (ar, _) = sig(l).expect("label outside the test signature");
    assert_eq!(a.len(), ar, "interpreter: operation {} applied to {} arguments", l, a.len());
    let b = |v: T| v != 0;
    match l {
        ADD => vec![a[0].wrapping_add(a[1])],
        SUB => vec![a[0].wrapping_sub(a[1])],
        MUL => vec![a[0].wrapping_mul(a[1])],
        NEG => vec![a[0].wrapping_neg()],
        COPY => vec![a[0], a[0]],
        DISCARD => vec![],
        ONE => vec![1],
        SEVEN => vec![7],
        AND => vec![(b(a[0]) && b(a[1])) as T],
        OR => vec![(b(a[0]) || b(a[1])) as T],
        NOT => vec![(!b(a[0])) as T],
        XOR => vec![(b(a[0]) != b(a[1])) as T],
        DIVMOD => {
            if a[1] == 0 {
                vec![0, a[0]]
            } else {
                vec![a[0].wrapping_div(a[1]), a[0].wrapping_rem(a[1])]
            }
        }
        MUX => vec![if b(a[0]) { a[1] } else { a[2] }],
        NOP => vec![],
        LT => vec![(a[0] < a[1]) as T],
        SPLIT3 => vec![a[0], a[0].wrapping_add(1), a[0].wrapping_mul(2)],
        IMPLIES => vec![(!b(a[0]) || b(a[1])) as T],
        _ => unreachable!(),
    }
}

fn conforms(m: &M) -> bool {
    (0..m.x.len()).all(|e| sig(m.x[e]) == Some((m.src[e].len(), m.tgt[e].len())))
}

// ------------------------------------------------------------------------------------------------
// oracle
// ------------------------------------------------------------------------------------------------
fn dep_matrix(m: &M) -> Vec<Vec<bool>> {
    let k = m.x.len();
    let mut d = vec![vec![false; k]; k];
    for x in 0..k {
        for y in 0..k {
            d[x][y] = m.tgt[x].iter().any(|a| m.src[y].contains(a));
        }
    }
    d
}

fn cyclic(d: &Vec<Vec<bool>>) -> bool {
    let k = d.len();
    let mut r = d.clone();
    for via in 0..k {
        for a in 0..k {
            if r[a][via] {
                for b in 0..k {
                    if r[via][b] {
                        r[a][b] = true;
                    }
                }
            }
        }
    }
    (0..k).any(|x| r[x][x])
}

/// every node is written at most once, by one hyperedge target position or one input position
fn single_writer(m: &M) -> bool {
    let mut c = vec![0usize; m.w.len()];
    for &v in m.tgt.iter().flatten().chain(m.s.iter()) {
        c[v] += 1;
    }
    c.iter().all(|&q| q <= 1)
}

/// node values by the definition; `pick` varies which ready hyperedge is interpreted next.
/// None = undefined (node never written, or computed from an undefined value).  Requires acyclic + single writer.
fn oracle_nodes(m: &M, inputs: &[T], pick: usize) -> Vec<Option<T>> {
    let (n, k) = (m.w.len(), m.x.len());
    let mut val: Vec<Option<T>> = vec![None; n];
    for (i, &v) in m.s.iter().enumerate() {
        val[v] = Some(inputs[i]);
    }
    let mut done = vec![false; k];
    let mut step = 0usize;
    loop {
        let ready: Vec<usize> = (0..k)
            .filter(|&e| !done[e] && m.src[e].iter().all(|v| (0..k).all(|f| done[f] || !m.tgt[f].contains(v))))
            .collect();
        if ready.is_empty() {
            break;
        }
        let e = match pick % 3 {
            0 => ready[0],
            1 => ready[ready.len() - 1],
            _ => ready[(pick / 3 + step * 7) % ready.len()],
        };
        step += 1;
        let args: Option<Vec<T>> = m.src[e].iter().map(|&v| val[v]).collect();
        match args {
            Some(a) => {
                let out = interp(m.x[e], &a);
                for (j, &v) in m.tgt[e].iter().enumerate() {
                    val[v] = Some(out[j]);
                }
            }
            None => {
                for &v in &m.tgt[e] {
                    val[v] = None;
                }
            }
        }
        done[e] = true;
    }
    assert!(done.iter().all(|&b| b), "oracle called on a cyclic diagram");
    val
}

fn show(v: &[Option<T>]) -> Value {
    json!(v.iter().map(|x| match x {
        Some(q) => json!(q),
        None => json!("undefined"),
    })
    .collect::<Vec<_>>())
}

fn agrees(got: &[T], exp: &[Option<T>]) -> bool {
    got.len() == exp.len() && got.iter().zip(exp.iter()).all(|(g, e)| e.map(|q| q == *g).unwrap_or(true))
}

// ------------------------------------------------------------------------------------------------
// library calls
// ------------------------------------------------------------------------------------------------
type SFT = SemifiniteFunction<VecKind, T>;
type ICT = IndexedCoproduct<VecKind, SFT>;

fn apply_counting(calls: &RefCell<Vec<usize>>, ops: SemifiniteFunction<VecKind, u8>, args: ICT) -> ICT {
    let args: Vec<SFT> = args.into_iter().collect();
    assert_eq!(ops.0.len(), args.len(), "interpreter: {} operations but {} argument lists", ops.0.len(), args.len());
    let mut sizes = vec![];
    let mut flat = vec![];
    for (op, a) in ops.0.iter().zip(args.iter()) {
        calls.borrow_mut()[*op as usize] += 1;
        let out = interp(*op, &a.0);
        sizes.push(out.len());
        flat.extend(out);
    }
    IndexedCoproduct::from_semifinite(SemifiniteFunction(VecArray(sizes)), SemifiniteFunction(VecArray(flat))).expect("interpreter output")
}

/// (result or panic message, number of interpretations per label)
fn run_eval(m: &M, inputs: &[T]) -> (Result<Option<Vec<T>>, String>, Vec<usize>) {
    let f = m.to_strict();
    let calls = RefCell::new(vec![0usize; NLABELS]);
    let r = guard(|| eval::<VecKind, u8, u8, T>(&f, VecArray(inputs.to_vec()), |o, a| apply_counting(&calls, o, a)).map(|v| v.0));
    (r, calls.into_inner())
}

fn label_counts(m: &M) -> Vec<usize> {
    let mut c = vec![0usize; NLABELS];
    for &l in &m.x {
        c[l as usize] += 1;
    }
    c
}

fn res_json(r: &Result<Option<Vec<T>>, String>) -> Value {
    match r {
        Err(p) => json!(format!("panic: {}", p)),
        Ok(None) => json!("None"),
        Ok(Some(v)) => json!({ "Some": v }),
    }
}

// ------------------------------------------------------------------------------------------------
// json helpers
// ------------------------------------------------------------------------------------------------
fn ints(v: &Value) -> Option<Vec<T>> {
    v.as_array()?.iter().map(|x| x.as_i64()).collect()
}
fn usizes(v: &Value) -> Option<Vec<usize>> {
    v.as_array()?.iter().map(|x| x.as_u64().map(|y| y as usize)).collect()
}
fn is_perm(p: &[usize], n: usize) -> bool {
    let mut seen = vec![false; n];
    p.len() == n && p.iter().all(|&v| v < n && !std::mem::replace(&mut seen[v], true))
}

fn renumber(m: &M, pn: &[usize], pe: &[usize]) -> M {
    let (n, k) = (m.w.len(), m.x.len());
    let mut w = vec![0u8; n];
    for v in 0..n {
        w[pn[v]] = m.w[v];
    }
    let mut x = vec![0u8; k];
    let mut src = vec![vec![]; k];
    let mut tgt = vec![vec![]; k];
    let mp = |l: &Vec<usize>| l.iter().map(|&v| pn[v]).collect::<Vec<_>>();
    for e in 0..k {
        x[pe[e]] = m.x[e];
        src[pe[e]] = mp(&m.src[e]);
        tgt[pe[e]] = mp(&m.tgt[e]);
    }
    M { w, x, src, tgt, s: mp(&m.s), t: mp(&m.t) }
}

// ------------------------------------------------------------------------------------------------
// checks
// ------------------------------------------------------------------------------------------------
/// input: {"m": model (edge labels from the test signature), "inputs": [i64; |s|], "pn": node permutation | null, "pe": edge permutation | null}
fn chk_eval(ctx: &mut Ctx, input: &Value) {
    let m = match M::from_json(&input["m"]) {
        Some(m) if m.valid() && conforms(&m) => m,
        _ => return,
    };
    let inputs = match ints(&input["inputs"]) {
        Some(i) if i.len() == m.s.len() => i,
        _ => return,
    };
    let perm = match (usizes(&input["pn"]), usizes(&input["pe"])) {
        (Some(pn), Some(pe)) if is_perm(&pn, m.w.len()) && is_perm(&pe, m.x.len()) => Some((pn, pe)),
        _ => None,
    };
    let d = dep_matrix(&m);
    let cyc = cyclic(&d);
    let sw = single_writer(&m);
    ctx.case("eval", input, m.x.len() >= 2 && d.iter().flatten().any(|&b| b));

    STATS[if cyc { 0 } else if sw { 1 } else { 2 }].fetch_add(1, Ordering::Relaxed);
    let (r, calls) = run_eval(&m, &inputs);
    let mut expected: Option<Vec<Option<T>>> = None;
    if cyc {
        if r != Ok(None) {
            ctx.fail("eval", "C16.refuses-cyclic", input, res_json(&r), json!("None (dependency cycle)"));
        }
    } else {
        match &r {
            Err(_) => ctx.fail("eval", "C16.returns-result-when-acyclic", input, res_json(&r), json!("Some(values)")),
            Ok(None) => ctx.fail("eval", "C16.returns-result-when-acyclic", input, res_json(&r), json!("Some(values): no dependency cycle")),
            Ok(Some(out)) => {
                if out.len() != m.t.len() {
                    ctx.fail("eval", "C16.output-arity", input, res_json(&r), json!(m.t.len()));
                } else if sw {
                    let nodes = oracle_nodes(&m, &inputs, 0);
                    let exp: Vec<Option<T>> = m.t.iter().map(|&v| nodes[v]).collect();
                    if exp.iter().any(|e| e.is_none()) {
                        STATS[3].fetch_add(1, Ordering::Relaxed);
                    }
                    if !agrees(out, &exp) {
                        ctx.fail("eval", "C16.values", input, res_json(&r), show(&exp));
                    }
                    if calls != label_counts(&m) {
                        ctx.fail("eval", "C16.each-hyperedge-interpreted-once", input, json!({"interpretations_per_label": calls}), json!({"edges_per_label": label_counts(&m)}));
                    }
                    expected = Some(exp);
                }
            }
        }
    }
    // the same diagram under another numbering of nodes and hyperedges
    if let Some((pn, pe)) = perm {
        let m2 = renumber(&m, &pn, &pe);
        let (r2, _) = run_eval(&m2, &inputs);
        if cyc {
            if r2 != Ok(None) {
                ctx.fail("eval", "C16.refuses-cyclic", input, json!({"renumbered": res_json(&r2)}), json!("None (dependency cycle)"));
            }
        } else {
            match (&r2, &expected) {
                (Ok(Some(out2)), Some(exp)) => {
                    // oracle self-check: another interpretation order on the renumbered diagram gives the same function
                    let nodes2 = oracle_nodes(&m2, &inputs, 1 + pn.len() + 3 * pe.iter().sum::<usize>());
                    let exp2: Vec<Option<T>> = m2.t.iter().map(|&v| nodes2[v]).collect();
                    if &exp2 != exp {
                        ctx.fail("eval", "C16.ORACLE-SELF-CHECK", input, show(&exp2), show(exp));
                    }
                    if !agrees(out2, exp) {
                        ctx.fail("eval", "C16.numbering-invariant", input, json!({"original": res_json(&r), "renumbered": res_json(&r2)}), show(exp));
                    }
                }
                (Ok(Some(out2)), None) => {
                    if out2.len() != m.t.len() {
                        ctx.fail("eval", "C16.output-arity", input, json!({"renumbered": res_json(&r2)}), json!(m.t.len()));
                    }
                }
                _ => ctx.fail("eval", "C16.returns-result-when-acyclic", input, json!({"renumbered": res_json(&r2)}), json!("Some(values)")),
            }
        }
    }
}

/// input: {"m": model, "inputs": [...], "order": [[edge, ...], ...]} — a grouped order chosen by the caller
fn chk_eval_order(ctx: &mut Ctx, input: &Value) {
    let m = match M::from_json(&input["m"]) {
        Some(m) if m.valid() && conforms(&m) => m,
        _ => return,
    };
    let inputs = match ints(&input["inputs"]) {
        Some(i) if i.len() == m.s.len() => i,
        _ => return,
    };
    let order: Vec<Vec<usize>> = match input["order"].as_array().and_then(|a| a.iter().map(usizes).collect::<Option<Vec<_>>>()) {
        Some(o) => o,
        None => return,
    };
    let k = m.x.len();
    let d = dep_matrix(&m);
    if cyclic(&d) || !single_writer(&m) {
        return;
    }
    // the order must list every hyperedge once and respect dependencies (group index strictly increases along a dependency)
    let mut grp = vec![usize::MAX; k];
    for (g, l) in order.iter().enumerate() {
        for &e in l {
            if e >= k || grp[e] != usize::MAX {
                return;
            }
            grp[e] = g;
        }
    }
    if grp.iter().any(|&g| g == usize::MAX) {
        return;
    }
    for x in 0..k {
        for y in 0..k {
            if d[x][y] && grp[x] >= grp[y] {
                return;
            }
        }
    }
    ctx.case("eval_order", input, k >= 2 && d.iter().flatten().any(|&b| b));
    let f = m.to_strict();
    let calls = RefCell::new(vec![0usize; NLABELS]);
    let ord: Vec<FiniteFunction<VecKind>> = order.iter().map(|l| FiniteFunction::new(VecArray(l.clone()), k).unwrap()).collect();
    let r = guard(|| eval_order::<VecKind, u8, u8, T>(&f, VecArray(inputs.clone()), ord, |o, a| apply_counting(&calls, o, a)));
    let nodes = oracle_nodes(&m, &inputs, 2 + k);
    let exp: Vec<Option<T>> = m.t.iter().map(|&v| nodes[v]).collect();
    match r {
        Err(p) => ctx.fail("eval_order", "C16.order.returns", input, json!(format!("panic: {}", p)), show(&exp)),
        Ok((mem, out)) => {
            if !agrees(&out.0, &exp) {
                ctx.fail("eval_order", "C16.order.values", input, json!(out.0), show(&exp));
            }
            if !agrees(&mem.0, &nodes) {
                ctx.fail("eval_order", "C16.order.node-values", input, json!(mem.0), show(&nodes));
            }
            if calls.into_inner() != label_counts(&m) {
                ctx.fail("eval_order", "C16.each-hyperedge-interpreted-once", input, json!("interpretation counts differ"), json!({"edges_per_label": label_counts(&m)}));
            }
        }
    }
}

// ------------------------------------------------------------------------------------------------
// generators
// ------------------------------------------------------------------------------------------------
fn shuffle(r: &mut Rng, n: usize) -> Vec<usize> {
    let mut p: Vec<usize> = (0..n).collect();
    for i in (1..n).rev() {
        let j = r.below(i + 1);
        p.swap(i, j);
    }
    p
}

fn rand_value(r: &mut Rng) -> T {
    match r.below(10) {
        0 => 0,
        1 => 1,
        2 => -1,
        3 => (r.below(2000) as T) - 1000,
        4 => i64::MAX - r.below(3) as T,
        5 => i64::MIN + r.below(3) as T,
        _ => (r.below(19) as T) - 9,
    }
}

fn rand_inputs(r: &mut Rng, n: usize) -> Vec<T> {
    (0..n).map(|_| rand_value(r)).collect()
}

/// incremental circuit builder: every node written at most once, acyclic by construction
struct B {
    m: M,
}
impl B {
    fn new(ninputs: usize) -> B {
        B { m: M { w: vec![0; ninputs], x: vec![], src: vec![], tgt: vec![], s: (0..ninputs).collect(), t: vec![] } }
    }
    fn node(&mut self) -> usize {
        self.m.w.push((self.m.w.len() % 2) as u8);
        self.m.w.len() - 1
    }
    /// add an operation reading `src`; returns its fresh target nodes
    fn op(&mut self, l: u8, src: &[usize]) -> Vec<usize> {
        let (a, c) = sig(l).unwrap();
        assert_eq!(a, src.len());
        let t: Vec<usize> = (0..c).map(|_| self.node()).collect();
        self.m.x.push(l);
        self.m.src.push(src.to_vec());
        self.m.tgt.push(t.clone());
        t
    }
}

const WEIGHTED: &[u8] = &[
    ADD, SUB, SUB, MUL, NEG, NEG, COPY, COPY, DISCARD, ONE, SEVEN, AND, OR, NOT, XOR, DIVMOD, DIVMOD, MUX, NOP, LT, SPLIT3, IMPLIES, SUB, NEG,
];

/// random single-writer acyclic circuit (built in dependency order; the caller scrambles the numbering)
fn random_circuit(r: &mut Rng, max_inputs: usize, max_ops: usize) -> M {
    let ni = r.range(0, max_inputs);
    let k = r.range(0, max_ops);
    let mut b = B::new(ni);
    let mode = r.below(4); // 0 uniform, 1 recent (deep), 2 early (wide, shared), 3 mixed
    if r.chance(1, 6) {
        b.node(); // a node nobody writes
    }
    for _ in 0..k {
        let n = b.m.w.len();
        let mut l = WEIGHTED[r.below(WEIGHTED.len())];
        if n == 0 && sig(l).unwrap().0 > 0 {
            l = if r.chance(1, 2) { SEVEN } else { ONE };
        }
        let (a, _) = sig(l).unwrap();
        let mut src = vec![];
        for j in 0..a {
            let v = if j > 0 && r.chance(1, 6) {
                src[0] // same node twice
            } else {
                match if mode == 3 { r.below(3) } else { mode } {
                    1 => n - 1 - r.below(n.min(3)),
                    2 => r.below(n.min(4)),
                    _ => r.below(n),
                }
            };
            src.push(v);
        }
        b.op(l, &src);
    }
    let n = b.m.w.len();
    if n > 0 {
        let lt = r.range(0, 5);
        b.m.t = (0..lt).map(|_| if r.chance(1, 2) { n - 1 - r.below(n.min(4)) } else { r.below(n) }).collect();
        if r.chance(1, 4) {
            b.m.t = (0..n).collect();
        }
    }
    b.m
}

/// rewire one source position to a target of the same or another operation until the diagram is cyclic
fn make_cyclic(r: &mut Rng, m: &M) -> Option<M> {
    let k = m.x.len();
    let readers: Vec<usize> = (0..k).filter(|&e| !m.src[e].is_empty()).collect();
    let writers: Vec<usize> = (0..k).filter(|&e| !m.tgt[e].is_empty()).collect();
    if readers.is_empty() || writers.is_empty() {
        return None;
    }
    for _ in 0..30 {
        let mut c = m.clone();
        let e = readers[r.below(readers.len())];
        let f = writers[r.below(writers.len())];
        let j = r.below(c.src[e].len());
        c.src[e][j] = c.tgt[f][r.below(c.tgt[f].len())];
        if cyclic(&dep_matrix(&c)) {
            return Some(c);
        }
    }
    None
}

/// add a disjoint 2-cycle (NEG <-> NOT) or a self-dependent gate that feeds nothing
fn add_detached_cycle(r: &mut Rng, m: &M) -> M {
    let mut c = m.clone();
    let a = c.w.len();
    if r.chance(1, 2) {
        c.w.extend([0, 0]);
        c.x.extend([NEG, NOT]);
        c.src.extend([vec![a], vec![a + 1]]);
        c.tgt.extend([vec![a + 1], vec![a]]);
    } else {
        c.w.push(0);
        c.x.push(NEG);
        c.src.push(vec![a]);
        c.tgt.push(vec![a]);
    }
    c
}

/// arbitrary signature-conforming diagram: nodes may be written many times, cycles likely
fn random_conforming(r: &mut Rng, max_nodes: usize, max_ops: usize) -> M {
    let n = r.range(1, max_nodes);
    let k = r.range(0, max_ops);
    let mut m = M { w: vec![0; n], x: vec![], src: vec![], tgt: vec![], s: vec![], t: vec![] };
    for _ in 0..k {
        let l = WEIGHTED[r.below(WEIGHTED.len())];
        let (a, c) = sig(l).unwrap();
        m.x.push(l);
        m.src.push(r.vec_below(a, n));
        m.tgt.push(r.vec_below(c, n));
    }
    let (ls, lt) = (r.below(4), r.below(4));
    m.s = r.vec_below(ls, n);
    m.t = r.vec_below(lt, n);
    m
}

fn case(ctx: &mut Ctx, m: &M, inputs: &[T], perm: Option<(Vec<usize>, Vec<usize>)>) {
    let v = match perm {
        Some((pn, pe)) => json!({"m": m.json(), "inputs": inputs, "pn": pn, "pe": pe}),
        None => json!({"m": m.json(), "inputs": inputs, "pn": Value::Null, "pe": Value::Null}),
    };
    chk_eval(ctx, &v);
}

/// run a diagram: scrambled base numbering, a second renumbering, `nvec` input vectors
fn case_scrambled(ctx: &mut Ctx, m: &M, nvec: usize) {
    let (pn0, pe0) = (shuffle(&mut ctx.rng, m.w.len()), shuffle(&mut ctx.rng, m.x.len()));
    let base = renumber(m, &pn0, &pe0);
    for _ in 0..nvec {
        let inputs = rand_inputs(&mut ctx.rng, m.s.len());
        let perm = (shuffle(&mut ctx.rng, m.w.len()), shuffle(&mut ctx.rng, m.x.len()));
        case(ctx, &base, &inputs, Some(perm));
    }
}

/// eval_order with (a) singleton groups in a random dependency-respecting order, (b) groups by longest-chain depth
fn case_orders(ctx: &mut Ctx, m: &M) {
    let k = m.x.len();
    let d = dep_matrix(m);
    if cyclic(&d) || !single_writer(m) {
        return;
    }
    let inputs = rand_inputs(&mut ctx.rng, m.s.len());
    // (a) random linear extension, each hyperedge its own group, with a few empty groups thrown in
    let mut done = vec![false; k];
    let mut order: Vec<Vec<usize>> = vec![];
    for _ in 0..k {
        let ready: Vec<usize> = (0..k).filter(|&e| !done[e] && (0..k).all(|f| done[f] || !d[f][e])).collect();
        let e = ready[ctx.rng.below(ready.len())];
        done[e] = true;
        order.push(vec![e]);
        if ctx.rng.chance(1, 5) {
            order.push(vec![]);
        }
    }
    chk_eval_order(ctx, &json!({"m": m.json(), "inputs": inputs, "order": order}));
    // (b) grouped by depth, group members in reverse numbering
    let mut depth = vec![0usize; k];
    for _ in 0..=k {
        for x in 0..k {
            for y in 0..k {
                if d[x][y] && depth[y] < depth[x] + 1 {
                    depth[y] = depth[x] + 1;
                }
            }
        }
    }
    let nl = depth.iter().max().map(|&q| q + 1).unwrap_or(0);
    let groups: Vec<Vec<usize>> = (0..nl).map(|l| (0..k).rev().filter(|&e| depth[e] == l).collect()).collect();
    chk_eval_order(ctx, &json!({"m": m.json(), "inputs": inputs, "order": groups}));
}

fn corner_circuits() -> Vec<M> {
    let mut out = vec![];
    // no nodes at all; wiring only (permuted, duplicated, dropped inputs)
    out.push(M::empty());
    out.push(M { w: vec![0, 0, 0], x: vec![], src: vec![], tgt: vec![], s: vec![0, 1, 2], t: vec![2, 0, 0, 1] });
    out.push(M { w: vec![0, 0, 0], x: vec![], src: vec![], tgt: vec![], s: vec![2, 0], t: vec![0, 2, 2] });
    // x^2, 1+1
    {
        let mut b = B::new(1);
        let c = b.op(COPY, &[0]);
        let p = b.op(MUL, &[c[0], c[1]]);
        b.m.t = p;
        out.push(b.m);
        let mut b = B::new(0);
        let a = b.op(ONE, &[]);
        let c = b.op(ONE, &[]);
        let p = b.op(ADD, &[a[0], c[0]]);
        b.m.t = p;
        out.push(b.m);
    }
    // inputs of one gate arriving from different depths: x - NEG^d(y) (both argument positions)
    for dpt in [1usize, 2, 3, 8, 33, 64] {
        for flip in [false, true] {
            let mut b = B::new(2);
            let mut cur = 1;
            for i in 0..dpt {
                cur = b.op(if i % 3 == 2 { NOT } else { NEG }, &[cur])[0];
            }
            // the shallow argument is an input (flip) or a depth-1 gate (both producers are gates at different depths)
            let sh = if flip { 0 } else { b.op(NEG, &[0])[0] };
            let o = if flip { b.op(SUB, &[cur, sh]) } else { b.op(SUB, &[sh, cur]) };
            let o2 = b.op(LT, &[1, o[0]]);
            b.m.t = vec![o[0], o2[0], cur, 0];
            out.push(b.m);
        }
    }
    // fan-out through one shared node: read by five gates, twice by one of them, and output three times
    {
        let mut b = B::new(2);
        let a = b.op(NEG, &[0]);
        let c = b.op(SUB, &[0, 1]);
        let e = b.op(SUB, &[1, 0]);
        let f = b.op(MUL, &[0, 0]);
        let g = b.op(MUX, &[0, a[0], c[0]]);
        b.op(DISCARD, &[0]);
        b.m.t = vec![0, g[0], 0, f[0], e[0], 0, c[0]];
        out.push(b.m);
    }
    // two distinguishable outputs consumed crosswise
    {
        let mut b = B::new(2);
        let qr = b.op(DIVMOD, &[0, 1]);
        let z = b.op(SUB, &[qr[1], qr[0]]);
        let s3 = b.op(SPLIT3, &[z[0]]);
        let y = b.op(DIVMOD, &[s3[2], s3[1]]);
        b.m.t = vec![y[1], y[0], s3[0], qr[0], qr[1]];
        out.push(b.m);
    }
    // zero-arity / zero-coarity gates mixed with a chain; gate whose result nobody reads
    {
        let mut b = B::new(1);
        b.op(NOP, &[]);
        let c = b.op(SEVEN, &[]);
        b.op(NOP, &[]);
        let a = b.op(SUB, &[c[0], 0]);
        b.op(DISCARD, &[a[0]]);
        b.op(NEG, &[a[0]]);
        let n = b.op(NOT, &[a[0]]);
        b.m.t = vec![n[0], a[0], c[0]];
        out.push(b.m);
        out.push(M { w: vec![], x: vec![NOP, NOP, NOP], src: vec![vec![]; 3], tgt: vec![vec![]; 3], s: vec![], t: vec![] });
    }
    // wide layer: 40 independent gates, then a reduction tree with SUB (order-sensitive)
    {
        let mut b = B::new(40);
        let mut cur: Vec<usize> = (0..40).map(|i| b.op(if i % 2 == 0 { NEG } else { NOT }, &[i])[0]).collect();
        while cur.len() > 1 {
            let mut nxt = vec![];
            for p in cur.chunks(2) {
                if p.len() == 2 {
                    nxt.push(b.op(SUB, &[p[0], p[1]])[0]);
                } else {
                    nxt.push(p[0]);
                }
            }
            cur = nxt;
        }
        b.m.t = cur;
        out.push(b.m);
    }
    // input node that nobody reads, output straight from an input, node nobody writes feeding one output only
    {
        let mut b = B::new(3);
        let u = b.node();
        let a = b.op(ADD, &[0, 2]);
        let bad = b.op(SUB, &[a[0], u]);
        b.m.t = vec![1, a[0], bad[0], u, 2];
        out.push(b.m);
    }
    out
}

fn corner_cyclic() -> Vec<M> {
    let mut out = vec![];
    // self-dependent gate on the path to the output
    out.push(M { w: vec![0, 0], x: vec![ADD], src: vec![vec![0, 1]], tgt: vec![vec![1]], s: vec![0], t: vec![1] });
    // self-dependent gate, output does not depend on it
    out.push(M { w: vec![0, 0], x: vec![NEG], src: vec![vec![1]], tgt: vec![vec![1]], s: vec![0], t: vec![0] });
    // 2-cycle, 3-cycle
    out.push(M { w: vec![0, 0], x: vec![NEG, NOT], src: vec![vec![0], vec![1]], tgt: vec![vec![1], vec![0]], s: vec![], t: vec![1] });
    out.push(M { w: vec![0, 0, 0], x: vec![NEG, NOT, NEG], src: vec![vec![0], vec![1], vec![2]], tgt: vec![vec![1], vec![2], vec![0]], s: vec![], t: vec![] });
    // head -> cycle -> tail -> output
    out.push(M {
        w: vec![0; 6],
        x: vec![NEG, ADD, COPY, NOT],
        src: vec![vec![0], vec![1, 3], vec![2], vec![4]],
        tgt: vec![vec![1], vec![2], vec![3, 4], vec![5]],
        s: vec![0],
        t: vec![5],
    });
    // acyclic circuit computing the outputs, cycle only feeding a DISCARD
    out.push(M {
        w: vec![0; 5],
        x: vec![NEG, SUB, NEG, DISCARD],
        src: vec![vec![0], vec![1, 0], vec![3], vec![3]],
        tgt: vec![vec![1], vec![2], vec![3], vec![]],
        s: vec![0],
        t: vec![2],
    });
    // cycle through a node that is also an input (written three times) and with repeated nodes
    out.push(M { w: vec![0, 0], x: vec![ADD, COPY], src: vec![vec![0, 0], vec![1]], tgt: vec![vec![1], vec![0, 0]], s: vec![0], t: vec![1] });
    // 40-chain with a back reference in the middle
    {
        let k = 40;
        let mut m = M { w: vec![0; k + 1], x: vec![NEG; k], src: (0..k).map(|i| vec![i]).collect(), tgt: (0..k).map(|i| vec![i + 1]).collect(), s: vec![0], t: vec![k] };
        m.x[20] = ADD;
        m.src[20] = vec![20, 30];
        out.push(m);
    }
    out
}

fn all_perms(n: usize) -> Vec<Vec<usize>> {
    fn rec(cur: &mut Vec<usize>, used: &mut Vec<bool>, n: usize, out: &mut Vec<Vec<usize>>) {
        if cur.len() == n {
            out.push(cur.clone());
            return;
        }
        for v in 0..n {
            if !used[v] {
                used[v] = true;
                cur.push(v);
                rec(cur, used, n, out);
                cur.pop();
                used[v] = false;
            }
        }
    }
    let mut out = vec![];
    rec(&mut vec![], &mut vec![false; n], n, &mut out);
    out
}

pub fn run(ctx: &mut Ctx) {
    if let Some((name, input)) = ctx.replay.clone() {
        for (n, c) in CHECKS {
            if *n == name {
                c(ctx, &input);
            }
        }
        return;
    }
    // (a) corners: as written, scrambled + renumbered with several input vectors, and under caller-chosen orders
    for m in corner_circuits() {
        let inputs: Vec<T> = (0..m.s.len()).map(|i| [5, 3, -4, 11, 2][i % 5] + (i / 5) as T).collect();
        case(ctx, &m, &inputs, None);
        case_scrambled(ctx, &m, 4);
        case_orders(ctx, &m);
        // the same circuit with a dependency cycle that the outputs do not depend on
        let c = add_detached_cycle(&mut ctx.rng, &m);
        case_scrambled(ctx, &c, 1);
    }
    for m in corner_cyclic() {
        let inputs: Vec<T> = (0..m.s.len()).map(|i| 3 + i as T).collect();
        case(ctx, &m, &inputs, None);
        case_scrambled(ctx, &m, 2);
    }
    // all numberings of one small diagram with inputs from different depths, a shared node and a two-output gate
    {
        let mut b = B::new(1);
        let c = b.op(SEVEN, &[]);
        let q = b.op(DIVMOD, &[c[0], 0]);
        let z = b.op(SUB, &[0, q[1]]);
        b.m.t = vec![z[0], q[0], 0];
        let m = b.m; // 5 nodes, 3 edges
        let pes = all_perms(m.x.len());
        let pns = all_perms(m.w.len());
        let stride = if ctx.thorough() { 1 } else { 7 };
        let mut i = 0;
        for pe in &pes {
            for pn in &pns {
                i += 1;
                if i % stride == 0 {
                    case(ctx, &m, &[3], Some((pn.clone(), pe.clone())));
                }
            }
        }
    }

    // (b) exhaustive: k gates from {SUB, NEG, COPY, SEVEN, DISCARD}, ni inputs, one fresh node per target position,
    //     every assignment of source positions to nodes (own targets included: all cycles of this size), outputs = all nodes
    let gates = [SUB, NEG, COPY, SEVEN, DISCARD];
    let kmax = if ctx.thorough() { 3 } else { 2 };
    for k in 1..=kmax {
        let ncombo = gates.len().pow(k as u32);
        for combo in 0..ncombo {
            let labels: Vec<u8> = (0..k).map(|i| gates[(combo / gates.len().pow(i as u32)) % gates.len()]).collect();
            for ni in 0..=2usize {
                if k == 3 && ni == 0 {
                    continue;
                }
                let mut b = B::new(ni);
                let mut pos = vec![];
                for (e, &l) in labels.iter().enumerate() {
                    let (a, _) = sig(l).unwrap();
                    b.op(l, &vec![0; a]);
                    for j in 0..a {
                        pos.push((e, j));
                    }
                }
                let n = b.m.w.len();
                if n == 0 && !pos.is_empty() {
                    continue;
                }
                b.m.t = (0..n).collect();
                let total = n.max(1).pow(pos.len() as u32);
                // k = 3: sample one assignment in 5 to stay inside the budget
                let stride = if k == 3 { 5 } else { 1 };
                let mut code = if k == 3 { ctx.rng.below(stride) } else { 0 };
                while code < total {
                    let mut m = b.m.clone();
                    let mut q = code;
                    for &(e, j) in &pos {
                        m.src[e][j] = q % n;
                        q /= n;
                    }
                    let inputs: Vec<T> = [5, 3][..ni].to_vec();
                    let perm = (shuffle(&mut ctx.rng, n), shuffle(&mut ctx.rng, k));
                    case(ctx, &m, &inputs, Some(perm));
                    code += stride;
                }
            }
        }
    }

    // (c) random
    let nr = ctx.budget(30000, 900000);
    for i in 0..nr {
        let m = if i % 5 == 0 { random_circuit(&mut ctx.rng, 4, 14) } else { random_circuit(&mut ctx.rng, 3, 6) };
        match i % 6 {
            0 | 1 | 2 => case_scrambled(ctx, &m, 2),
            3 => {
                // cyclic by rewiring (still single writer)
                if let Some(c) = make_cyclic(&mut ctx.rng, &m) {
                    case_scrambled(ctx, &c, 1);
                } else {
                    case_scrambled(ctx, &m, 1);
                }
            }
            4 => {
                let c = add_detached_cycle(&mut ctx.rng, &m);
                case_scrambled(ctx, &c, 1);
                case_orders(ctx, &m);
            }
            _ => {
                let (pn, pe) = (shuffle(&mut ctx.rng, m.w.len()), shuffle(&mut ctx.rng, m.x.len()));
                case_orders(ctx, &renumber(&m, &pn, &pe));
            }
        }
    }
    // arbitrary conforming diagrams (many writers per node allowed): result iff acyclic
    let nc = ctx.budget(10000, 300000);
    for i in 0..nc {
        let m = if i % 3 == 0 { random_conforming(&mut ctx.rng, 8, 6) } else { random_conforming(&mut ctx.rng, 4, 3) };
        case_scrambled(ctx, &m, 1);
    }
    let st: Vec<usize> = STATS.iter().map(|a| a.load(Ordering::Relaxed)).collect();
    ctx.notes.push(format!(
        "eval cases: {} cyclic (refusal clause), {} acyclic single-writer (value clauses; {} of them with an output position depending on a never-written node, excluded position-wise), {} acyclic many-writer (result-iff-acyclic only)",
        st[0], st[1], st[3], st[2]
    ));
    ctx.notes.push(
        "rule: test signature of 18 gates over i64 (wrapping): ADD SUB MUL NEG COPY DISCARD ONE SEVEN AND OR NOT XOR DIVMOD(2->2) MUX(3->1) NOP(0->0) LT SPLIT3(1->3) IMPLIES. \
         (1) corner circuits (wiring only, x^2, 1+1, x - NEG^d(y) for d up to 64 in both argument positions, one node read by five gates and output three times, crosswise use of DIVMOD outputs, zero-arity/zero-coarity gates, 40-wide layer + SUB reduction tree, unread input / unwritten node) as written, under 4 scrambled numberings x input vectors, under caller-chosen orders (eval_order), and with a detached cycle added; \
         corner cyclic diagrams (self-dependence on/off the output cone, 2- and 3-cycles, head->cycle->tail, cycle feeding only DISCARD, 40-chain with a back reference); all 720 numberings (thorough; every 7th in quick) of one 3-gate diagram; \
         (2) exhaustive: k<=2 gates (thorough: k=3, every 5th assignment) from {SUB,NEG,COPY,SEVEN,DISCARD}, 0..2 inputs, every assignment of source positions to nodes (includes every cycle of that size), outputs = all nodes, each under a random renumbering; \
         (3) random: single-writer circuits up to 4 inputs/14 gates (uniform / deep / shared-early source choice, repeated source nodes, an unwritten node 1/6) with scrambled base numbering + second renumbering + 2 input vectors (values in -9..9, 0, +-1, +-1000, i64 extremes), cyclic variants by rewiring a source to a downstream target, detached cycles, caller-chosen orders; arbitrary conforming diagrams (many writers) for 'result iff acyclic'. \
         non-trivial = at least 2 hyperedges and at least one dependency. output positions that depend on a never-written node are excluded from value comparison (not fixed by the statement)."
            .into(),
    );
}
