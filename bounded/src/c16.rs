//! C16 — bounded checks (to be written)
use crate::ctx::Ctx;
pub fn run(_ctx: &mut Ctx) {}
