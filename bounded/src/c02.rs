//! C02 — the tensor product is strict juxtaposition (strict and lax representation), hence
//! associative and unital ON THE NOSE (equal raw data).
//!
//! Oracle: `juxt` below — plain loops written from the statement: everything of f first, then
//! everything of g with node indices shifted by f's node count; pending unifications of a lax
//! diagram are data like everything else and are juxtaposed the same way.  Results of the real
//! library are read field by field from the raw public fields (including every `target` /
//! segment-size field of the strict representation) and compared for EQUALITY, not isomorphism.
use crate::ctx::{guard, Ctx, Rng};
use crate::model::*;
use open_hypergraphs::array::vec::*;
use open_hypergraphs::category::*;
use open_hypergraphs::finite_function::FiniteFunction;
use open_hypergraphs::indexed_coproduct::IndexedCoproduct;
use open_hypergraphs::lax;
use open_hypergraphs::semifinite::SemifiniteFunction;
use serde_json::{json, Value};

type Check = fn(&mut Ctx, &Value);
const CHECKS: &[(&str, Check)] = &[
    ("ff_tensor", chk_ff_tensor),
    ("ic_tensor", chk_ic_tensor),
    ("strict_tensor", chk_strict_tensor),
    ("strict_assoc", chk_strict_assoc),
    ("strict_unit", chk_strict_unit),
    ("lax_tensor", chk_lax_tensor),
    ("lax_assoc", chk_lax_assoc),
    ("lax_unit", chk_lax_unit),
];

// ------------------------------------------------------------------------------------------------
// plain lax model: a model plus the list of pending unifications (ordered pairs, in order)
// ------------------------------------------------------------------------------------------------
#[derive(Clone, Debug, PartialEq)]
struct Lx {
    m: M,
    q: Vec<(usize, usize)>,
}

impl Lx {
    fn json(&self) -> Value {
        let mut v = self.m.json();
        v["q"] = json!(self.q.iter().map(|&(a, b)| vec![a, b]).collect::<Vec<_>>());
        v
    }
    fn from_json(v: &Value) -> Option<Lx> {
        let m = M::from_json(v)?;
        let mut q = vec![];
        if let Some(arr) = v.get("q").and_then(|x| x.as_array()) {
            for p in arr {
                let p = p.as_array()?;
                if p.len() != 2 {
                    return None;
                }
                q.push((p[0].as_u64()? as usize, p[1].as_u64()? as usize));
            }
        }
        Some(Lx { m, q })
    }
    fn valid(&self) -> bool {
        let n = self.m.w.len();
        self.m.valid() && self.q.iter().all(|&(a, b)| a < n && b < n)
    }
    fn to_lax(&self) -> LOH {
        let mut l = self.m.to_lax();
        for &(a, b) in &self.q {
            l.hypergraph.quotient.0.push(lax::NodeId(a));
            l.hypergraph.quotient.1.push(lax::NodeId(b));
        }
        l
    }
    /// read every field of a lax diagram; Err if the parallel arrays are not parallel
    fn read(l: &LOH) -> Result<Lx, String> {
        let h = &l.hypergraph;
        if h.adjacency.len() != h.edges.len() {
            return Err(format!("{} adjacency entries for {} edge labels", h.adjacency.len(), h.edges.len()));
        }
        if h.quotient.0.len() != h.quotient.1.len() {
            return Err(format!("quotient lists of different length {} / {}", h.quotient.0.len(), h.quotient.1.len()));
        }
        let (m, q) = M::from_lax(l);
        Ok(Lx { m, q })
    }
}

/// THE ORACLE: f followed by g, g's node indices shifted by f's node count.
fn juxt(f: &Lx, g: &Lx) -> Lx {
    let n = f.m.w.len();
    let mut r = Lx { m: M::empty(), q: vec![] };
    for &l in &f.m.w {
        r.m.w.push(l);
    }
    for &l in &g.m.w {
        r.m.w.push(l);
    }
    for e in 0..f.m.x.len() {
        r.m.x.push(f.m.x[e]);
        r.m.src.push(f.m.src[e].clone());
        r.m.tgt.push(f.m.tgt[e].clone());
    }
    for e in 0..g.m.x.len() {
        r.m.x.push(g.m.x[e]);
        r.m.src.push(g.m.src[e].iter().map(|&v| v + n).collect());
        r.m.tgt.push(g.m.tgt[e].iter().map(|&v| v + n).collect());
    }
    for &v in &f.m.s {
        r.m.s.push(v);
    }
    for &v in &g.m.s {
        r.m.s.push(v + n);
    }
    for &v in &f.m.t {
        r.m.t.push(v);
    }
    for &v in &g.m.t {
        r.m.t.push(v + n);
    }
    for &(a, b) in &f.q {
        r.q.push((a, b));
    }
    for &(a, b) in &g.q {
        r.q.push((a + n, b + n));
    }
    r
}

fn plain(m: &M) -> Lx {
    Lx { m: m.clone(), q: vec![] }
}

/// every raw field of a strict open hypergraph, for on-the-nose comparison
fn raw(f: &SOH) -> Value {
    let ic = |c: &IC| json!({"sizes": c.sources.table.0, "sizes_target": c.sources.target, "values": c.values.table.0, "values_target": c.values.target});
    json!({"s": f.s.table.0, "s_target": f.s.target, "t": f.t.table.0, "t_target": f.t.target,
           "h_s": ic(&f.h.s), "h_t": ic(&f.h.t), "w": f.h.w.0 .0, "x": f.h.x.0 .0})
}

/// compare one strict result with the expected juxtaposition, clause by clause
fn compare_strict(ctx: &mut Ctx, check: &str, input: &Value, r: &SOH, e: &M, f: &M, g: &M) {
    let m = match strict_wf(r) {
        Err(why) => {
            ctx.fail(check, "C02.strict-wf", input, json!(why), e.json());
            return;
        }
        Ok(m) => m,
    };
    ctx.expect(m.w == e.w, check, "C02.strict-nodes", input, json!(m.w), json!(e.w));
    ctx.expect(m.x == e.x, check, "C02.strict-edges", input, json!(m.x), json!(e.x));
    ctx.expect(m.src == e.src, check, "C02.strict-edge-sources", input, json!(m.src), json!(e.src));
    ctx.expect(m.tgt == e.tgt, check, "C02.strict-edge-targets", input, json!(m.tgt), json!(e.tgt));
    ctx.expect(m.s == e.s, check, "C02.strict-source-interface", input, json!(m.s), json!(e.s));
    ctx.expect(m.t == e.t, check, "C02.strict-target-interface", input, json!(m.t), json!(e.t));
    // type of the result = concatenation of the types, asked of the library itself
    let want_s: Vec<u8> = f.source_type().into_iter().chain(g.source_type()).collect();
    let want_t: Vec<u8> = f.target_type().into_iter().chain(g.target_type()).collect();
    match guard(|| (Arrow::source(r).0 .0, Arrow::target(r).0 .0)) {
        Err(p) => ctx.fail(check, "C02.strict-type", input, json!(format!("panic: {}", p)), json!([want_s, want_t])),
        Ok((ts, tt)) => {
            ctx.expect(ts == want_s, check, "C02.strict-type", input, json!(ts), json!(want_s));
            ctx.expect(tt == want_t, check, "C02.strict-type", input, json!(tt), json!(want_t));
        }
    }
}

// ------------------------------------------------------------------------------------------------
// component checks
// ------------------------------------------------------------------------------------------------
fn ff_from_json(v: &Value) -> Option<(Vec<usize>, usize)> {
    let table: Vec<usize> = v.get("table")?.as_array()?.iter().map(|x| x.as_u64().map(|y| y as usize)).collect::<Option<_>>()?;
    let target = v.get("target")?.as_u64()? as usize;
    if table.iter().any(|&x| x >= target) {
        return None;
    }
    Some((table, target))
}

/// input: {"f": {"table","target"}, "g": {"table","target"}} — tensor of finite functions
fn chk_ff_tensor(ctx: &mut Ctx, input: &Value) {
    let ((ft, fn_), (gt, gn)) = match (ff_from_json(&input["f"]), ff_from_json(&input["g"])) {
        (Some(f), Some(g)) => (f, g),
        _ => return,
    };
    ctx.case("ff_tensor", input, !gt.is_empty() && fn_ > 0);
    let mut want = ft.clone();
    for &v in &gt {
        want.push(v + fn_);
    }
    let want_target = fn_ + gn;
    let f: FF = FiniteFunction::new(VecArray(ft), fn_).unwrap();
    let g: FF = FiniteFunction::new(VecArray(gt), gn).unwrap();
    for (how, got) in [("tensor", guard(|| Monoidal::tensor(&f, &g))), ("bitor", guard(|| &f | &g))] {
        match got {
            Err(p) => ctx.fail("ff_tensor", "C02.ff-no-panic", input, json!(format!("{}: panic: {}", how, p)), json!(want)),
            Ok(r) => {
                ctx.expect(r.table.0 == want, "ff_tensor", "C02.ff-table", input, json!(r.table.0), json!(want));
                ctx.expect(r.target == want_target, "ff_tensor", "C02.ff-target", input, json!(r.target), json!(want_target));
            }
        }
    }
}

fn segs_from_json(v: &Value) -> Option<(Vec<Vec<usize>>, usize)> {
    let segs: Vec<Vec<usize>> = v
        .get("segs")?
        .as_array()?
        .iter()
        .map(|s| s.as_array().and_then(|a| a.iter().map(|x| x.as_u64().map(|y| y as usize)).collect::<Option<Vec<usize>>>()))
        .collect::<Option<_>>()?;
    let target = v.get("target")?.as_u64()? as usize;
    if segs.iter().flatten().any(|&x| x >= target) {
        return None;
    }
    Some((segs, target))
}

fn mk_ic(segs: &[Vec<usize>], target: usize) -> IC {
    let sizes: Vec<usize> = segs.iter().map(|l| l.len()).collect();
    let vals: Vec<usize> = segs.iter().flatten().cloned().collect();
    IndexedCoproduct::from_semifinite(SemifiniteFunction(VecArray(sizes)), FiniteFunction::new(VecArray(vals), target).unwrap()).unwrap()
}

/// input: {"f": {"segs","target"}, "g": {"segs","target"}} — tensor of segmented arrays
fn chk_ic_tensor(ctx: &mut Ctx, input: &Value) {
    let ((fs, fn_), (gs, gn)) = match (segs_from_json(&input["f"]), segs_from_json(&input["g"])) {
        (Some(f), Some(g)) => (f, g),
        _ => return,
    };
    ctx.case("ic_tensor", input, fn_ > 0 && gs.iter().any(|s| !s.is_empty()));
    let mut want: Vec<Vec<usize>> = vec![];
    for s in &fs {
        want.push(s.clone());
    }
    for s in &gs {
        want.push(s.iter().map(|&v| v + fn_).collect());
    }
    let (f, g) = (mk_ic(&fs, fn_), mk_ic(&gs, gn));
    match guard(|| f.tensor(&g)) {
        Err(p) => ctx.fail("ic_tensor", "C02.ic-no-panic", input, json!(format!("panic: {}", p)), json!(want)),
        Ok(r) => match ic_wf(&r, Some(fs.len() + gs.len()), Some(fn_ + gn)) {
            Err(why) => ctx.fail("ic_tensor", "C02.ic-wf", input, json!(why), json!(want)),
            Ok(got) => {
                ctx.expect(got == want, "ic_tensor", "C02.ic-segments", input, json!(got), json!(want));
            }
        },
    }
}

// ------------------------------------------------------------------------------------------------
// strict representation
// ------------------------------------------------------------------------------------------------
fn two(input: &Value) -> Option<(Lx, Lx)> {
    match (Lx::from_json(&input["f"]), Lx::from_json(&input["g"])) {
        (Some(f), Some(g)) if f.valid() && g.valid() => Some((f, g)),
        _ => None,
    }
}
fn three(input: &Value) -> Option<(Lx, Lx, Lx)> {
    match (Lx::from_json(&input["f"]), Lx::from_json(&input["g"]), Lx::from_json(&input["h"])) {
        (Some(f), Some(g), Some(h)) if f.valid() && g.valid() && h.valid() => Some((f, g, h)),
        _ => None,
    }
}
/// the shift matters: the left operand has a node and the right operand mentions a node somewhere
fn shift_matters(f: &Lx, g: &Lx) -> bool {
    !f.m.w.is_empty() && (g.m.s.len() + g.m.t.len() + g.q.len() + g.m.src.iter().chain(g.m.tgt.iter()).map(|l| l.len()).sum::<usize>()) > 0
}

/// input: {"f": model, "g": model}
fn chk_strict_tensor(ctx: &mut Ctx, input: &Value) {
    let (f, g) = match two(input) {
        Some(x) => x,
        None => return,
    };
    ctx.case("strict_tensor", input, shift_matters(&f, &g));
    let e = juxt(&plain(&f.m), &plain(&g.m)).m;
    let (sf, sg) = (f.m.to_strict(), g.m.to_strict());
    for (how, got) in [("tensor", guard(|| Monoidal::tensor(&sf, &sg))), ("bitor", guard(|| &sf | &sg))] {
        match got {
            Err(p) => ctx.fail("strict_tensor", "C02.strict-no-panic", input, json!(format!("{}: panic: {}", how, p)), e.json()),
            Ok(r) => compare_strict(ctx, "strict_tensor", input, &r, &e, &f.m, &g.m),
        }
    }
    // the hypergraph coproduct on its own (method and `+`)
    for (how, got) in [("coproduct", guard(|| sf.h.coproduct(&sg.h))), ("add", guard(|| &sf.h + &sg.h))] {
        match got {
            Err(p) => ctx.fail("strict_tensor", "C02.strict-no-panic", input, json!(format!("{}: panic: {}", how, p)), e.json()),
            Ok(h) => {
                let n = e.w.len();
                let k = e.x.len();
                let ok_w = h.w.0 .0 == e.w && h.x.0 .0 == e.x;
                ctx.expect(ok_w, "strict_tensor", "C02.hypergraph-coproduct-labels", input, json!([h.w.0 .0, h.x.0 .0]), json!([e.w, e.x]));
                match (ic_wf(&h.s, Some(k), Some(n)), ic_wf(&h.t, Some(k), Some(n))) {
                    (Ok(s), Ok(t)) => {
                        ctx.expect(s == e.src && t == e.tgt, "strict_tensor", "C02.hypergraph-coproduct-incidence", input, json!([s, t]), json!([e.src, e.tgt]));
                    }
                    (a, b) => ctx.fail("strict_tensor", "C02.strict-wf", input, json!(format!("{}: {:?} {:?}", how, a.err(), b.err())), e.json()),
                }
            }
        }
    }
}

/// input: {"f","g","h"} models — (f⊗g)⊗h and f⊗(g⊗h) are the same raw data
fn chk_strict_assoc(ctx: &mut Ctx, input: &Value) {
    let (f, g, h) = match three(input) {
        Some(x) => x,
        None => return,
    };
    ctx.case("strict_assoc", input, shift_matters(&f, &g) && shift_matters(&g, &h));
    let e = juxt(&juxt(&plain(&f.m), &plain(&g.m)), &plain(&h.m)).m;
    let (sf, sg, sh) = (f.m.to_strict(), g.m.to_strict(), h.m.to_strict());
    let l = guard(|| Monoidal::tensor(&Monoidal::tensor(&sf, &sg), &sh));
    let r = guard(|| Monoidal::tensor(&sf, &Monoidal::tensor(&sg, &sh)));
    match (l, r) {
        (Ok(l), Ok(r)) => {
            let (rl, rr) = (raw(&l), raw(&r));
            ctx.expect(rl == rr, "strict_assoc", "C02.strict-associative", input, rl, rr);
            for x in [&l, &r] {
                match strict_wf(x) {
                    Err(why) => ctx.fail("strict_assoc", "C02.strict-wf", input, json!(why), e.json()),
                    Ok(m) => {
                        ctx.expect(m == e, "strict_assoc", "C02.strict-triple-juxtaposition", input, m.json(), e.json());
                    }
                }
            }
        }
        (l, r) => ctx.fail("strict_assoc", "C02.strict-no-panic", input, json!(format!("panic: {:?} {:?}", l.err(), r.err())), e.json()),
    }
}

fn strict_empties() -> Vec<(&'static str, SOH)> {
    vec![
        ("identity(unit)", <SOH as Arrow>::identity(<SOH as Monoidal>::unit())),
        ("model-empty", M::empty().to_strict()),
        (
            "spider-empty",
            SOH::spider(FiniteFunction::new(VecArray(vec![]), 0).unwrap(), FiniteFunction::new(VecArray(vec![]), 0).unwrap(), SemifiniteFunction(VecArray(vec![]))).unwrap(),
        ),
    ]
}

/// input: {"f": model} — empty ⊗ f = f = f ⊗ empty as raw data
fn chk_strict_unit(ctx: &mut Ctx, input: &Value) {
    let f = match Lx::from_json(&input["f"]) {
        Some(f) if f.valid() => f,
        _ => return,
    };
    ctx.case("strict_unit", input, f.m.nontrivial());
    let sf = f.m.to_strict();
    let want = raw(&sf);
    let unit_ty = guard(|| <SOH as Monoidal>::unit().0 .0);
    ctx.expect(unit_ty == Ok(vec![]), "strict_unit", "C02.strict-unit-object", input, json!(format!("{:?}", unit_ty)), json!([]));
    let empties = match guard(strict_empties) {
        Ok(e) => e,
        Err(p) => {
            ctx.fail("strict_unit", "C02.strict-no-panic", input, json!(format!("building the empty diagram: panic: {}", p)), json!("empty diagram"));
            return;
        }
    };
    for (name, e) in &empties {
        let left = guard(|| Monoidal::tensor(e, &sf));
        let right = guard(|| Monoidal::tensor(&sf, e));
        for (side, got) in [("left", left), ("right", right)] {
            match got {
                Err(p) => ctx.fail("strict_unit", "C02.strict-no-panic", input, json!(format!("{} {}: panic: {}", name, side, p)), want.clone()),
                Ok(r) => {
                    let rr = raw(&r);
                    let clause = if side == "left" { "C02.strict-left-unit" } else { "C02.strict-right-unit" };
                    ctx.expect(rr == want, "strict_unit", clause, input, json!({"empty": name, "result": rr}), want.clone());
                }
            }
        }
    }
}

// ------------------------------------------------------------------------------------------------
// lax representation
// ------------------------------------------------------------------------------------------------
fn compare_lax(ctx: &mut Ctx, check: &str, input: &Value, r: &LOH, e: &Lx) {
    let got = match Lx::read(r) {
        Err(why) => {
            ctx.fail(check, "C02.lax-wf", input, json!(why), e.json());
            return;
        }
        Ok(x) => x,
    };
    ctx.expect(got.m.w == e.m.w, check, "C02.lax-nodes", input, json!(got.m.w), json!(e.m.w));
    ctx.expect(got.m.x == e.m.x, check, "C02.lax-edges", input, json!(got.m.x), json!(e.m.x));
    ctx.expect(got.m.src == e.m.src && got.m.tgt == e.m.tgt, check, "C02.lax-adjacency", input, json!([got.m.src, got.m.tgt]), json!([e.m.src, e.m.tgt]));
    ctx.expect(got.m.s == e.m.s, check, "C02.lax-source-interface", input, json!(got.m.s), json!(e.m.s));
    ctx.expect(got.m.t == e.m.t, check, "C02.lax-target-interface", input, json!(got.m.t), json!(e.m.t));
    ctx.expect(got.q == e.q, check, "C02.lax-quotient", input, json!(got.q), json!(e.q));
}

/// input: {"f": lax model, "g": lax model}  (lax model = model + "q": [[a,b],..])
fn chk_lax_tensor(ctx: &mut Ctx, input: &Value) {
    let (f, g) = match two(input) {
        Some(x) => x,
        None => return,
    };
    ctx.case("lax_tensor", input, shift_matters(&f, &g));
    let e = juxt(&f, &g);
    let (lf, lg) = (f.to_lax(), g.to_lax());
    let results = [
        ("tensor", guard(|| lf.tensor(&lg))),
        ("Monoidal::tensor", guard(|| <LOH as Monoidal>::tensor(&lf, &lg))),
        ("bitor", guard(|| &lf | &lg)),
    ];
    for (how, got) in results {
        match got {
            Err(p) => ctx.fail("lax_tensor", "C02.lax-no-panic", input, json!(format!("{}: panic: {}", how, p)), e.json()),
            Ok(r) => {
                compare_lax(ctx, "lax_tensor", input, &r, &e);
                // type = concatenation of the types (labels read through the un-quotiented node list)
                let want_s: Vec<u8> = f.m.source_type().into_iter().chain(g.m.source_type()).collect();
                let want_t: Vec<u8> = f.m.target_type().into_iter().chain(g.m.target_type()).collect();
                match guard(|| (Arrow::source(&r), Arrow::target(&r))) {
                    Err(p) => ctx.fail("lax_tensor", "C02.lax-type", input, json!(format!("panic: {}", p)), json!([want_s, want_t])),
                    Ok((ts, tt)) => {
                        ctx.expect(ts == want_s && tt == want_t, "lax_tensor", "C02.lax-type", input, json!([ts, tt]), json!([want_s, want_t]));
                    }
                }
            }
        }
    }
    // the operands are not consumed or changed
    ctx.expect(Lx::read(&lf).as_ref() == Ok(&f) && Lx::read(&lg).as_ref() == Ok(&g), "lax_tensor", "C02.lax-operands-unchanged", input, json!("changed"), json!("unchanged"));
    // the hypergraph coproduct on its own
    match guard(|| open_hypergraphs::verif_hooks::lax_hypergraph_coproduct(&lf.hypergraph, &lg.hypergraph)) {
        Err(p) => ctx.fail("lax_tensor", "C02.lax-no-panic", input, json!(format!("coproduct: panic: {}", p)), e.json()),
        Ok(h) => {
            let r = lax::OpenHypergraph { sources: vec![], targets: vec![], hypergraph: h };
            let mut e2 = e.clone();
            e2.m.s = vec![];
            e2.m.t = vec![];
            compare_lax(ctx, "lax_tensor", input, &r, &e2);
        }
    }
}

/// input: {"f","g","h"} lax models
fn chk_lax_assoc(ctx: &mut Ctx, input: &Value) {
    let (f, g, h) = match three(input) {
        Some(x) => x,
        None => return,
    };
    ctx.case("lax_assoc", input, shift_matters(&f, &g) && shift_matters(&g, &h));
    let e = juxt(&f, &juxt(&g, &h));
    let (lf, lg, lh) = (f.to_lax(), g.to_lax(), h.to_lax());
    let l = guard(|| lf.tensor(&lg).tensor(&lh));
    let r = guard(|| lf.tensor(&lg.tensor(&lh)));
    match (l, r) {
        (Ok(l), Ok(r)) => {
            let same = l == r && Lx::read(&l) == Lx::read(&r);
            ctx.expect(same, "lax_assoc", "C02.lax-associative", input, json!(format!("{:?}", l)), json!(format!("{:?}", r)));
            compare_lax(ctx, "lax_assoc", input, &l, &e);
            compare_lax(ctx, "lax_assoc", input, &r, &e);
        }
        (l, r) => ctx.fail("lax_assoc", "C02.lax-no-panic", input, json!(format!("panic: {:?} {:?}", l.err(), r.err())), e.json()),
    }
}

/// input: {"f": lax model}
fn chk_lax_unit(ctx: &mut Ctx, input: &Value) {
    let f = match Lx::from_json(&input["f"]) {
        Some(f) if f.valid() => f,
        _ => return,
    };
    ctx.case("lax_unit", input, f.m.nontrivial());
    let lf = f.to_lax();
    let unit_ty = guard(|| <LOH as Monoidal>::unit());
    ctx.expect(unit_ty == Ok(vec![]), "lax_unit", "C02.lax-unit-object", input, json!(format!("{:?}", unit_ty)), json!([]));
    let empties: Vec<(&str, Result<LOH, String>)> = vec![
        ("empty()", guard(|| LOH::empty())),
        ("identity(unit)", guard(|| LOH::identity(<LOH as Monoidal>::unit()))),
    ];
    for (name, e) in empties {
        let e = match e {
            Ok(e) => e,
            Err(p) => {
                ctx.fail("lax_unit", "C02.lax-no-panic", input, json!(format!("{}: panic: {}", name, p)), json!("empty diagram"));
                continue;
            }
        };
        for (side, got) in [("left", guard(|| e.tensor(&lf))), ("right", guard(|| lf.tensor(&e)))] {
            match got {
                Err(p) => ctx.fail("lax_unit", "C02.lax-no-panic", input, json!(format!("{} {}: panic: {}", name, side, p)), f.json()),
                Ok(r) => {
                    let clause = if side == "left" { "C02.lax-left-unit" } else { "C02.lax-right-unit" };
                    let same = r == lf && Lx::read(&r).as_ref() == Ok(&f);
                    ctx.expect(same, "lax_unit", clause, input, json!(format!("{} : {:?}", name, r)), f.json());
                }
            }
        }
    }
}

// ------------------------------------------------------------------------------------------------
// generators
// ------------------------------------------------------------------------------------------------
const LARGE: Bounds = Bounds { nodes: 12, edges: 6, arity: 5, iface: 9, labels: 3 };

/// random pending unifications (any pairs: tensoring does not look at labels)
fn random_q(r: &mut Rng, n: usize, max_pairs: usize) -> Vec<(usize, usize)> {
    if n == 0 || r.chance(1, 3) {
        return vec![];
    }
    let k = r.range(1, max_pairs);
    (0..k).map(|_| (r.below(n), r.below(n))).collect()
}

fn random_lx(r: &mut Rng, b: Bounds) -> Lx {
    let m = random_model(r, b);
    let q = random_q(r, m.w.len(), 4);
    Lx { m, q }
}

/// corner list: model corners plus the ones the tensor's special cases would get wrong
fn corner_lx() -> Vec<Lx> {
    let mut out: Vec<Lx> = corner_models().iter().map(plain).collect();
    let mk = |w: Vec<u8>, x: Vec<u8>, src: Vec<Vec<usize>>, tgt: Vec<Vec<usize>>, s: Vec<usize>, t: Vec<usize>, q: Vec<(usize, usize)>| Lx { m: M { w, x, src, tgt, s, t }, q };
    // no nodes but two zero-arity edges (a "nothing to shift" shortcut must not drop them)
    out.push(mk(vec![], vec![10, 11], vec![vec![], vec![]], vec![vec![], vec![]], vec![], vec![], vec![]));
    // nodes but nothing else (only the node count of the left operand matters)
    out.push(mk(vec![0, 1, 1], vec![], vec![], vec![], vec![], vec![], vec![]));
    // interfaces much longer than the node set, different lengths on both sides
    out.push(mk(vec![1], vec![], vec![], vec![], vec![0; 5], vec![0; 2], vec![]));
    // more interface entries and more edges than nodes; source and target interface of different length
    out.push(mk(vec![0, 1], vec![10, 11, 10], vec![vec![1, 1, 0], vec![], vec![0]], vec![vec![], vec![0, 1], vec![1]], vec![1], vec![0, 1, 1, 0], vec![]));
    // pending unifications only (no edges, no interfaces), including a self pair and a duplicate
    out.push(mk(vec![0, 0, 0], vec![], vec![], vec![], vec![], vec![], vec![(0, 2), (1, 1), (0, 2), (2, 0)]));
    // pending unifications with edges and interfaces, labels inconsistent (lax allows it)
    out.push(mk(vec![0, 1, 0, 1], vec![11], vec![vec![3, 0]], vec![vec![2]], vec![3, 1], vec![0], vec![(1, 3), (0, 1)]));
    // permutation wiring without operations
    out.push(mk(vec![0, 1, 2], vec![], vec![], vec![], vec![2, 0, 1], vec![1, 2, 0], vec![]));
    // 2-cycle with a pending unification closing it further
    out.push(mk(vec![0, 0], vec![10, 11], vec![vec![0], vec![1]], vec![vec![1], vec![0]], vec![0], vec![1], vec![(1, 0)]));
    out
}

/// exhaustive family: n ≤ 2 nodes (distinct labels), ≤ 1 edge with source and target arity ≤ 1,
/// interfaces of length ≤ 1 (n = 2) or ≤ 2 (n = 1), and with `with_q` every single pending pair
fn exhaustive(with_q: bool) -> Vec<Lx> {
    let mut out = vec![];
    for n in 0..=2usize {
        let w: Vec<u8> = (0..n as u8).collect();
        let mut lists: Vec<Vec<usize>> = vec![vec![]];
        for v in 0..n {
            lists.push(vec![v]);
        }
        let mut ifaces = lists.clone();
        if n == 1 {
            ifaces.push(vec![0, 0]);
        }
        let mut edges: Vec<Option<(Vec<usize>, Vec<usize>)>> = vec![None];
        for a in &lists {
            for b in &lists {
                edges.push(Some((a.clone(), b.clone())));
            }
        }
        let mut qs: Vec<Vec<(usize, usize)>> = vec![vec![]];
        if with_q {
            for a in 0..n {
                for b in 0..n {
                    qs.push(vec![(a, b)]);
                }
            }
        }
        for e in &edges {
            for s in &ifaces {
                for t in &ifaces {
                    for q in &qs {
                        let (x, src, tgt) = match e {
                            None => (vec![], vec![], vec![]),
                            Some((a, b)) => (vec![10], vec![a.clone()], vec![b.clone()]),
                        };
                        out.push(Lx { m: M { w: w.clone(), x, src, tgt, s: s.clone(), t: t.clone() }, q: q.clone() });
                    }
                }
            }
        }
    }
    out
}

fn random_ff(r: &mut Rng) -> Value {
    let target = r.range(0, 5);
    let len = if target == 0 { 0 } else { r.range(0, 6) };
    json!({"table": r.vec_below(len, target.max(1)), "target": target})
}

fn random_segs(r: &mut Rng) -> Value {
    let target = r.range(0, 4);
    let k = r.range(0, 4);
    let segs: Vec<Vec<usize>> = (0..k)
        .map(|_| {
            let len = if target == 0 { 0 } else { r.range(0, 3) };
            r.vec_below(len, target.max(1))
        })
        .collect();
    json!({"segs": segs, "target": target})
}

pub fn run(ctx: &mut Ctx) {
    if let Some((name, input)) = ctx.replay.clone() {
        for (n, c) in CHECKS {
            if *n == name {
                c(ctx, &input);
            }
        }
        return;
    }
    // (a) corners: all ordered pairs, all triples of a sub-list, every corner against the unit
    let corners = corner_lx();
    for f in &corners {
        chk_strict_unit(ctx, &json!({"f": f.m.json()}));
        chk_lax_unit(ctx, &json!({"f": f.json()}));
        for g in &corners {
            chk_strict_tensor(ctx, &json!({"f": f.m.json(), "g": g.m.json()}));
            chk_lax_tensor(ctx, &json!({"f": f.json(), "g": g.json()}));
        }
    }
    let sub: Vec<&Lx> = corners.iter().step_by(2).collect();
    for f in &sub {
        for g in &sub {
            for h in &sub {
                chk_strict_assoc(ctx, &json!({"f": f.m.json(), "g": g.m.json(), "h": h.m.json()}));
                chk_lax_assoc(ctx, &json!({"f": f.json(), "g": g.json(), "h": h.json()}));
            }
        }
    }
    // component corners: empty tables with non-zero targets (non-surjective), zero targets, empty segments
    let ffs = [json!({"table": [], "target": 0}), json!({"table": [], "target": 3}), json!({"table": [0, 0, 0, 0], "target": 1}), json!({"table": [2, 0], "target": 5}), json!({"table": [1, 1, 0], "target": 2})];
    for f in &ffs {
        for g in &ffs {
            chk_ff_tensor(ctx, &json!({"f": f, "g": g}));
        }
    }
    let ics = [
        json!({"segs": [], "target": 0}),
        json!({"segs": [], "target": 2}),
        json!({"segs": [[], []], "target": 0}),
        json!({"segs": [[], [1, 1, 0], []], "target": 2}),
        json!({"segs": [[0], [2, 2]], "target": 4}),
    ];
    for f in &ics {
        for g in &ics {
            chk_ic_tensor(ctx, &json!({"f": f, "g": g}));
        }
    }
    // (b) exhaustive small family: all ordered pairs (strict, without pending pairs); lax with pending
    //     pairs: all ordered pairs in the thorough tier, every left operand against a rotating
    //     slice of right operands in the quick tier
    let ex = exhaustive(false);
    for f in &ex {
        chk_strict_unit(ctx, &json!({"f": f.m.json()}));
        for g in &ex {
            chk_strict_tensor(ctx, &json!({"f": f.m.json(), "g": g.m.json()}));
        }
    }
    let exq = exhaustive(true);
    let stride = if ctx.thorough() { 1 } else { 23 };
    for (i, f) in exq.iter().enumerate() {
        chk_lax_unit(ctx, &json!({"f": f.json()}));
        let mut j = i % stride;
        while j < exq.len() {
            chk_lax_tensor(ctx, &json!({"f": f.json(), "g": exq[j].json()}));
            j += stride;
        }
    }
    let n_tri = ctx.budget(4000, 150000);
    for _ in 0..n_tri {
        let (a, b, c) = (ctx.rng.below(exq.len()), ctx.rng.below(exq.len()), ctx.rng.below(exq.len()));
        chk_lax_assoc(ctx, &json!({"f": exq[a].json(), "g": exq[b].json(), "h": exq[c].json()}));
        chk_strict_assoc(ctx, &json!({"f": exq[a].m.json(), "g": exq[b].m.json(), "h": exq[c].m.json()}));
    }
    // (c) random
    let n = ctx.budget(2500, 60000);
    for i in 0..n {
        let b = match i % 8 {
            0 => LARGE,
            1 | 2 => MEDIUM,
            _ => SMALL,
        };
        let f = random_lx(&mut ctx.rng, b);
        let g = random_lx(&mut ctx.rng, b);
        let h = random_lx(&mut ctx.rng, b);
        chk_strict_tensor(ctx, &json!({"f": f.m.json(), "g": g.m.json()}));
        chk_lax_tensor(ctx, &json!({"f": f.json(), "g": g.json()}));
        chk_strict_assoc(ctx, &json!({"f": f.m.json(), "g": g.m.json(), "h": h.m.json()}));
        chk_lax_assoc(ctx, &json!({"f": f.json(), "g": g.json(), "h": h.json()}));
        chk_strict_unit(ctx, &json!({"f": h.m.json()}));
        chk_lax_unit(ctx, &json!({"f": h.json()}));
        let (a, b2) = (random_ff(&mut ctx.rng), random_ff(&mut ctx.rng));
        chk_ff_tensor(ctx, &json!({"f": a, "g": b2}));
        let (a, b2) = (random_segs(&mut ctx.rng), random_segs(&mut ctx.rng));
        chk_ic_tensor(ctx, &json!({"f": a, "g": b2}));
    }
    // long operands: 32 + 32 nodes, pending pairs in binomial-tree order on the RIGHT operand
    let mut q = vec![];
    let mut step = 1;
    while step < 32 {
        let mut i = 0;
        while i + step < 32 {
            q.push((i + step, i));
            i += 2 * step;
        }
        step *= 2;
    }
    let big = Lx { m: M { w: vec![0; 32], x: vec![10; 3], src: vec![(0..32).collect(), vec![], vec![31; 40]], tgt: vec![vec![], (0..32).rev().collect(), vec![0]], s: (0..32).collect(), t: (0..32).rev().collect() }, q };
    chk_lax_tensor(ctx, &json!({"f": big.json(), "g": big.json()}));
    chk_strict_tensor(ctx, &json!({"f": big.m.json(), "g": big.m.json()}));
    chk_lax_assoc(ctx, &json!({"f": big.json(), "g": corners[9].json(), "h": big.json()}));
    chk_strict_assoc(ctx, &json!({"f": big.m.json(), "g": corners[9].m.json(), "h": big.m.json()}));
    ctx.notes.push(
        "rule: operands are plain models (strict) / plain models + ordered list of pending unification pairs (lax); oracle = literal juxtaposition, compared for equality on every raw field (strict: incl. all target and segment-size fields). \
         enumeration: (a) 18 corners: all ordered pairs, 9^3 triples, unit laws; (b) exhaustive family n<=2 nodes (distinct labels), <=1 edge of arity <=1/<=1, interfaces <=1 (n=2) or <=2 (n=1) [137 models; x every single pending pair (a,b) for lax = 542]: strict all ordered pairs, lax all ordered pairs (thorough) or every left operand x 1/23 of right operands (quick), random triples from the family; \
         (c) seeded random SMALL(3,2,2,3,2) / MEDIUM(5,3,3,4,2) / LARGE(12 nodes,6 edges,arity 5,iface 9,3 labels) with 0..4 arbitrary pending pairs; 32-node operands with binomial-tree pending pairs on the right operand; finite-function and segmented-array tensor on their own. \
         non-trivial = the left operand has a node and the right operand mentions a node (edge incidence, interface or pending pair), so a wrong offset is observable; unit checks: the operand has a node and an edge or interface entry."
            .into(),
    );
}
