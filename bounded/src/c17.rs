//! C17 — acyclicity, monogamy and degree queries decide their definitions, totally.
//!
//! Oracles (plain loops over Vec, written from the property statement):
//!  * acyclic    : one-step relation u -> v iff some hyperedge has u among its sources and v among its
//!                 targets; transitive closure by Warshall; acyclic iff no node reaches itself
//!                 (path of length >= 1).
//!  * monogamous : both interface lists without repetition, and for every node v
//!                 (v is an input  => in-degree 0, otherwise in-degree 1) and
//!                 (v is an output => out-degree 0, otherwise out-degree 1).
//!                 (This is the exclusive reading, which the library's doc comment and its own test
//!                 `test_is_monogamous_false_boundary_has_degree` pin down; the inclusive reading
//!                 "in-degree 1, or in-degree 0 and an input" differs only for interface nodes of
//!                 degree 1 — those inputs are counted in the notes.)
//!  * degrees    : number of positions (with multiplicity) in which the node occurs in all target
//!                 lists (in-degree) / all source lists (out-degree).
//! Every call of the library is wrapped in `guard`: a panic is a violation of the "totally" clause.
use crate::ctx::{guard, Ctx, Rng};
use crate::model::*;
use serde_json::{json, Value};
use std::sync::atomic::{AtomicU64, Ordering};

type Check = fn(&mut Ctx, &Value);
const CHECKS: &[(&str, Check)] = &[("acyclic", chk_acyclic), ("monogamous", chk_monogamous), ("degrees", chk_degrees)];

static AMBIGUOUS: AtomicU64 = AtomicU64::new(0);
static MONO_TRUE: AtomicU64 = AtomicU64::new(0);
static ACYC_TRUE: AtomicU64 = AtomicU64::new(0);
static ACYC_FALSE: AtomicU64 = AtomicU64::new(0);

// ------------------------------------------------------------------------------------------------
// watchdog: "returns an answer" includes termination.  The checks announce every library call
// sequence (`enter`); if the same one is still running after LIMIT_S seconds, the watchdog writes a
// report (same shape as Ctx::report) naming the input and the violated totality clause and exits 1.
// ------------------------------------------------------------------------------------------------
mod watchdog {
    use serde_json::{json, Value};
    use std::sync::atomic::{AtomicU64, Ordering};
    use std::sync::{Mutex, Once};
    use std::time::{Duration, Instant};

    pub const LIMIT_S: u64 = 20;
    static CUR: Mutex<Option<(String, String, String)>> = Mutex::new(None);
    static TICK: AtomicU64 = AtomicU64::new(0);
    static FAILS: Mutex<Vec<Value>> = Mutex::new(Vec::new());
    static START: Once = Once::new();

    pub fn start(property: &str, tier: &str, seed: u64, replay: bool) {
        let (property, tier) = (property.to_string(), tier.to_string());
        START.call_once(move || {
            std::thread::spawn(move || {
                let t0 = Instant::now();
                let mut last = (u64::MAX, Instant::now());
                loop {
                    std::thread::sleep(Duration::from_millis(250));
                    let tick = TICK.load(Ordering::SeqCst);
                    if tick != last.0 {
                        last = (tick, Instant::now());
                        continue;
                    }
                    if last.1.elapsed().as_secs() < LIMIT_S {
                        continue;
                    }
                    let cur = CUR.lock().map(|g| g.clone()).unwrap_or(None);
                    if let Some((check, clause, input)) = cur {
                        let input: Value = serde_json::from_str(&input).unwrap_or(Value::Null);
                        let observed = format!("no answer within {} s: the call did not return", LIMIT_S);
                        if replay {
                            println!("replay: check={} clause={} input={} observed={} expected={}", check, clause, input, json!(observed), json!("an answer"));
                        } else {
                            let mut fails: Vec<Value> = FAILS.lock().map(|g| g.clone()).unwrap_or_default();
                            fails.insert(0, json!({"check": check, "clause": clause, "input": input, "observed": observed, "expected": "an answer"}));
                            let nfail = fails.len();
                            let rep = json!({
                                "property": property, "tier": tier, "seed": seed,
                                "evaluations": tick, "distinct_nontrivial": 0, "per_check": {},
                                "failures": fails,
                                "samples": [], "notes": ["run aborted by the termination watchdog; counts are incomplete"],
                                "wall_s": t0.elapsed().as_secs_f64(),
                            });
                            let args: Vec<String> = std::env::args().collect();
                            if args.len() >= 6 && args[1] == "run" {
                                let _ = std::fs::write(&args[5], serde_json::to_string_pretty(&rep).unwrap());
                            }
                            println!("bounded {}: aborted after {} evaluations, {} failures (first: check {} clause {}: call did not return)", property, tick, nfail, check, clause);
                        }
                        std::process::exit(1);
                    }
                }
            });
        });
    }
    pub fn record(f: Value) {
        if let Ok(mut g) = FAILS.lock() {
            if g.len() < 49 {
                g.push(f);
            }
        }
    }
    /// announce the library calls made for one input
    pub fn enter(check: &str, clause: &str, input: &Value) {
        if let Ok(mut g) = CUR.lock() {
            *g = Some((check.to_string(), clause.to_string(), input.to_string()));
        }
        TICK.fetch_add(1, Ordering::SeqCst);
    }
    pub fn leave() {
        if let Ok(mut g) = CUR.lock() {
            *g = None;
        }
        TICK.fetch_add(1, Ordering::SeqCst);
    }
}

/// report a violated clause (and mirror it for the watchdog, whose abort report would otherwise lose it)
fn fail(ctx: &mut Ctx, check: &str, clause: &str, input: &Value, observed: Value, expected: Value) {
    watchdog::record(json!({"check": check, "clause": clause, "input": input, "observed": observed, "expected": expected}));
    ctx.fail(check, clause, input, observed, expected);
}

// ------------------------------------------------------------------------------------------------
// oracles
// ------------------------------------------------------------------------------------------------
/// r[u][v] iff there is a directed path of length >= 1 from u to v
fn reach(m: &M) -> Vec<Vec<bool>> {
    let n = m.w.len();
    let mut r = vec![vec![false; n]; n];
    for e in 0..m.x.len() {
        for &u in &m.src[e] {
            for &v in &m.tgt[e] {
                r[u][v] = true;
            }
        }
    }
    for k in 0..n {
        for i in 0..n {
            if r[i][k] {
                for j in 0..n {
                    if r[k][j] {
                        r[i][j] = true;
                    }
                }
            }
        }
    }
    r
}

fn oracle_acyclic(m: &M) -> bool {
    let r = reach(m);
    (0..m.w.len()).all(|u| !r[u][u])
}

fn count_in(ls: &[Vec<usize>], v: usize) -> usize {
    let mut c = 0;
    for l in ls {
        for &u in l {
            if u == v {
                c += 1;
            }
        }
    }
    c
}

fn has_repeat(l: &[usize]) -> bool {
    for i in 0..l.len() {
        for j in 0..i {
            if l[i] == l[j] {
                return true;
            }
        }
    }
    false
}

/// (exclusive reading, inclusive reading)
fn oracle_monogamous(m: &M) -> (bool, bool) {
    if has_repeat(&m.s) || has_repeat(&m.t) {
        return (false, false);
    }
    let (mut strict, mut loose) = (true, true);
    for v in 0..m.w.len() {
        let indeg = count_in(&m.tgt, v);
        let outdeg = count_in(&m.src, v);
        let is_in = m.s.contains(&v);
        let is_out = m.t.contains(&v);
        let in_ok = if is_in { indeg == 0 } else { indeg == 1 };
        let out_ok = if is_out { outdeg == 0 } else { outdeg == 1 };
        strict = strict && in_ok && out_ok;
        let in_l = indeg == 1 || (indeg == 0 && is_in);
        let out_l = outdeg == 1 || (outdeg == 0 && is_out);
        loose = loose && in_l && out_l;
    }
    (strict, loose)
}

// ------------------------------------------------------------------------------------------------
// checks
// ------------------------------------------------------------------------------------------------
fn decode(input: &Value) -> Option<M> {
    let m = M::from_json(input.get("m")?)?;
    if m.valid() {
        Some(m)
    } else {
        None
    }
}

/// input: {"m": model}
fn chk_acyclic(ctx: &mut Ctx, input: &Value) {
    let m = match decode(input) {
        Some(m) => m,
        None => return,
    };
    let has_step = (0..m.x.len()).any(|e| !m.src[e].is_empty() && !m.tgt[e].is_empty());
    ctx.case("acyclic", input, has_step);
    watchdog::enter("acyclic", "C17.acyclic-total", input);
    let expected = oracle_acyclic(&m);
    if expected {
        ACYC_TRUE.fetch_add(1, Ordering::Relaxed);
    } else {
        ACYC_FALSE.fetch_add(1, Ordering::Relaxed);
    }
    let f = m.to_strict();
    // the hypergraph query
    match guard(|| f.h.is_acyclic()) {
        Err(p) => fail(ctx, "acyclic", "C17.acyclic-total", input, json!(format!("Hypergraph::is_acyclic panicked: {}", p)), json!(expected)),
        Ok(got) => {
            if got != expected {
                fail(ctx, "acyclic", "C17.acyclic-iff", input, json!({"Hypergraph::is_acyclic": got}), json!(expected));
            }
        }
    }
    // the open hypergraph query
    match guard(|| f.is_acyclic()) {
        Err(p) => fail(ctx, "acyclic", "C17.acyclic-total", input, json!(format!("OpenHypergraph::is_acyclic panicked: {}", p)), json!(expected)),
        Ok(got) => {
            if got != expected {
                fail(ctx, "acyclic", "C17.acyclic-iff", input, json!({"OpenHypergraph::is_acyclic": got}), json!(expected));
            }
        }
    }
}

/// input: {"m": model}
fn chk_monogamous(ctx: &mut Ctx, input: &Value) {
    let m = match decode(input) {
        Some(m) => m,
        None => return,
    };
    ctx.case("monogamous", input, !m.w.is_empty());
    watchdog::enter("monogamous", "C17.monogamous-total", input);
    let (expected, loose) = oracle_monogamous(&m);
    if expected != loose {
        AMBIGUOUS.fetch_add(1, Ordering::Relaxed);
    }
    if expected {
        MONO_TRUE.fetch_add(1, Ordering::Relaxed);
    }
    let f = m.to_strict();
    match guard(|| f.is_monogamous()) {
        Err(p) => fail(ctx, "monogamous", "C17.monogamous-total", input, json!(format!("is_monogamous panicked: {}", p)), json!(expected)),
        Ok(got) => {
            if got != expected {
                fail(ctx, "monogamous", "C17.monogamous-iff", input, json!(got), json!({"expected": expected, "inclusive_reading": loose}));
            }
        }
    }
}

/// input: {"m": model}   (every node index is queried)
fn chk_degrees(ctx: &mut Ctx, input: &Value) {
    let m = match decode(input) {
        Some(m) => m,
        None => return,
    };
    let has_inc = m.src.iter().chain(m.tgt.iter()).any(|l| !l.is_empty());
    ctx.case("degrees", input, !m.w.is_empty() && has_inc);
    watchdog::enter("degrees", "C17.degree-total", input);
    let f = m.to_strict();
    for v in 0..m.w.len() {
        let ein = count_in(&m.tgt, v);
        let eout = count_in(&m.src, v);
        match guard(|| f.h.in_degree(v)) {
            Err(p) => fail(ctx, "degrees", "C17.degree-total", input, json!({"node": v, "in_degree panicked": p}), json!(ein)),
            Ok(got) => {
                if got != ein {
                    fail(ctx, "degrees", "C17.in-degree-count", input, json!({"node": v, "in_degree": got}), json!(ein));
                }
            }
        }
        match guard(|| f.h.out_degree(v)) {
            Err(p) => fail(ctx, "degrees", "C17.degree-total", input, json!({"node": v, "out_degree panicked": p}), json!(eout)),
            Ok(got) => {
                if got != eout {
                    fail(ctx, "degrees", "C17.out-degree-count", input, json!({"node": v, "out_degree": got}), json!(eout));
                }
            }
        }
    }
}

fn all_checks(ctx: &mut Ctx, m: &M) {
    let input = json!({"m": m.json()});
    chk_acyclic(ctx, &input);
    chk_monogamous(ctx, &input);
    chk_degrees(ctx, &input);
}

// ------------------------------------------------------------------------------------------------
// generators
// ------------------------------------------------------------------------------------------------
fn perm(r: &mut Rng, n: usize) -> Vec<usize> {
    let mut p: Vec<usize> = (0..n).collect();
    for i in (1..n).rev() {
        let j = r.below(i + 1);
        p.swap(i, j);
    }
    p
}

fn shuffle<T>(r: &mut Rng, v: &mut Vec<T>) {
    for i in (1..v.len()).rev() {
        let j = r.below(i + 1);
        v.swap(i, j);
    }
}

/// rename node i to p[i] and put the hyperedges in a random order
fn scramble(r: &mut Rng, m: &M) -> M {
    let n = m.w.len();
    let p = perm(r, n);
    let mut w = vec![0u8; n];
    for i in 0..n {
        w[p[i]] = m.w[i];
    }
    let mp = |l: &Vec<usize>| l.iter().map(|&v| p[v]).collect::<Vec<_>>();
    let order = perm(r, m.x.len());
    M {
        w,
        x: order.iter().map(|&e| m.x[e]).collect(),
        src: order.iter().map(|&e| mp(&m.src[e])).collect(),
        tgt: order.iter().map(|&e| mp(&m.tgt[e])).collect(),
        s: mp(&m.s),
        t: mp(&m.t),
    }
}

/// all lists over 0..n of length <= maxlen
fn lists(n: usize, maxlen: usize) -> Vec<Vec<usize>> {
    let mut out = vec![vec![]];
    let mut last: Vec<Vec<usize>> = vec![vec![]];
    for _ in 0..maxlen {
        let mut next = vec![];
        for l in &last {
            for v in 0..n {
                let mut l2 = l.clone();
                l2.push(v);
                next.push(l2);
            }
        }
        out.extend(next.iter().cloned());
        last = next;
    }
    out
}

/// every hypergraph with n nodes and exactly k hyperedges whose source/target lists come from `ls`
fn for_each_hypergraph(n: usize, k: usize, ls: &[Vec<usize>], f: &mut dyn FnMut(&M)) {
    let mut idx = vec![0usize; 2 * k];
    loop {
        let m = M {
            w: vec![0; n],
            x: vec![10; k],
            src: (0..k).map(|e| ls[idx[2 * e]].clone()).collect(),
            tgt: (0..k).map(|e| ls[idx[2 * e + 1]].clone()).collect(),
            s: vec![],
            t: vec![],
        };
        f(&m);
        // odometer
        let mut p = 0;
        loop {
            if p == idx.len() {
                return;
            }
            idx[p] += 1;
            if idx[p] < ls.len() {
                break;
            }
            idx[p] = 0;
            p += 1;
        }
    }
}

/// a monogamous diagram by construction: every node is produced once (or is an input) and consumed
/// once (or is an output); `feedback` edges turn an output/input pair into a (possibly cyclic) wire
fn gen_monogamous(r: &mut Rng, max_edges: usize) -> M {
    let mut m = M::empty();
    let mut avail: Vec<usize> = vec![];
    let ni = r.range(0, 3);
    for _ in 0..ni {
        m.w.push(r.below(2) as u8);
        avail.push(m.w.len() - 1);
    }
    m.s = avail.clone();
    let k = r.range(0, max_edges);
    for _ in 0..k {
        let a = r.range(0, avail.len().min(3));
        let mut ss = vec![];
        for _ in 0..a {
            let i = r.below(avail.len());
            ss.push(avail.swap_remove(i));
        }
        let b = r.range(0, 3);
        let mut tt = vec![];
        for _ in 0..b {
            m.w.push(r.below(2) as u8);
            tt.push(m.w.len() - 1);
        }
        avail.extend(tt.iter().cloned());
        m.x.push(10 + r.below(2) as u8);
        m.src.push(ss);
        m.tgt.push(tt);
    }
    m.t = avail;
    shuffle(r, &mut m.t);
    shuffle(r, &mut m.s);
    // feedback wires
    let fb = r.below(3);
    for _ in 0..fb {
        if m.s.is_empty() || m.t.is_empty() {
            break;
        }
        let u = m.s.swap_remove(r.below(m.s.len()));
        let v = m.t.swap_remove(r.below(m.t.len()));
        m.x.push(12);
        m.src.push(vec![v]);
        m.tgt.push(vec![u]);
    }
    scramble(r, &m)
}

fn mutate(r: &mut Rng, m: &mut M) {
    let n = m.w.len();
    match r.below(11) {
        0 => {
            if !m.s.is_empty() {
                let v = m.s[r.below(m.s.len())];
                let at = r.below(m.s.len() + 1);
                m.s.insert(at, v);
            }
        }
        1 => {
            if !m.t.is_empty() {
                let v = m.t[r.below(m.t.len())];
                let at = r.below(m.t.len() + 1);
                m.t.insert(at, v);
            }
        }
        2 => {
            if !m.s.is_empty() {
                m.s.remove(r.below(m.s.len()));
            }
        }
        3 => {
            if !m.t.is_empty() {
                m.t.remove(r.below(m.t.len()));
            }
        }
        4 => m.w.push(0), // isolated node off the interfaces
        5 => {
            // isolated node on both interfaces (a bare wire): stays monogamous
            m.w.push(1);
            m.s.push(n);
            m.t.push(n);
        }
        6 => {
            if !m.x.is_empty() && n > 0 {
                let e = r.below(m.x.len());
                let v = r.below(n);
                if r.chance(1, 2) {
                    m.src[e].push(v)
                } else {
                    m.tgt[e].push(v)
                }
            }
        }
        7 => {
            if !m.x.is_empty() && n > 0 {
                let e = r.below(m.x.len());
                let l = if r.chance(1, 2) { &mut m.src[e] } else { &mut m.tgt[e] };
                if !l.is_empty() {
                    let i = r.below(l.len());
                    l[i] = r.below(n);
                }
            }
        }
        8 => {
            if n > 0 {
                let v = r.below(n);
                if r.chance(1, 2) {
                    m.s.push(v)
                } else {
                    m.t.push(v)
                }
            }
        }
        9 => {
            // dangling node: on one interface only, touched by nothing
            m.w.push(0);
            if r.chance(1, 2) {
                m.s.push(n)
            } else {
                m.t.push(n)
            }
        }
        _ => {
            // drop an incidence
            if !m.x.is_empty() {
                let e = r.below(m.x.len());
                let l = if r.chance(1, 2) { &mut m.src[e] } else { &mut m.tgt[e] };
                if !l.is_empty() {
                    let i = r.below(l.len());
                    l.remove(i);
                }
            }
        }
    }
}

/// hyperedges only go "upwards" in a hidden ranking: acyclic by construction; optional extras
fn gen_dag(r: &mut Rng, max_nodes: usize, max_edges: usize, max_arity: usize) -> M {
    let n = r.range(1, max_nodes);
    let k = r.range(0, max_edges);
    let mut m = M { w: (0..n).map(|_| r.below(2) as u8).collect(), ..M::empty() };
    for _ in 0..k {
        let cut = r.range(0, n); // sources below cut, targets at or above
        let a = if cut == 0 { 0 } else { r.range(0, max_arity) };
        let b = if cut == n { 0 } else { r.range(0, max_arity) };
        m.x.push(10);
        m.src.push((0..a).map(|_| r.below(cut)).collect());
        m.tgt.push((0..b).map(|_| cut + r.below(n - cut)).collect());
    }
    // interfaces: arbitrary
    let (ls, lt) = (r.range(0, 3), r.range(0, 3));
    m.s = r.vec_below(ls, n);
    m.t = r.vec_below(lt, n);
    m
}

/// a chain v0 -> v1 -> ... -> v(len) of unary hyperedges, plus extras
fn gen_chain(r: &mut Rng, len: usize, close_to: Option<usize>, isolated: usize, mult: usize) -> M {
    let n = len + 1;
    let mut m = M { w: vec![0; n + isolated], ..M::empty() };
    for i in 0..len {
        m.x.push(10);
        m.src.push(vec![i; mult]);
        m.tgt.push(vec![i + 1; mult]);
    }
    if let Some(j) = close_to {
        m.x.push(11);
        m.src.push(vec![len]);
        m.tgt.push(vec![j.min(len)]);
    }
    m.s = vec![0];
    m.t = vec![len];
    scramble(r, &m)
}

/// few nodes, connections of high multiplicity (repeated incidences and parallel hyperedges)
fn gen_fat(r: &mut Rng) -> M {
    let n = r.range(1, 3);
    let k = r.range(1, 4);
    let mut m = M { w: vec![0; n], ..M::empty() };
    let forward_only = r.chance(1, 2);
    for _ in 0..k {
        let (mut a, mut b) = (r.below(n), r.below(n));
        if forward_only && n > 1 {
            // keep it acyclic: a < b
            while a == b {
                b = r.below(n);
            }
            if a > b {
                std::mem::swap(&mut a, &mut b);
            }
        }
        let p = r.range(0, 7);
        let q = r.range(0, 7);
        m.x.push(10);
        m.src.push(vec![a; p]);
        m.tgt.push(vec![b; q]);
    }
    let (ls, lt) = (r.range(0, 2), r.range(0, 2));
    m.s = r.vec_below(ls, n);
    m.t = r.vec_below(lt, n);
    m
}

const LARGE: Bounds = Bounds { nodes: 8, edges: 6, arity: 4, iface: 5, labels: 2 };

fn own_corners() -> Vec<M> {
    let e = M::empty;
    vec![
        // nodes only, nothing else (isolated nodes, not on any interface)
        M { w: vec![0, 0, 0], ..e() },
        // one isolated node next to a monogamous operation
        M { w: vec![0, 1, 0], x: vec![10], src: vec![vec![0]], tgt: vec![vec![1]], s: vec![0], t: vec![1], ..e() },
        // isolated node that is a bare wire (monogamous)
        M { w: vec![0, 1, 0], x: vec![10], src: vec![vec![0]], tgt: vec![vec![1]], s: vec![0, 2], t: vec![2, 1], ..e() },
        // dangling: input only
        M { w: vec![0], s: vec![0], ..e() },
        // dangling: output only
        M { w: vec![0], t: vec![0], ..e() },
        // self loop on an interior node: monogamous and cyclic
        M { w: vec![0], x: vec![10], src: vec![vec![0]], tgt: vec![vec![0]], ..e() },
        // interface node with degree 1 on the same side (exclusive vs inclusive reading)
        M { w: vec![0], x: vec![10], src: vec![vec![0]], tgt: vec![vec![0]], s: vec![0], t: vec![0], ..e() },
        M { w: vec![0, 1], x: vec![10], src: vec![vec![0]], tgt: vec![vec![1]], s: vec![0, 1], t: vec![1], ..e() },
        // multiplicity 3, 5, 9 between two nodes
        M { w: vec![0, 0], x: vec![10], src: vec![vec![0, 0, 0]], tgt: vec![vec![1]], s: vec![0], t: vec![1], ..e() },
        M { w: vec![0, 0], x: vec![10], src: vec![vec![0]], tgt: vec![vec![1, 1, 1, 1, 1]], s: vec![0], t: vec![1], ..e() },
        M { w: vec![0, 0], x: vec![10], src: vec![vec![0, 0, 0]], tgt: vec![vec![1, 1, 1]], s: vec![0], t: vec![1], ..e() },
        // five parallel unary hyperedges 0 -> 1
        M { w: vec![0, 0], x: vec![10; 5], src: vec![vec![0]; 5], tgt: vec![vec![1]; 5], s: vec![0], t: vec![1], ..e() },
        // parallel + repeated, with an isolated node, and the reverse edge making a cycle
        M { w: vec![0, 0, 0], x: vec![10; 4], src: vec![vec![0, 0], vec![0, 0], vec![0], vec![1]], tgt: vec![vec![1, 1], vec![1, 1, 1], vec![1], vec![0]], ..e() },
        // zero-arity hyperedges with and without nodes
        M { w: vec![0], x: vec![10, 10], src: vec![vec![], vec![]], tgt: vec![vec![], vec![]], s: vec![0], t: vec![0], ..e() },
        M { x: vec![10, 11, 10], src: vec![vec![]; 3], tgt: vec![vec![]; 3], ..e() },
        // sources-only and targets-only hyperedges
        M { w: vec![0, 0], x: vec![10, 11], src: vec![vec![0], vec![]], tgt: vec![vec![], vec![1]], s: vec![0], t: vec![1], ..e() },
        M { w: vec![0, 0], x: vec![10, 11], src: vec![vec![0, 1], vec![]], tgt: vec![vec![], vec![0, 1]], ..e() },
        // diamond: 0 -> {1,2}, 1 -> 3, 2 -> 3' with join through a binary op
        M { w: vec![0; 4], x: vec![10, 11, 12], src: vec![vec![0], vec![1], vec![2, 3]], tgt: vec![vec![1, 2], vec![3], vec![]], s: vec![0], ..e() },
        // node reachable along paths of different length: 0->1, 1->2, 0->2, 2->3
        M { w: vec![0; 4], x: vec![10; 4], src: vec![vec![0], vec![1], vec![0], vec![2]], tgt: vec![vec![1], vec![2], vec![2], vec![3]], s: vec![0], t: vec![3], ..e() },
        // a cycle not reachable from any root, next to an acyclic part
        M { w: vec![0; 5], x: vec![10; 4], src: vec![vec![0], vec![2], vec![3], vec![4]], tgt: vec![vec![1], vec![3], vec![4], vec![2]], s: vec![0], t: vec![1], ..e() },
        // a cycle downstream of a root, with a tail hanging off the cycle
        M { w: vec![0; 5], x: vec![10; 5], src: vec![vec![0], vec![1], vec![2], vec![3], vec![2]], tgt: vec![vec![1], vec![2], vec![3], vec![1], vec![4]], s: vec![0], t: vec![4], ..e() },
        // hyperedge whose source and target lists share a node among others
        M { w: vec![0; 3], x: vec![10], src: vec![vec![0, 1]], tgt: vec![vec![2, 1]], s: vec![0], t: vec![2], ..e() },
        // 2-cycle through binary hyperedges
        M { w: vec![0; 4], x: vec![10, 11], src: vec![vec![0, 1], vec![2, 3]], tgt: vec![vec![2, 2], vec![3, 0]], ..e() },
        // swap-like monogamous diagram with non-monotone interfaces
        M { w: vec![0, 1, 0, 1], x: vec![10], src: vec![vec![1, 0]], tgt: vec![vec![3, 2]], s: vec![1, 0], t: vec![2, 3], ..e() },
    ]
}

pub fn run(ctx: &mut Ctx) {
    watchdog::start(&ctx.property, &ctx.tier, ctx.seed, ctx.replay.is_some());
    if let Some((name, input)) = ctx.replay.clone() {
        for (n, c) in CHECKS {
            if *n == name {
                c(ctx, &input);
            }
        }
        watchdog::leave();
        return;
    }
    let thorough = ctx.thorough();

    // (a) corner cases
    for m in corner_models().iter().chain(own_corners().iter()) {
        all_checks(ctx, m);
    }

    // (b1) exhaustive hypergraphs (interfaces empty): acyclicity + degrees (+ monogamy, cheap)
    for n in 0..=3usize {
        let ls = lists(n, 2);
        for k in 0..=2usize {
            for_each_hypergraph(n, k, &ls, &mut |m| all_checks(ctx, m));
        }
    }
    // simple digraphs (unary hyperedges): 3 arcs on <= 3 nodes (quick), 3 arcs on 4 nodes and 4 arcs on 3 nodes (thorough)
    {
        let cells: &[(usize, usize)] = if thorough { &[(2, 3), (3, 3), (4, 3), (3, 4)] } else { &[(2, 3), (3, 3)] };
        for &(n, k) in cells {
            let unary: Vec<Vec<usize>> = (0..n).map(|v| vec![v]).collect();
            for_each_hypergraph(n, k, &unary, &mut |m| {
                let input = json!({"m": m.json()});
                chk_acyclic(ctx, &input);
            });
        }
    }
    // (b2) exhaustive open hypergraphs: monogamy with all interface lists
    {
        let cells: &[(usize, usize, usize, usize)] = if thorough {
            // (nodes, edges, arity, interface length)
            &[(0, 1, 0, 0), (1, 1, 2, 3), (1, 2, 1, 2), (2, 1, 2, 3), (2, 2, 2, 2), (3, 1, 2, 3), (3, 2, 1, 2)]
        } else {
            &[(0, 1, 0, 0), (1, 1, 2, 3), (1, 2, 1, 2), (2, 1, 2, 3), (2, 2, 1, 2), (3, 1, 2, 2), (3, 2, 1, 2)]
        };
        for &(n, kmax, ar, il) in cells {
            let ls = lists(n, ar);
            let ifs = lists(n, il);
            for k in 0..=kmax {
                let mut hs = vec![];
                for_each_hypergraph(n, k, &ls, &mut |m| hs.push(m.clone()));
                for h in &hs {
                    for s in &ifs {
                        for t in &ifs {
                            let mut m = h.clone();
                            m.s = s.clone();
                            m.t = t.clone();
                            chk_monogamous(ctx, &json!({"m": m.json()}));
                        }
                    }
                }
            }
        }
    }

    // (c) seeded random cases, one family per corner of the quantification
    let n = ctx.budget(6000, 300000);
    for i in 0..n {
        let m = match i % 6 {
            0 => {
                let b = [SMALL, MEDIUM, LARGE][ctx.rng.below(3)];
                random_model(&mut ctx.rng, b)
            }
            1 | 2 => {
                // monogamous by construction, then 0..2 small edits (near misses)
                let mut m = gen_monogamous(&mut ctx.rng, 5);
                let edits = ctx.rng.below(3);
                for _ in 0..edits {
                    mutate(&mut ctx.rng, &mut m);
                }
                m
            }
            3 => {
                // acyclic by construction, then possibly one edit (back edge, self loop, ...)
                let m = gen_dag(&mut ctx.rng, 8, 7, 3);
                let mut m = scramble(&mut ctx.rng, &m);
                if ctx.rng.chance(1, 2) {
                    mutate(&mut ctx.rng, &mut m);
                }
                if ctx.rng.chance(1, 4) {
                    let k = ctx.rng.below(3);
                    m.w.extend(std::iter::repeat(0).take(k)); // isolated nodes
                }
                m
            }
            4 => gen_fat(&mut ctx.rng),
            _ => {
                let len = ctx.rng.range(1, 12);
                let close = if ctx.rng.chance(1, 2) { Some(ctx.rng.below(len + 1)) } else { None };
                let iso = ctx.rng.below(3);
                let mult = ctx.rng.range(1, 3);
                gen_chain(&mut ctx.rng, len, close, iso, mult)
            }
        };
        all_checks(ctx, &m);
    }

    // long chains (the layering loop must run as many rounds as there are nodes), open or closed
    let lens: &[usize] = if thorough { &[16, 31, 32, 33, 48, 64, 65, 100] } else { &[17, 33, 64] };
    for &len in lens {
        for close in [None, Some(0), Some(len), Some(len / 2)] {
            for iso in [0usize, 2] {
                let m = gen_chain(&mut ctx.rng, len, close, iso, 1);
                all_checks(ctx, &m);
            }
        }
        // star: one node with `len` parallel consumers, and one hyperedge with `len` repeated incidences
        let star = M { w: vec![0; 2], x: vec![10; len], src: vec![vec![0]; len], tgt: vec![vec![1]; len], s: vec![0], t: vec![1] };
        all_checks(ctx, &star);
        let rep = M { w: vec![0; 3], x: vec![10], src: vec![vec![0; len]], tgt: vec![vec![1; len]], s: vec![0], t: vec![1, 2] };
        all_checks(ctx, &rep);
    }

    watchdog::leave();
    ctx.notes.push(format!(
        "rule: one plain model per input, all three queries (Hypergraph::is_acyclic + OpenHypergraph::is_acyclic, is_monogamous, in_degree/out_degree for every node) on the real strict structure. \
         exhaustive: all hypergraphs with <=3 nodes, <=2 hyperedges, source/target lists of length <=2; unary digraphs with 3 arcs on <=3 nodes (thorough: 3 arcs on 4 nodes, 4 arcs on 3 nodes); \
         monogamy over all interface lists: length <=3 for <=2 nodes/1 hyperedge (lists <=2), length <=2 for 2 nodes/2 unary hyperedges, 3 nodes/1 hyperedge (lists <=2), 3 nodes/2 unary hyperedges (thorough: 2 nodes/2 hyperedges with lists <=2, 3 nodes/1 hyperedge with interfaces <=3). random: models up to 8 nodes/6 edges/arity 4, monogamous-by-construction diagrams (<=5 ops + feedback wires) with 0-2 edits, \
         ranked DAGs with one edit, multiplicity up to 7x7 per hyperedge between <=3 nodes, chains up to 12 (random) and {} (fixed) nodes closed or open, stars/repetition up to that size. \
         non-trivial: acyclic = some hyperedge has a source and a target; monogamous = at least one node; degrees = a node and an incidence. \
         oracle outcomes: acyclic true {} / false {}; monogamous true {}; inputs where inclusive and exclusive reading of the monogamy clause differ: {} (exclusive reading required, as in the library's doc comment and own tests). \
         release profile has overflow-checks and debug-assertions on, so debug-only panics are visible here.",
        lens.last().unwrap() + 1,
        ACYC_TRUE.load(Ordering::Relaxed),
        ACYC_FALSE.load(Ordering::Relaxed),
        MONO_TRUE.load(Ordering::Relaxed),
        AMBIGUOUS.load(Ordering::Relaxed),
    ));
}
