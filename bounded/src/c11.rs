//! C11 — imperative editing of lax diagrams refines a plain list model (+ serde round trip and
//! the documented JSON field names).
//!
//! Oracle: the plain list model `L` below (Vec of node labels, Vec of edge labels, per-edge
//! ordered source/target lists, list of pending unification pairs, two interface lists).  Every
//! builder call is replayed on `L` by plain loops written from the property statement and the
//! complete library state (raw public fields) is compared with `L` after EVERY step; the
//! renumbering after a deletion is unique (monotone onto 0..k) so the comparison is exact
//! equality, not isomorphism.  Node/edge labels are (mostly) unique u16 tokens, so any mix-up of
//! items is visible in the labels.  Bounds: see the note pushed at the end of `run`.
use crate::ctx::{guard, Ctx, Rng};
use open_hypergraphs::lax;
use open_hypergraphs::lax::{EdgeId, Hyperedge, NodeId};
use serde_json::{json, Value};
use std::collections::BTreeSet;

type LO = lax::OpenHypergraph<u16, u16>;
type LH = lax::Hypergraph<u16, u16>;

type Check = fn(&mut Ctx, &Value);
const CHECKS: &[(&str, Check)] = &[
    ("script", chk_script),
    ("delete_nodes", chk_delete_nodes),
    ("delete_edges", chk_delete_edges),
    ("relabel", chk_relabel),
    ("serde", chk_serde),
    ("serde_readme", chk_serde_readme),
];

// ------------------------------------------------------------------------------------------------
// the plain list model
// ------------------------------------------------------------------------------------------------
#[derive(Clone, Debug, PartialEq, Eq)]
struct L {
    nodes: Vec<u16>,
    edges: Vec<u16>,
    src: Vec<Vec<usize>>,
    tgt: Vec<Vec<usize>>,
    ql: Vec<usize>,
    qr: Vec<usize>,
    s: Vec<usize>,
    t: Vec<usize>,
}

fn us(v: &Value) -> Option<Vec<usize>> {
    v.as_array()?.iter().map(|x| x.as_u64().map(|y| y as usize)).collect()
}
fn u16s(v: &Value) -> Option<Vec<u16>> {
    v.as_array()?.iter().map(|x| x.as_u64().and_then(|y| if y <= 65535 { Some(y as u16) } else { None })).collect()
}
fn uss(v: &Value) -> Option<Vec<Vec<usize>>> {
    v.as_array()?.iter().map(us).collect()
}
fn u16v(v: &Value) -> Option<u16> {
    v.as_u64().and_then(|y| if y <= 65535 { Some(y as u16) } else { None })
}
fn usv(v: &Value) -> Option<usize> {
    v.as_u64().map(|y| y as usize)
}

impl L {
    fn empty() -> L {
        L { nodes: vec![], edges: vec![], src: vec![], tgt: vec![], ql: vec![], qr: vec![], s: vec![], t: vec![] }
    }
    fn json(&self) -> Value {
        json!({"nodes": self.nodes, "edges": self.edges, "src": self.src, "tgt": self.tgt, "q": [self.ql, self.qr], "s": self.s, "t": self.t})
    }
    fn from_json(v: &Value) -> Option<L> {
        if v.is_null() {
            return Some(L::empty());
        }
        let q = v.get("q")?.as_array()?;
        if q.len() != 2 {
            return None;
        }
        Some(L {
            nodes: u16s(v.get("nodes")?)?,
            edges: u16s(v.get("edges")?)?,
            src: uss(v.get("src")?)?,
            tgt: uss(v.get("tgt")?)?,
            ql: us(&q[0])?,
            qr: us(&q[1])?,
            s: us(v.get("s")?)?,
            t: us(v.get("t")?)?,
        })
    }
    fn valid(&self) -> bool {
        let n = self.nodes.len();
        self.src.len() == self.edges.len()
            && self.tgt.len() == self.edges.len()
            && self.ql.len() == self.qr.len()
            && self.src.iter().chain(self.tgt.iter()).all(|l| l.iter().all(|&v| v < n))
            && self.s.iter().chain(self.t.iter()).chain(self.ql.iter()).chain(self.qr.iter()).all(|&v| v < n)
    }
    fn is_empty(&self) -> bool {
        self.nodes.is_empty() && self.edges.is_empty()
    }
    fn without_interface(&self) -> L {
        let mut m = self.clone();
        m.s = vec![];
        m.t = vec![];
        m
    }
    /// build the library value by writing the raw public fields (no builder call involved)
    fn to_hyper(&self) -> LH {
        let mut h = LH::empty();
        h.nodes = self.nodes.clone();
        h.edges = self.edges.clone();
        h.adjacency = (0..self.src.len().max(self.tgt.len()))
            .map(|e| Hyperedge { sources: nid(self.src.get(e).map(|v| &v[..]).unwrap_or(&[])), targets: nid(self.tgt.get(e).map(|v| &v[..]).unwrap_or(&[])) })
            .collect();
        h.quotient = (nid(&self.ql), nid(&self.qr));
        h
    }
    fn to_open(&self) -> LO {
        let mut f = LO::empty();
        f.hypergraph = self.to_hyper();
        f.sources = nid(&self.s);
        f.targets = nid(&self.t);
        f
    }
}

fn nid(v: &[usize]) -> Vec<NodeId> {
    v.iter().map(|&i| NodeId(i)).collect()
}
fn eid(v: &[usize]) -> Vec<EdgeId> {
    v.iter().map(|&i| EdgeId(i)).collect()
}
fn un(v: &[NodeId]) -> Vec<usize> {
    v.iter().map(|n| n.0).collect()
}

/// read the raw public fields of the library value
fn obs_hyper(h: &LH) -> L {
    L {
        nodes: h.nodes.clone(),
        edges: h.edges.clone(),
        src: h.adjacency.iter().map(|e| un(&e.sources)).collect(),
        tgt: h.adjacency.iter().map(|e| un(&e.targets)).collect(),
        ql: un(&h.quotient.0),
        qr: un(&h.quotient.1),
        s: vec![],
        t: vec![],
    }
}
fn obs_open(f: &LO) -> L {
    let mut m = obs_hyper(&f.hypergraph);
    m.s = un(&f.sources);
    m.t = un(&f.targets);
    m
}

// ------------------------------------------------------------------------------------------------
// builder steps
// ------------------------------------------------------------------------------------------------
#[derive(Clone, Debug, PartialEq)]
enum Op {
    NewNode(u16),
    NewEdge(u16, Vec<usize>, Vec<usize>),
    NewOperation(u16, Vec<u16>, Vec<u16>),
    AddSource(usize, u16),
    AddTarget(usize, u16),
    Unify(usize, usize),
    /// bool: use the witness-returning variant (hypergraph level)
    DeleteNodes(Vec<usize>, bool),
    /// bool: use the deprecated alias `delete_edge` (hypergraph level)
    DeleteEdges(Vec<usize>, bool),
    WithNodes(Vec<u16>),
    MapNodes(u16),
    WithEdges(Vec<u16>),
    MapEdges(u16),
    /// append to the two interface lists (open level only; plain field writes)
    PushInterface(Vec<usize>, Vec<usize>),
}

impl Op {
    fn name(&self) -> &'static str {
        match self {
            Op::NewNode(..) => "new-node",
            Op::NewEdge(..) => "new-edge",
            Op::NewOperation(..) => "new-operation",
            Op::AddSource(..) => "add-edge-source",
            Op::AddTarget(..) => "add-edge-target",
            Op::Unify(..) => "unify",
            Op::DeleteNodes(..) => "delete-nodes",
            Op::DeleteEdges(..) => "delete-edges",
            Op::WithNodes(..) => "with-nodes",
            Op::MapNodes(..) => "map-nodes",
            Op::WithEdges(..) => "with-edges",
            Op::MapEdges(..) => "map-edges",
            Op::PushInterface(..) => "push-interface",
        }
    }
    fn json(&self) -> Value {
        match self {
            Op::NewNode(w) => json!(["new_node", w]),
            Op::NewEdge(x, s, t) => json!(["new_edge", x, s, t]),
            Op::NewOperation(x, s, t) => json!(["new_operation", x, s, t]),
            Op::AddSource(e, w) => json!(["add_edge_source", e, w]),
            Op::AddTarget(e, w) => json!(["add_edge_target", e, w]),
            Op::Unify(v, w) => json!(["unify", v, w]),
            Op::DeleteNodes(ids, false) => json!(["delete_nodes", ids]),
            Op::DeleteNodes(ids, true) => json!(["delete_nodes_witness", ids]),
            Op::DeleteEdges(ids, false) => json!(["delete_edges", ids]),
            Op::DeleteEdges(ids, true) => json!(["delete_edge", ids]),
            Op::WithNodes(v) => json!(["with_nodes", v]),
            Op::MapNodes(d) => json!(["map_nodes", d]),
            Op::WithEdges(v) => json!(["with_edges", v]),
            Op::MapEdges(d) => json!(["map_edges", d]),
            Op::PushInterface(s, t) => json!(["push_interface", s, t]),
        }
    }
    fn from_json(v: &Value) -> Option<Op> {
        let a = v.as_array()?;
        let name = a.first()?.as_str()?;
        let g = |i: usize| a.get(i);
        Some(match name {
            "new_node" => Op::NewNode(u16v(g(1)?)?),
            "new_edge" => Op::NewEdge(u16v(g(1)?)?, us(g(2)?)?, us(g(3)?)?),
            "new_operation" => Op::NewOperation(u16v(g(1)?)?, u16s(g(2)?)?, u16s(g(3)?)?),
            "add_edge_source" => Op::AddSource(usv(g(1)?)?, u16v(g(2)?)?),
            "add_edge_target" => Op::AddTarget(usv(g(1)?)?, u16v(g(2)?)?),
            "unify" => Op::Unify(usv(g(1)?)?, usv(g(2)?)?),
            "delete_nodes" => Op::DeleteNodes(us(g(1)?)?, false),
            "delete_nodes_witness" => Op::DeleteNodes(us(g(1)?)?, true),
            "delete_edges" => Op::DeleteEdges(us(g(1)?)?, false),
            "delete_edge" => Op::DeleteEdges(us(g(1)?)?, true),
            "with_nodes" => Op::WithNodes(u16s(g(1)?)?),
            "map_nodes" => Op::MapNodes(u16v(g(1)?)?),
            "with_edges" => Op::WithEdges(u16s(g(1)?)?),
            "map_edges" => Op::MapEdges(u16v(g(1)?)?),
            "push_interface" => Op::PushInterface(us(g(1)?)?, us(g(2)?)?),
            _ => return None,
        })
    }
}

/// the relabelling function used by map_nodes / map_edges (injective on u16)
fn relabel_fn(x: u16, d: u16) -> u16 {
    x.wrapping_mul(7).wrapping_add(d)
}

/// what the model says a step returns
#[derive(Clone, Debug, PartialEq)]
enum Exp {
    Node(usize),
    Edge(usize),
    Operation(usize, Vec<usize>, Vec<usize>),
    Unit,
    /// deletion of nodes: the reported renumbering
    Witness(Vec<Option<usize>>),
    /// deletion with an out-of-range identifier: the call must be rejected
    Reject,
    /// relabelling: None because of a length mismatch / Some
    RelabelNone,
    Relabeled,
}

/// are the arguments of a non-deleting step inside the domain of the property (valid identifiers)?
fn op_in_domain(m: &L, op: &Op, open: bool) -> bool {
    let n = m.nodes.len();
    let k = m.edges.len();
    match op {
        Op::NewEdge(_, s, t) => s.iter().chain(t.iter()).all(|&v| v < n),
        Op::AddSource(e, _) | Op::AddTarget(e, _) => *e < k,
        Op::Unify(v, w) => *v < n && *w < n,
        Op::PushInterface(s, t) => open && s.iter().chain(t.iter()).all(|&v| v < n),
        _ => true,
    }
}

/// deleting nodes on the list model, straight from the statement.  None = rejected.
fn model_delete_nodes(m: &L, ids: &[usize]) -> Option<(L, Vec<Option<usize>>)> {
    let n = m.nodes.len();
    // rejects out-of-range identifiers
    for &i in ids {
        if i >= n {
            return None;
        }
    }
    // exactly the named items go (naming an item twice is the same as naming it once)
    let named = |i: usize| ids.iter().any(|&j| j == i);
    // survivors are renumbered monotonically: a survivor's new number is the number of survivors before it
    let mut renum: Vec<Option<usize>> = vec![None; n];
    let mut nodes = vec![];
    for i in 0..n {
        if !named(i) {
            renum[i] = Some(nodes.len());
            nodes.push(m.nodes[i]);
        }
    }
    // hyperedge references and interface entries that mention a deleted node are dropped, the rest renumbered
    let keep = |l: &Vec<usize>| -> Vec<usize> {
        let mut out = vec![];
        for &v in l {
            if let Some(j) = renum[v] {
                out.push(j);
            }
        }
        out
    };
    // a pending unification that mentions a deleted node (on either side) is dropped
    let mut ql = vec![];
    let mut qr = vec![];
    for p in 0..m.ql.len() {
        match (renum[m.ql[p]], renum[m.qr[p]]) {
            (Some(a), Some(b)) => {
                ql.push(a);
                qr.push(b);
            }
            _ => {}
        }
    }
    let out = L {
        nodes,
        edges: m.edges.clone(), // nothing else is touched: every hyperedge stays, even if it lost all its nodes
        src: m.src.iter().map(keep).collect(),
        tgt: m.tgt.iter().map(keep).collect(),
        ql,
        qr,
        s: keep(&m.s),
        t: keep(&m.t),
    };
    Some((out, renum))
}

/// deleting hyperedges on the list model.  None = rejected.
fn model_delete_edges(m: &L, ids: &[usize]) -> Option<L> {
    let k = m.edges.len();
    for &i in ids {
        if i >= k {
            return None;
        }
    }
    let mut out = m.clone();
    out.edges = vec![];
    out.src = vec![];
    out.tgt = vec![];
    for e in 0..k {
        if !ids.contains(&e) {
            out.edges.push(m.edges[e]);
            out.src.push(m.src[e].clone());
            out.tgt.push(m.tgt[e].clone());
        }
    }
    Some(out)
}

/// one step on the list model; returns what the call must return
fn model_step(m: &mut L, op: &Op) -> Exp {
    match op {
        Op::NewNode(w) => {
            m.nodes.push(*w);
            Exp::Node(m.nodes.len() - 1)
        }
        Op::NewEdge(x, s, t) => {
            m.edges.push(*x);
            m.src.push(s.clone());
            m.tgt.push(t.clone());
            Exp::Edge(m.edges.len() - 1)
        }
        Op::NewOperation(x, a, b) => {
            let mut s = vec![];
            let mut t = vec![];
            for &l in a {
                s.push(m.nodes.len());
                m.nodes.push(l);
            }
            for &l in b {
                t.push(m.nodes.len());
                m.nodes.push(l);
            }
            m.edges.push(*x);
            m.src.push(s.clone());
            m.tgt.push(t.clone());
            Exp::Operation(m.edges.len() - 1, s, t)
        }
        Op::AddSource(e, w) => {
            m.nodes.push(*w);
            let id = m.nodes.len() - 1;
            m.src[*e].push(id);
            Exp::Node(id)
        }
        Op::AddTarget(e, w) => {
            m.nodes.push(*w);
            let id = m.nodes.len() - 1;
            m.tgt[*e].push(id);
            Exp::Node(id)
        }
        Op::Unify(v, w) => {
            m.ql.push(*v);
            m.qr.push(*w);
            Exp::Unit
        }
        Op::DeleteNodes(ids, _) => match model_delete_nodes(m, ids) {
            None => Exp::Reject,
            Some((out, w)) => {
                *m = out;
                Exp::Witness(w)
            }
        },
        Op::DeleteEdges(ids, _) => match model_delete_edges(m, ids) {
            None => Exp::Reject,
            Some(out) => {
                *m = out;
                Exp::Unit
            }
        },
        Op::WithNodes(v) => {
            if v.len() == m.nodes.len() {
                m.nodes = v.clone();
                Exp::Relabeled
            } else {
                Exp::RelabelNone
            }
        }
        Op::MapNodes(d) => {
            for x in m.nodes.iter_mut() {
                *x = relabel_fn(*x, *d);
            }
            Exp::Relabeled
        }
        Op::WithEdges(v) => {
            if v.len() == m.edges.len() {
                m.edges = v.clone();
                Exp::Relabeled
            } else {
                Exp::RelabelNone
            }
        }
        Op::MapEdges(d) => {
            for x in m.edges.iter_mut() {
                *x = relabel_fn(*x, *d);
            }
            Exp::Relabeled
        }
        Op::PushInterface(s, t) => {
            m.s.extend(s.iter().cloned());
            m.t.extend(t.iter().cloned());
            Exp::Unit
        }
    }
}

// ------------------------------------------------------------------------------------------------
// the same step on the real library
// ------------------------------------------------------------------------------------------------
#[derive(Clone)]
enum Lib {
    Open(LO),
    Hyper(LH),
}
impl Lib {
    fn observe(&self) -> L {
        match self {
            Lib::Open(f) => obs_open(f),
            Lib::Hyper(h) => obs_hyper(h),
        }
    }
}

#[derive(Clone, Debug)]
enum Got {
    Node(usize),
    Edge(usize),
    Operation(usize, Vec<usize>, Vec<usize>),
    Unit,
    /// witness (if the variant reports one) and, at open level, the state of a copy of the inner
    /// hypergraph on which the witness-reporting variant was run
    Deleted(Option<Vec<Option<usize>>>, Option<L>),
    /// relabelling refused; the labels handed to the closure
    RelabelNone(Vec<u16>),
    Relabeled(Option<Vec<u16>>),
}

macro_rules! both {
    ($lib:expr, $g:ident => $e:expr) => {
        match $lib {
            Lib::Open($g) => $e,
            Lib::Hyper($g) => $e,
        }
    };
}

#[allow(deprecated)]
fn lib_step(lib: &mut Lib, op: &Op) -> Result<Got, String> {
    guard(move || match op {
        Op::NewNode(w) => Got::Node(both!(lib, g => g.new_node(*w).0)),
        Op::NewEdge(x, s, t) => match lib {
            // both ways of passing the interface: the tuple conversion and the struct itself
            Lib::Open(g) => Got::Edge(g.new_edge(*x, (nid(s), nid(t))).0),
            Lib::Hyper(g) => Got::Edge(g.new_edge(*x, Hyperedge { sources: nid(s), targets: nid(t) }).0),
        },
        Op::NewOperation(x, a, b) => {
            let (e, (s, t)) = both!(lib, g => g.new_operation(*x, a.clone(), b.clone()));
            Got::Operation(e.0, un(&s), un(&t))
        }
        Op::AddSource(e, w) => Got::Node(both!(lib, g => g.add_edge_source(EdgeId(*e), *w).0)),
        Op::AddTarget(e, w) => Got::Node(both!(lib, g => g.add_edge_target(EdgeId(*e), *w).0)),
        Op::Unify(v, w) => {
            both!(lib, g => g.unify(NodeId(*v), NodeId(*w)));
            Got::Unit
        }
        Op::DeleteNodes(ids, witness) => match lib {
            Lib::Open(f) => {
                // the open level reports nothing; run the reporting variant on a copy of the inner hypergraph
                let mut copy = f.hypergraph.clone();
                f.delete_nodes(&nid(ids));
                let w = copy.delete_nodes_witness(&nid(ids));
                Got::Deleted(Some(w), Some(obs_hyper(&copy)))
            }
            Lib::Hyper(h) => {
                if *witness {
                    Got::Deleted(Some(h.delete_nodes_witness(&nid(ids))), None)
                } else {
                    h.delete_nodes(&nid(ids));
                    Got::Deleted(None, None)
                }
            }
        },
        Op::DeleteEdges(ids, deprecated) => {
            match lib {
                Lib::Open(f) => f.delete_edges(&eid(ids)),
                Lib::Hyper(h) => {
                    if *deprecated {
                        h.delete_edge(&eid(ids))
                    } else {
                        h.delete_edges(&eid(ids))
                    }
                }
            }
            Got::Unit
        }
        Op::WithNodes(v) => {
            let mut arg = vec![];
            both!(lib, g => match g.clone().with_nodes(|old| { arg = old; v.clone() }) {
                Some(r) => { *g = r; Got::Relabeled(Some(arg)) }
                None => Got::RelabelNone(arg),
            })
        }
        Op::MapNodes(d) => {
            both!(lib, g => *g = g.clone().map_nodes(|x| relabel_fn(x, *d)));
            Got::Relabeled(None)
        }
        Op::WithEdges(v) => {
            let mut arg = vec![];
            both!(lib, g => match g.clone().with_edges(|old| { arg = old; v.clone() }) {
                Some(r) => { *g = r; Got::Relabeled(Some(arg)) }
                None => Got::RelabelNone(arg),
            })
        }
        Op::MapEdges(d) => {
            both!(lib, g => *g = g.clone().map_edges(|x| relabel_fn(x, *d)));
            Got::Relabeled(None)
        }
        Op::PushInterface(s, t) => {
            if let Lib::Open(f) = lib {
                f.sources.extend(nid(s));
                f.targets.extend(nid(t));
            }
            Got::Unit
        }
    })
}

// ------------------------------------------------------------------------------------------------
// comparing a step's outcome with the model, clause by clause
// ------------------------------------------------------------------------------------------------
fn sorted<T: Ord + Clone>(v: &[T]) -> Vec<T> {
    let mut w = v.to_vec();
    w.sort();
    w
}

/// the first clause violated by `obs` (library state after the step) against `exp` (model state)
fn state_clause(op: &Op, before: &L, exp: &L, obs: &L) -> Option<(String, String)> {
    if exp == obs {
        return None;
    }
    let p = op.name();
    let field = if exp.nodes != obs.nodes {
        "nodes"
    } else if exp.edges != obs.edges {
        "edges"
    } else if exp.src != obs.src {
        "adjacency.sources"
    } else if exp.tgt != obs.tgt {
        "adjacency.targets"
    } else if exp.s != obs.s {
        "sources"
    } else if exp.t != obs.t {
        "targets"
    } else {
        "quotient"
    };
    let clause = match op {
        Op::DeleteNodes(..) => match field {
            "nodes" => {
                if sorted(&exp.nodes) == sorted(&obs.nodes) {
                    "monotone-renumbering"
                } else {
                    "removes-exactly-named"
                }
            }
            "edges" => "touches-nothing-else",
            "adjacency.sources" | "adjacency.targets" => {
                if obs.src.len() != exp.src.len() || obs.tgt.len() != exp.tgt.len() {
                    "touches-nothing-else"
                } else {
                    "drops-edge-references"
                }
            }
            "sources" | "targets" => "drops-interface-entries",
            _ => "drops-pending-unifications",
        },
        Op::DeleteEdges(..) => match field {
            "edges" => {
                if sorted(&exp.edges) == sorted(&obs.edges) {
                    "monotone-renumbering"
                } else {
                    "removes-exactly-named"
                }
            }
            "adjacency.sources" | "adjacency.targets" => "removes-exactly-named",
            _ => "touches-nothing-else",
        },
        _ => {
            // a non-deleting step: every item that existed before keeps its identifier
            let keeps = obs.nodes.len() >= before.nodes.len()
                && obs.edges.len() >= before.edges.len()
                && (matches!(op, Op::WithNodes(..) | Op::MapNodes(..)) || obs.nodes[..before.nodes.len()] == before.nodes[..])
                && (matches!(op, Op::WithEdges(..) | Op::MapEdges(..)) || obs.edges[..before.edges.len()] == before.edges[..]);
            if !keeps {
                "ids-stay-valid"
            } else {
                "equals-list-model"
            }
        }
    };
    Some((format!("C11.{}.{}", p, clause), field.to_string()))
}

/// Replay `ops` from `init` on the library (at open or hypergraph level) and on the list model in
/// lockstep.  Reports the first violated clause and stops.  Returns the final model state if the
/// whole script ran without a violation and without a (correct) rejection.
fn run_script(ctx: &mut Ctx, check: &str, input: &Value, open: bool, init: &L, ops: &[Op]) -> Option<L> {
    let mut m = if open { init.clone() } else { init.without_interface() };
    let mut lib = if open {
        if m == L::empty() {
            Lib::Open(LO::empty())
        } else {
            Lib::Open(m.to_open())
        }
    } else if m == L::empty() {
        Lib::Hyper(LH::empty())
    } else {
        Lib::Hyper(m.to_hyper())
    };
    let lvl = if open { "open" } else { "hypergraph" };
    if lib.observe() != m {
        ctx.fail(check, "C11.empty.is-empty", input, lib.observe().json(), m.json());
        return None;
    }
    for (i, op) in ops.iter().enumerate() {
        if !op_in_domain(&m, op, open) {
            return None;
        }
        let before = m.clone();
        let exp = model_step(&mut m, op);
        let got = lib_step(&mut lib, op);
        let at = |v: Value| json!({"level": lvl, "step": i, "op": op.json(), "value": v});
        if exp == Exp::Reject {
            // the call must not return normally
            if let Ok(_) = got {
                ctx.fail(check, &format!("C11.{}.rejects-out-of-range", op.name()), input, at(json!({"returned-normally": lib.observe().json()})), json!("rejected (panic)"));
            }
            return None;
        }
        let got = match got {
            Err(p) => {
                ctx.fail(check, &format!("C11.{}.no-panic", op.name()), input, at(json!(format!("panic: {}", p))), json!({"returns": format!("{:?}", exp), "state": m.json()}));
                return None;
            }
            Ok(g) => g,
        };
        // returned identifiers / results
        let mut bad: Option<(&str, Value, Value)> = None;
        match (&exp, &got) {
            (Exp::Node(e), Got::Node(g)) | (Exp::Edge(e), Got::Edge(g)) => {
                if e != g {
                    bad = Some(("fresh-id", json!(g), json!(e)));
                }
            }
            (Exp::Operation(e, s, t), Got::Operation(ge, gs, gt)) => {
                let n0 = before.nodes.len();
                let n1 = m.nodes.len();
                let all: Vec<usize> = gs.iter().chain(gt.iter()).cloned().collect();
                let fresh = gs.len() == s.len()
                    && gt.len() == t.len()
                    && all.iter().all(|&v| v >= n0 && v < n1)
                    && all.iter().collect::<BTreeSet<_>>().len() == all.len()
                    && ge == e;
                if !fresh {
                    bad = Some(("fresh-ids", json!([ge, gs, gt]), json!([e, s, t])));
                } else if gs != s || gt != t {
                    bad = Some(("list-model-order", json!([ge, gs, gt]), json!([e, s, t])));
                }
            }
            (Exp::Unit, Got::Unit) => {}
            (Exp::Witness(w), Got::Deleted(gw, side)) => {
                if let Some(gw) = gw {
                    if gw != w {
                        bad = Some(("reports-renumbering", json!(gw), json!(w)));
                    }
                }
                if bad.is_none() {
                    if let Some(side) = side {
                        let want = m.without_interface();
                        if let Some((clause, field)) = state_clause(op, &before, &want, side) {
                            ctx.fail(check, &clause, input, at(json!({"variant": "Hypergraph::delete_nodes_witness on a copy", "field": field, "state": side.json()})), want.json());
                            return None;
                        }
                    }
                }
            }
            (Exp::RelabelNone, Got::RelabelNone(arg)) | (Exp::Relabeled, Got::Relabeled(Some(arg))) => {
                let want = if matches!(op, Op::WithNodes(..)) { &before.nodes } else { &before.edges };
                if arg != want {
                    bad = Some(("closure-receives-labels", json!(arg), json!(want)));
                }
            }
            (Exp::Relabeled, Got::Relabeled(None)) => {}
            (Exp::RelabelNone, Got::Relabeled(_)) => bad = Some(("length-mismatch-is-none", json!("Some"), json!("None"))),
            (Exp::Relabeled, Got::RelabelNone(_)) => bad = Some(("length-mismatch-is-none", json!("None"), json!("Some"))),
            _ => bad = Some(("result-kind", json!(format!("{:?}", got)), json!(format!("{:?}", exp)))),
        }
        if let Some((clause, o, e)) = bad {
            ctx.fail(check, &format!("C11.{}.{}", op.name(), clause), input, at(o), e);
            return None;
        }
        // the whole state
        let obs = lib.observe();
        if let Some((clause, field)) = state_clause(op, &before, &m, &obs) {
            ctx.fail(check, &clause, input, at(json!({"field": field, "state": obs.json()})), m.json());
            return None;
        }
    }
    Some(m)
}

/// pre-pass on the model only: is the script inside the property's domain, and is it non-trivial
/// (some deleting / relabelling / unifying / extending step hits a non-empty diagram)?
fn script_domain(open: bool, init: &L, ops: &[Op]) -> Option<bool> {
    if !init.valid() {
        return None;
    }
    let mut m = if open { init.clone() } else { init.without_interface() };
    let mut nontrivial = false;
    for op in ops {
        if !op_in_domain(&m, op, open) {
            return None;
        }
        if !m.is_empty() && !matches!(op, Op::NewNode(..) | Op::NewEdge(..) | Op::NewOperation(..)) {
            nontrivial = true;
        }
        if model_step(&mut m, op) == Exp::Reject {
            break;
        }
    }
    Some(nontrivial)
}

fn decode_ops(v: &Value) -> Option<Vec<Op>> {
    v.as_array()?.iter().map(Op::from_json).collect()
}

fn script_input(open: bool, init: &L, ops: &[Op]) -> Value {
    json!({"level": if open { "open" } else { "hypergraph" }, "init": init.json(), "ops": ops.iter().map(|o| o.json()).collect::<Vec<_>>()})
}

/// input: {"level": "open"|"hypergraph", "init": diagram (or null = empty), "ops": [step, ...]}
fn chk_script(ctx: &mut Ctx, input: &Value) {
    let open = match input["level"].as_str() {
        Some("open") => true,
        Some("hypergraph") => false,
        _ => return,
    };
    let (init, ops) = match (L::from_json(&input["init"]), decode_ops(&input["ops"])) {
        (Some(i), Some(o)) => (i, o),
        _ => return,
    };
    let nontrivial = match script_domain(open, &init, &ops) {
        Some(b) => b,
        None => return,
    };
    ctx.case("script", input, nontrivial);
    if let Some(fin) = run_script(ctx, "script", input, open, &init, &ops) {
        // the diagram reached by this history survives a JSON round trip and has the documented shape
        serde_clauses(ctx, "script", input, &fin, open);
    }
}

/// run one step from `init` at both levels under the name of a single-step check
fn one_step(ctx: &mut Ctx, check: &str, input: &Value, init: &L, ops_open: &[Op], ops_hyper: &[Op]) {
    if script_domain(true, init, ops_open).is_none() || script_domain(false, init, ops_hyper).is_none() {
        return;
    }
    ctx.case(check, input, !init.is_empty());
    run_script(ctx, check, input, true, init, ops_open);
    run_script(ctx, check, input, false, init, ops_hyper);
}

/// input: {"d": diagram, "ids": [node ids]}.  Open level (delete_nodes + witness on a copy of the
/// inner hypergraph) and hypergraph level (delete_nodes_witness, then delete_nodes).
fn chk_delete_nodes(ctx: &mut Ctx, input: &Value) {
    let (d, ids) = match (L::from_json(&input["d"]), us(&input["ids"])) {
        (Some(d), Some(i)) => (d, i),
        _ => return,
    };
    if !d.valid() {
        return;
    }
    ctx.case("delete_nodes", input, !d.is_empty() && !ids.is_empty());
    run_script(ctx, "delete_nodes", input, true, &d, &[Op::DeleteNodes(ids.clone(), false)]);
    run_script(ctx, "delete_nodes", input, false, &d, &[Op::DeleteNodes(ids.clone(), true)]);
    run_script(ctx, "delete_nodes", input, false, &d, &[Op::DeleteNodes(ids.clone(), false)]);
}

/// input: {"d": diagram, "ids": [edge ids]}
fn chk_delete_edges(ctx: &mut Ctx, input: &Value) {
    let (d, ids) = match (L::from_json(&input["d"]), us(&input["ids"])) {
        (Some(d), Some(i)) => (d, i),
        _ => return,
    };
    if !d.valid() {
        return;
    }
    ctx.case("delete_edges", input, !d.edges.is_empty() && !ids.is_empty());
    run_script(ctx, "delete_edges", input, true, &d, &[Op::DeleteEdges(ids.clone(), false)]);
    run_script(ctx, "delete_edges", input, false, &d, &[Op::DeleteEdges(ids.clone(), false)]);
    run_script(ctx, "delete_edges", input, false, &d, &[Op::DeleteEdges(ids.clone(), true)]);
}

/// input: {"d": diagram, "op": one of with_nodes / map_nodes / with_edges / map_edges}
fn chk_relabel(ctx: &mut Ctx, input: &Value) {
    let (d, op) = match (L::from_json(&input["d"]), Op::from_json(&input["op"])) {
        (Some(d), Some(o)) => (d, o),
        _ => return,
    };
    if !matches!(op, Op::WithNodes(..) | Op::MapNodes(..) | Op::WithEdges(..) | Op::MapEdges(..)) {
        return;
    }
    one_step(ctx, "relabel", input, &d, &[op.clone()], &[op]);
}

// ------------------------------------------------------------------------------------------------
// serde
// ------------------------------------------------------------------------------------------------
/// the JSON the README documents for a lax hypergraph
fn documented_hyper(m: &L) -> Value {
    let adj: Vec<Value> = (0..m.edges.len()).map(|e| json!({"sources": m.src[e], "targets": m.tgt[e]})).collect();
    json!({"nodes": m.nodes, "edges": m.edges, "adjacency": adj, "quotient": [m.ql, m.qr]})
}
/// ... and for a lax open hypergraph
fn documented_open(m: &L) -> Value {
    json!({"sources": m.s, "targets": m.t, "hypergraph": documented_hyper(m)})
}

/// every object key with its path
fn key_paths(v: &Value, prefix: &str, out: &mut BTreeSet<String>) {
    match v {
        Value::Object(o) => {
            for (k, x) in o {
                let p = format!("{}/{}", prefix, k);
                out.insert(p.clone());
                key_paths(x, &p, out);
            }
        }
        Value::Array(a) => {
            for x in a {
                key_paths(x, &format!("{}[]", prefix), out);
            }
        }
        _ => {}
    }
}

/// encode / documented shape / decode documented / round trips for one value of type $ty
macro_rules! serde_one {
    ($ctx:expr, $check:expr, $input:expr, $what:expr, $value:expr, $ty:ty, $documented:expr) => {{
        let ctx: &mut Ctx = $ctx;
        let check: &str = $check;
        let input: &Value = $input;
        let what: &str = $what;
        let value: &$ty = $value;
        let documented: Option<&Value> = $documented;
        let mut ok = true;
        // encode
        let enc = guard(|| (serde_json::to_value(value), serde_json::to_string(value), serde_json::to_string_pretty(value)));
        match enc {
            Ok((Ok(v), Ok(s), Ok(sp))) => {
                // documented field names / shape
                if let Some(doc) = documented {
                    if &v != doc {
                        let (mut a, mut b) = (BTreeSet::new(), BTreeSet::new());
                        key_paths(&v, "", &mut a);
                        key_paths(doc, "", &mut b);
                        let clause = if a != b { "C11.serde.field-names" } else { "C11.serde.documented-encoding" };
                        ctx.fail(check, clause, input, json!({"what": what, "json": v}), doc.clone());
                        ok = false;
                    } else {
                        // the documented text decodes to the same diagram
                        match guard(|| serde_json::from_value::<$ty>(doc.clone())) {
                            Ok(Ok(back)) if &back == value => {}
                            other => {
                                ctx.fail(check, "C11.serde.decodes-documented", input, json!({"what": what, "decoded": format!("{:?}", other)}), json!(format!("{:?}", value)));
                                ok = false;
                            }
                        }
                    }
                }
                if ok {
                    // round trips: through a Value, through compact text, through pretty text
                    let back = guard(|| (serde_json::from_value::<$ty>(v.clone()), serde_json::from_str::<$ty>(&s), serde_json::from_str::<$ty>(&sp)));
                    match back {
                        Ok((Ok(a), Ok(b), Ok(c))) if &a == value && &b == value && &c == value => {}
                        other => {
                            ctx.fail(check, "C11.serde.round-trip", input, json!({"what": what, "text": s, "decoded": format!("{:?}", other)}), json!(format!("{:?}", value)));
                            ok = false;
                        }
                    }
                }
            }
            other => {
                ctx.fail(check, "C11.serde.round-trip", input, json!({"what": what, "encode": format!("{:?}", other.map(|(a, _, _)| a.map(|_| ())))}), json!("encodes"));
                ok = false;
            }
        }
        ok
    }};
}

/// all serde clauses for the diagram `m` (open level also checks the inner pieces)
fn serde_clauses(ctx: &mut Ctx, check: &str, input: &Value, m: &L, open: bool) {
    if open {
        let f = m.to_open();
        if !serde_one!(ctx, check, input, "lax::OpenHypergraph", &f, LO, Some(&documented_open(m))) {
            return;
        }
    }
    let h = m.to_hyper();
    if !serde_one!(ctx, check, input, "lax::Hypergraph", &h, LH, Some(&documented_hyper(m))) {
        return;
    }
    for e in 0..m.edges.len().min(3) {
        let he = Hyperedge { sources: nid(&m.src[e]), targets: nid(&m.tgt[e]) };
        if !serde_one!(ctx, check, input, "lax::Hyperedge", &he, Hyperedge, Some(&json!({"sources": m.src[e], "targets": m.tgt[e]}))) {
            return;
        }
    }
    let n = m.nodes.len();
    // identifiers are bare numbers in the documented format
    if !serde_one!(ctx, check, input, "lax::NodeId", &NodeId(n), NodeId, Some(&json!(n))) {
        return;
    }
    serde_one!(ctx, check, input, "lax::EdgeId", &EdgeId(m.edges.len()), EdgeId, None);
}

/// input: {"d": diagram}
fn chk_serde(ctx: &mut Ctx, input: &Value) {
    let d = match L::from_json(&input["d"]) {
        Some(d) if d.valid() => d,
        _ => return,
    };
    ctx.case("serde", input, !d.is_empty());
    serde_clauses(ctx, "serde", input, &d, true);
}

/// the JSON printed in README.md (labels of arbitrary serialisable type: here serde_json::Value)
const README_JSON: &str = r#"{
    "sources": [3,0],
    "targets": [4],
    "hypergraph": {
        "nodes":[
            {"Interval":{"lower":0,"upper":1}},
            "Int","Int","Int","Int"
        ],
        "edges": ["Cast","Neg","Add"],
        "adjacency": [
            {"sources":[0],"targets":[1]},
            {"sources":[1],"targets":[2]},
            {"sources":[3,2],"targets":[4]}
        ],
        "quotient":[[],[]]
    }
}"#;

/// input: {"text": a JSON document in the README's format, "expect": the plain reading of it:
/// {"sources","targets","nodes","edges","adjacency":[[src,tgt]..],"quotient":[l,r]}}
fn chk_serde_readme(ctx: &mut Ctx, input: &Value) {
    let text = match input["text"].as_str() {
        Some(t) => t.to_string(),
        None => return,
    };
    let doc: Value = match serde_json::from_str(&text) {
        Ok(v) => v,
        Err(_) => return,
    };
    let ex = &input["expect"];
    let (es, et, en, ee, ea, eq) = match (us(&ex["sources"]), us(&ex["targets"]), ex["nodes"].as_array(), ex["edges"].as_array(), ex["adjacency"].as_array(), ex["quotient"].as_array()) {
        (Some(a), Some(b), Some(c), Some(d), Some(e), Some(f)) if f.len() == 2 => (a, b, c.clone(), d.clone(), e.clone(), f.clone()),
        _ => return,
    };
    ctx.case("serde_readme", input, true);
    type LV = lax::OpenHypergraph<Value, Value>;
    let f: LV = match guard(|| serde_json::from_str::<LV>(&text)) {
        Ok(Ok(f)) => f,
        other => {
            ctx.fail("serde_readme", "C11.serde.decodes-documented", input, json!(format!("{:?}", other.map(|r| r.map(|_| ())))), json!("the README document decodes"));
            return;
        }
    };
    let adj: Vec<Value> = f.hypergraph.adjacency.iter().map(|e| json!([un(&e.sources), un(&e.targets)])).collect();
    let ok = un(&f.sources) == es
        && un(&f.targets) == et
        && f.hypergraph.nodes == en
        && f.hypergraph.edges == ee
        && adj == ea
        && json!(un(&f.hypergraph.quotient.0)) == eq[0]
        && json!(un(&f.hypergraph.quotient.1)) == eq[1];
    if !ok {
        ctx.fail("serde_readme", "C11.serde.decodes-documented", input, json!(format!("{:?}", f)), ex.clone());
        return;
    }
    match guard(|| serde_json::to_value(&f)) {
        Ok(Ok(v)) if v == doc => {}
        other => {
            let (mut a, mut b) = (BTreeSet::new(), BTreeSet::new());
            if let Ok(Ok(v)) = &other {
                key_paths(v, "", &mut a);
            }
            key_paths(&doc, "", &mut b);
            let clause = if a != b { "C11.serde.field-names" } else { "C11.serde.documented-encoding" };
            ctx.fail("serde_readme", clause, input, json!(format!("{:?}", other)), doc.clone());
            return;
        }
    }
    match guard(|| serde_json::to_string(&f).ok().and_then(|s| serde_json::from_str::<LV>(&s).ok())) {
        Ok(Some(g)) if g == f => {}
        other => ctx.fail("serde_readme", "C11.serde.round-trip", input, json!(format!("{:?}", other)), json!(format!("{:?}", f))),
    }
}

fn readme_expect() -> Value {
    json!({"sources": [3, 0], "targets": [4],
           "nodes": [{"Interval": {"lower": 0, "upper": 1}}, "Int", "Int", "Int", "Int"],
           "edges": ["Cast", "Neg", "Add"],
           "adjacency": [[[0], [1]], [[1], [2]], [[3, 2], [4]]],
           "quotient": [[], []]})
}

/// the ```json block of a README text, if any
fn readme_block(text: &str) -> Option<String> {
    let a = text.find("```json")? + "```json".len();
    let b = text[a..].find("```")? + a;
    Some(text[a..b].to_string())
}

// ------------------------------------------------------------------------------------------------
// generators
// ------------------------------------------------------------------------------------------------
struct Gen {
    next_label: u16,
}
impl Gen {
    fn new() -> Gen {
        Gen { next_label: 100 }
    }
    /// mostly a label never used before (so that items are told apart), sometimes a repeated one
    fn label(&mut self, r: &mut Rng) -> u16 {
        if r.chance(1, 6) {
            r.below(3) as u16
        } else {
            self.next_label = self.next_label.wrapping_add(1);
            self.next_label
        }
    }
}

/// identifier lists for the deletions: every style named by the property
fn gen_ids(r: &mut Rng, n: usize, oob: bool) -> Vec<usize> {
    if oob {
        // a (possibly empty, possibly duplicated) valid list with one out-of-range identifier somewhere
        let l0 = r.below(4);
        let mut v = if n == 0 { vec![] } else { r.vec_below(l0, n) };
        let bad = match r.below(4) {
            0 => n,
            1 => n + 1,
            2 => n + r.range(2, 70),
            _ => usize::MAX,
        };
        let p = r.below(v.len() + 1);
        v.insert(p, bad);
        return v;
    }
    if n == 0 {
        return vec![];
    }
    match r.below(10) {
        0 => vec![],
        1 => vec![r.below(n)],
        2 => {
            // random subset, sorted
            (0..n).filter(|_| r.chance(1, 2)).collect()
        }
        3 => {
            // unsorted, with duplicates, longer than the number of items
            let len = r.range(1, 2 * n + 2);
            r.vec_below(len, n)
        }
        4 => (0..n).rev().collect(),
        5 => {
            let k = r.range(1, n);
            (n - k..n).collect() // a suffix
        }
        6 => {
            let k = r.range(1, n);
            (0..k).collect() // a prefix
        }
        7 => vec![r.below(n); r.range(2, n + 3)], // one identifier many times
        8 => {
            // random subset, shuffled by reversing halves
            let mut v: Vec<usize> = (0..n).filter(|_| r.chance(2, 3)).collect();
            v.reverse();
            let h = v.len() / 2;
            v[..h].reverse();
            v
        }
        _ => {
            let len = r.range(1, 3);
            r.vec_below(len, n)
        }
    }
}

fn gen_list(r: &mut Rng, max_len: usize, n: usize) -> Vec<usize> {
    if n == 0 {
        return vec![];
    }
    let len = if r.chance(1, 12) { r.range(n + 1, n + 4) } else { r.range(0, max_len) };
    r.vec_below(len, n)
}

/// a random diagram in list form (valid identifiers; repeated, dangling, zero-arity, self-unification all possible)
fn gen_diagram(r: &mut Rng, g: &mut Gen, max_n: usize, max_k: usize) -> L {
    let n = r.range(0, max_n);
    let k = r.range(0, max_k);
    let mut m = L::empty();
    for _ in 0..n {
        m.nodes.push(g.label(r));
    }
    for _ in 0..k {
        m.edges.push(g.label(r));
        m.src.push(gen_list(r, 3, n));
        m.tgt.push(gen_list(r, 3, n));
    }
    if n > 0 {
        for _ in 0..r.range(0, 4) {
            m.ql.push(r.below(n));
            m.qr.push(r.below(n));
        }
    }
    m.s = gen_list(r, 3, n);
    m.t = gen_list(r, 3, n);
    m
}

/// a random editing history.  `del_heavy`: mostly deletions.
fn gen_script(r: &mut Rng, g: &mut Gen, open: bool, init: &L, len: usize, del_heavy: bool) -> Vec<Op> {
    let mut m = if open { init.clone() } else { init.without_interface() };
    let mut ops = vec![];
    for step in 0..len {
        let n = m.nodes.len();
        let k = m.edges.len();
        let last = step + 1 == len;
        let roll = r.below(if del_heavy { 40 } else { 30 });
        let op = match roll {
            0..=2 => Op::NewNode(g.label(r)),
            3..=5 => Op::NewEdge(g.label(r), gen_list(r, 3, n), gen_list(r, 3, n)),
            6..=8 => {
                let a = r.range(0, 3);
                let b = r.range(0, 3);
                Op::NewOperation(g.label(r), (0..a).map(|_| g.label(r)).collect(), (0..b).map(|_| g.label(r)).collect())
            }
            9..=10 if k > 0 => Op::AddSource(r.below(k), g.label(r)),
            11..=12 if k > 0 => Op::AddTarget(r.below(k), g.label(r)),
            13..=15 if n > 0 => {
                let v = r.below(n);
                Op::Unify(v, if r.chance(1, 6) { v } else { r.below(n) })
            }
            16..=17 if open && n > 0 => Op::PushInterface(gen_list(r, 2, n), gen_list(r, 2, n)),
            18 => {
                let l = if r.chance(2, 3) { n } else { r.range(0, n + 2) };
                Op::WithNodes((0..l).map(|_| g.label(r)).collect())
            }
            19 => Op::MapNodes(r.below(5) as u16),
            20 => {
                let l = if r.chance(2, 3) { k } else { r.range(0, k + 2) };
                Op::WithEdges((0..l).map(|_| g.label(r)).collect())
            }
            21 => Op::MapEdges(r.below(5) as u16),
            22..=24 => {
                let oob = last && r.chance(1, 4);
                Op::DeleteEdges(gen_ids(r, k, oob), !open && r.chance(1, 3))
            }
            _ => {
                let oob = last && r.chance(1, 4);
                Op::DeleteNodes(gen_ids(r, n, oob), r.chance(1, 2))
            }
        };
        if !op_in_domain(&m, &op, open) {
            continue;
        }
        let e = model_step(&mut m, &op);
        ops.push(op);
        if e == Exp::Reject {
            break;
        }
    }
    ops
}

/// lists over 0..n of length <= max_len
fn all_lists(n: usize, max_len: usize) -> Vec<Vec<usize>> {
    let mut out = vec![vec![]];
    let mut layer: Vec<Vec<usize>> = vec![vec![]];
    for _ in 0..max_len {
        let mut next = vec![];
        for l in &layer {
            for v in 0..n {
                let mut x = l.clone();
                x.push(v);
                next.push(x);
            }
        }
        out.extend(next.iter().cloned());
        layer = next;
    }
    out
}

/// the finite alphabet of steps offered in state `m` by the exhaustive enumeration
fn alphabet(m: &L, open: bool, fresh: u16) -> Vec<Op> {
    let n = m.nodes.len();
    let k = m.edges.len();
    let mut a = vec![];
    if n < 4 {
        a.push(Op::NewNode(fresh));
    }
    if k < 3 {
        for s in all_lists(n, 1) {
            for t in all_lists(n, 1) {
                a.push(Op::NewEdge(fresh, s.clone(), t.clone()));
            }
        }
        if n < 3 {
            for (x, y) in [(0usize, 0usize), (1, 0), (0, 1), (1, 1)] {
                a.push(Op::NewOperation(fresh, (0..x).map(|i| fresh + 1 + i as u16).collect(), (0..y).map(|i| fresh + 3 + i as u16).collect()));
            }
        }
    }
    if n < 4 {
        for e in 0..k {
            a.push(Op::AddSource(e, fresh));
            a.push(Op::AddTarget(e, fresh));
        }
    }
    if m.ql.len() < 2 {
        for v in 0..n {
            for w in 0..n {
                a.push(Op::Unify(v, w));
            }
        }
    }
    if open && m.s.len() + m.t.len() < 3 {
        for v in 0..n {
            a.push(Op::PushInterface(vec![v], vec![]));
            a.push(Op::PushInterface(vec![], vec![v]));
        }
    }
    for ids in all_lists(n + 1, 2) {
        a.push(Op::DeleteNodes(ids, true));
    }
    for ids in all_lists(k + 1, 2) {
        a.push(Op::DeleteEdges(ids, false));
    }
    a.push(Op::MapNodes(1));
    a
}

/// all histories of exactly `depth` steps (or ending earlier in a rejection) over `alphabet`
fn enumerate_scripts(ctx: &mut Ctx, open: bool, init: &L, depth: usize) {
    fn rec(ctx: &mut Ctx, open: bool, init: &L, m: &L, prefix: &mut Vec<Op>, depth: usize) {
        if prefix.len() == depth {
            chk_script(ctx, &script_input(open, init, prefix));
            return;
        }
        let fresh = 200 + 10 * prefix.len() as u16;
        for op in alphabet(m, open, fresh) {
            let mut m2 = m.clone();
            let e = model_step(&mut m2, &op);
            prefix.push(op);
            if e == Exp::Reject {
                chk_script(ctx, &script_input(open, init, prefix));
            } else {
                rec(ctx, open, init, &m2, prefix, depth);
            }
            prefix.pop();
        }
    }
    let m = if open { init.clone() } else { init.without_interface() };
    rec(ctx, open, init, &m, &mut vec![], depth);
}

/// a few fixed diagrams used as starting points and as serde inputs
fn corner_diagrams() -> Vec<L> {
    let d = |nodes: &[u16], edges: &[u16], src: &[&[usize]], tgt: &[&[usize]], q: &[(usize, usize)], s: &[usize], t: &[usize]| L {
        nodes: nodes.to_vec(),
        edges: edges.to_vec(),
        src: src.iter().map(|l| l.to_vec()).collect(),
        tgt: tgt.iter().map(|l| l.to_vec()).collect(),
        ql: q.iter().map(|p| p.0).collect(),
        qr: q.iter().map(|p| p.1).collect(),
        s: s.to_vec(),
        t: t.to_vec(),
    };
    let mut v = vec![
        L::empty(),
        d(&[10], &[], &[], &[], &[], &[], &[]),                                       // an isolated node
        d(&[10], &[], &[], &[], &[(0, 0)], &[0, 0], &[0]),                           // self-unification, repeated interface
        d(&[], &[50], &[&[]], &[&[]], &[], &[], &[]),                                // zero-arity edge, no nodes
        d(&[], &[50, 51, 52], &[&[], &[], &[]], &[&[], &[], &[]], &[], &[], &[]),    // edges only
        d(&[10], &[50], &[&[0, 0, 0, 0, 0]], &[&[0, 0, 0]], &[], &[0], &[0]),        // multiplicity > nodes
        d(&[10, 11], &[50, 51], &[&[0], &[1]], &[&[1], &[0]], &[], &[0], &[1]),      // 2-cycle
        d(&[10, 11, 12], &[50], &[&[0, 2]], &[&[1]], &[(0, 2), (2, 1)], &[0, 2, 0], &[1, 1]),
        d(&[10, 11, 12, 13], &[50, 51, 52], &[&[0, 1], &[], &[3, 3, 2]], &[&[2], &[1, 0], &[]], &[(3, 0), (1, 1), (0, 3), (2, 3)], &[3, 0, 3], &[2, 1, 0, 0]),
        d(&[10, 11, 12, 13, 14], &[50, 50, 50], &[&[4, 3], &[2, 1], &[0]], &[&[0], &[4], &[4, 4]], &[(4, 0), (0, 4)], &[4], &[0, 4]),
        d(&[7, 7, 7], &[9, 9], &[&[0, 1, 2], &[2, 1, 0]], &[&[2], &[0]], &[(0, 1), (1, 2), (2, 0)], &[0, 1, 2], &[2, 1, 0]), // repeated labels
    ];
    // 64 nodes merged in binomial-tree order, all on the interface, one edge touching every node
    for &n in &[64usize, 70, 130] {
        let mut m = L::empty();
        m.nodes = (0..n).map(|i| 1000 + i as u16).collect();
        let mut step = 1;
        while step < n {
            let mut i = 0;
            while i + step < n {
                m.ql.push(i);
                m.qr.push(i + step);
                i += 2 * step;
            }
            step *= 2;
        }
        m.edges = vec![60, 61];
        m.src = vec![(0..n).collect(), (0..n).rev().collect()];
        m.tgt = vec![(0..n).step_by(3).collect(), vec![n - 1, 0, n - 1]];
        m.s = (0..n).rev().collect();
        m.t = (0..n).step_by(2).collect();
        v.push(m);
    }
    // many edges
    {
        let k = 130usize;
        let mut m = L::empty();
        m.nodes = vec![1, 2, 3];
        m.edges = (0..k).map(|i| 2000 + i as u16).collect();
        m.src = (0..k).map(|i| vec![i % 3]).collect();
        m.tgt = (0..k).map(|i| vec![(i + 1) % 3, i % 3]).collect();
        m.s = vec![0];
        m.t = vec![2];
        v.push(m);
    }
    v
}

/// fixed histories (from the empty diagram unless an init is given)
fn corner_scripts() -> Vec<(L, Vec<Op>)> {
    use Op::*;
    let e = L::empty();
    let mut v: Vec<(L, Vec<Op>)> = vec![
        (e.clone(), vec![]),
        (e.clone(), vec![DeleteNodes(vec![], true)]),
        (e.clone(), vec![DeleteNodes(vec![], false), DeleteEdges(vec![], false)]),
        (e.clone(), vec![DeleteNodes(vec![0], true)]),                 // out of range on the empty diagram
        (e.clone(), vec![DeleteEdges(vec![0], false)]),
        (e.clone(), vec![DeleteNodes(vec![usize::MAX], false)]),
        (e.clone(), vec![NewNode(1), DeleteNodes(vec![1], true)]),     // id == length
        (e.clone(), vec![NewNode(1), DeleteNodes(vec![0, 1], true)]),  // valid then invalid
        (e.clone(), vec![NewNode(1), DeleteNodes(vec![0, 0, 0], true), NewNode(2), NewNode(3), DeleteNodes(vec![1, 0, 1], true)]),
        (e.clone(), vec![NewEdge(5, vec![], vec![]), DeleteEdges(vec![1], false)]),
        (e.clone(), vec![NewEdge(5, vec![], vec![]), DeleteEdges(vec![0, 0], false), NewEdge(6, vec![], vec![]), AddSource(0, 9), AddTarget(0, 8)]),
        // identifiers are reused after a deletion: the next new node gets the new length
        (e.clone(), vec![NewNode(1), NewNode(2), NewNode(3), DeleteNodes(vec![1], false), NewNode(4), Unify(2, 0), DeleteNodes(vec![0], true), NewNode(5)]),
        // the copy/multiply example of the module docs, then deletions through it
        (
            e.clone(),
            vec![
                NewOperation(70, vec![1], vec![2, 3]),
                NewOperation(71, vec![4, 5], vec![6]),
                Unify(1, 3),
                Unify(2, 4),
                PushInterface(vec![0], vec![5]),
                DeleteNodes(vec![2], true),
                DeleteEdges(vec![0], false),
                AddSource(0, 9),
                AddTarget(0, 10),
                DeleteNodes(vec![5, 0, 5], true),
            ],
        ),
        // unification pairs with the left / the right / both / neither end deleted
        (
            e.clone(),
            vec![NewNode(1), NewNode(2), NewNode(3), NewNode(4), Unify(0, 1), Unify(1, 0), Unify(2, 3), Unify(3, 3), Unify(0, 3), Unify(2, 2), DeleteNodes(vec![0], true), DeleteNodes(vec![2], true)],
        ),
        (e.clone(), vec![NewNode(1), NewNode(2), Unify(0, 1), DeleteNodes(vec![1], true)]), // only the right end
        (e.clone(), vec![NewNode(1), NewNode(2), Unify(0, 1), DeleteNodes(vec![0], true)]), // only the left end
        (e.clone(), vec![NewNode(1), NewNode(2), Unify(1, 0), DeleteNodes(vec![0, 1], true)]),
        // interface entries: repeated, only in sources, only in targets
        (e.clone(), vec![NewNode(1), NewNode(2), NewNode(3), PushInterface(vec![2, 2, 0], vec![]), PushInterface(vec![], vec![1, 2, 1]), DeleteNodes(vec![2], false), DeleteNodes(vec![0], false)]),
        (e.clone(), vec![NewNode(1), NewNode(2), PushInterface(vec![], vec![1, 0]), DeleteNodes(vec![0], false)]),
        (e.clone(), vec![NewNode(1), NewNode(2), PushInterface(vec![1, 0], vec![]), DeleteNodes(vec![0], false)]),
        // suffix / prefix / everything / nothing
        (e.clone(), vec![NewOperation(7, vec![1, 2], vec![3, 4]), PushInterface(vec![0, 3], vec![3, 1]), Unify(3, 0), DeleteNodes(vec![3], true)]),
        (e.clone(), vec![NewOperation(7, vec![1, 2], vec![3, 4]), PushInterface(vec![0, 3], vec![3, 1]), Unify(0, 3), DeleteNodes(vec![2, 3], true)]),
        (e.clone(), vec![NewOperation(7, vec![1, 2], vec![3, 4]), PushInterface(vec![0, 3], vec![3, 1]), Unify(0, 3), DeleteNodes(vec![0], true)]),
        (e.clone(), vec![NewOperation(7, vec![1, 2], vec![3, 4]), PushInterface(vec![0, 3], vec![3, 1]), Unify(0, 3), DeleteNodes(vec![3, 2, 1, 0], true), NewNode(9)]),
        (e.clone(), vec![NewOperation(7, vec![1, 2], vec![3, 4]), DeleteNodes(vec![], true), DeleteEdges(vec![], false)]),
        // edges: first / middle / last / all / duplicates / unsorted, then edit a renumbered edge
        (
            e.clone(),
            vec![NewNode(1), NewEdge(50, vec![0], vec![]), NewEdge(51, vec![], vec![0]), NewEdge(52, vec![0, 0], vec![0]), NewEdge(53, vec![], vec![]), DeleteEdges(vec![1], false), AddSource(1, 2), DeleteEdges(vec![2, 0, 2], false), AddTarget(0, 3)],
        ),
        (e.clone(), vec![NewEdge(50, vec![], vec![]), NewEdge(51, vec![], vec![]), NewEdge(52, vec![], vec![]), DeleteEdges(vec![0], false)]),
        (e.clone(), vec![NewEdge(50, vec![], vec![]), NewEdge(51, vec![], vec![]), NewEdge(52, vec![], vec![]), DeleteEdges(vec![2], false)]),
        (e.clone(), vec![NewEdge(50, vec![], vec![]), NewEdge(51, vec![], vec![]), NewEdge(52, vec![], vec![]), DeleteEdges(vec![2, 1, 0, 1], false), NewEdge(53, vec![], vec![])]),
        (e.clone(), vec![NewEdge(50, vec![], vec![]), NewEdge(51, vec![], vec![]), DeleteEdges(vec![1, 2], false)]),
        (e.clone(), vec![NewEdge(50, vec![], vec![]), NewEdge(51, vec![], vec![]), DeleteEdges(vec![2, 1], false)]),
        // relabelling: right length, too short, too long, on empty
        (e.clone(), vec![WithNodes(vec![]), WithEdges(vec![]), WithNodes(vec![1]), WithEdges(vec![1]), MapNodes(3), MapEdges(3)]),
        (
            e.clone(),
            vec![NewOperation(7, vec![1, 2], vec![3]), Unify(0, 2), PushInterface(vec![1], vec![2]), WithNodes(vec![9, 8, 7]), WithNodes(vec![9, 8]), WithNodes(vec![9, 8, 7, 6]), WithEdges(vec![5]), WithEdges(vec![]), WithEdges(vec![5, 6]), MapNodes(1), MapEdges(2), DeleteNodes(vec![1], true)],
        ),
        // an edge that loses all its nodes stays; an edge mentioning a node many times
        (e.clone(), vec![NewNode(1), NewEdge(50, vec![0, 0, 0, 0], vec![0, 0]), NewNode(2), AddSource(0, 3), DeleteNodes(vec![0], true), DeleteNodes(vec![0, 1], true), AddTarget(0, 4)]),
    ];
    // from reached diagrams
    let cd = corner_diagrams();
    v.push((cd[8].clone(), vec![DeleteNodes(vec![3], true), NewNode(99), Unify(3, 0), DeleteEdges(vec![1], false), AddSource(1, 98), DeleteNodes(vec![0, 4, 0], true)]));
    v.push((cd[9].clone(), vec![DeleteNodes(vec![4], false), DeleteNodes(vec![0], false), DeleteEdges(vec![0, 2], false), DeleteNodes(vec![3], false)]));
    // long: 64/70/130 nodes merged in binomial-tree order, delete every other / a word boundary / a suffix
    for m in cd.iter().filter(|m| m.nodes.len() >= 64) {
        let n = m.nodes.len();
        v.push((m.clone(), vec![DeleteNodes((0..n).step_by(2).collect(), true), NewNode(5), DeleteNodes(vec![0], true)]));
        v.push((m.clone(), vec![DeleteNodes(vec![63, 0, n - 1, 31, 32, 63], true), DeleteEdges(vec![1], false), DeleteNodes((10..n - 6).rev().collect(), true)]));
        v.push((m.clone(), vec![DeleteNodes((n - 33..n).collect(), true), DeleteNodes(vec![n - 33], true)]));
        v.push((m.clone(), vec![DeleteNodes(vec![n], false)]));
    }
    if let Some(m) = cd.iter().find(|m| m.edges.len() >= 100) {
        let k = m.edges.len();
        v.push((m.clone(), vec![DeleteEdges(vec![63, 64, 65, 0, k - 1, 64], false), AddSource(62, 9), DeleteEdges((0..k - 5).step_by(2).collect(), false), DeleteNodes(vec![1], true)]));
        v.push((m.clone(), vec![DeleteEdges(vec![k], false)]));
    }
    v
}

pub fn run(ctx: &mut Ctx) {
    if let Some((name, input)) = ctx.replay.clone() {
        for (n, c) in CHECKS {
            if *n == name {
                c(ctx, &input);
            }
        }
        return;
    }
    let thorough = ctx.thorough();

    // ---- (a) corner cases -------------------------------------------------------------------
    for (init, ops) in corner_scripts() {
        let has_iface = ops.iter().any(|o| matches!(o, Op::PushInterface(..)));
        chk_script(ctx, &script_input(true, &init, &ops));
        if !has_iface {
            chk_script(ctx, &script_input(false, &init, &ops));
        }
    }
    let corners = corner_diagrams();
    for d in &corners {
        chk_serde(ctx, &json!({"d": d.json()}));
        let n = d.nodes.len();
        let k = d.edges.len();
        // every id list style on every corner diagram
        let mut lists: Vec<Vec<usize>> = vec![vec![], vec![n], vec![n + 1], vec![usize::MAX]];
        if n > 0 {
            lists.extend(vec![vec![0], vec![n - 1], vec![n - 1, 0], vec![0; n + 2], (0..n).collect(), (0..n).rev().collect(), (0..n).chain(0..n).collect(), vec![0, n], vec![n, 0], (n / 2..n).collect(), (0..n / 2 + 1).collect()]);
        }
        for ids in &lists {
            chk_delete_nodes(ctx, &json!({"d": d.json(), "ids": ids}));
        }
        let mut lists: Vec<Vec<usize>> = vec![vec![], vec![k], vec![k + 1], vec![usize::MAX]];
        if k > 0 {
            lists.extend(vec![vec![0], vec![k - 1], vec![k - 1, 0], vec![0; k + 2], (0..k).collect(), (0..k).rev().collect(), vec![0, k], vec![k, 0], (k / 2..k).collect(), (0..k / 2 + 1).collect()]);
        }
        for ids in &lists {
            chk_delete_edges(ctx, &json!({"d": d.json(), "ids": ids}));
        }
        // relabelling with every length around the right one
        for l in [0usize, n.saturating_sub(1), n, n + 1, 2 * n + 1] {
            chk_relabel(ctx, &json!({"d": d.json(), "op": Op::WithNodes((0..l).map(|i| 3000 + i as u16).collect()).json()}));
        }
        for l in [0usize, k.saturating_sub(1), k, k + 1, 2 * k + 1] {
            chk_relabel(ctx, &json!({"d": d.json(), "op": Op::WithEdges((0..l).map(|i| 4000 + i as u16).collect()).json()}));
        }
        chk_relabel(ctx, &json!({"d": d.json(), "op": Op::MapNodes(2).json()}));
        chk_relabel(ctx, &json!({"d": d.json(), "op": Op::MapEdges(2).json()}));
    }
    // the README document, embedded and (if the file is around) as found in the library checkout
    chk_serde_readme(ctx, &json!({"text": README_JSON, "expect": readme_expect()}));
    let readme_path = std::env::var("OHG_README").unwrap_or_else(|_| "/tmp/bb/F-repo/README.md".to_string());
    if let Some(block) = std::fs::read_to_string(&readme_path).ok().and_then(|t| readme_block(&t)) {
        chk_serde_readme(ctx, &json!({"text": block, "expect": readme_expect()}));
    }

    // ---- (b) exhaustive, tiny -----------------------------------------------------------------
    // every history of `depth` steps over the finite alphabet, from the empty diagram and from two reached diagrams
    let depth = if thorough { 4 } else { 3 };
    enumerate_scripts(ctx, true, &L::empty(), depth);
    enumerate_scripts(ctx, false, &L::empty(), 3);
    let start = corners[7].clone();
    enumerate_scripts(ctx, true, &start, if thorough { 3 } else { 2 });
    enumerate_scripts(ctx, false, &start, 2);
    // every deletion list on every tiny diagram with one hyperedge, interfaces and at most one pending unification
    let max_n = if thorough { 3 } else { 2 };
    for n in 0..=max_n {
        let id_len = if n == 3 { 2 } else { 3 };
        let srcs = all_lists(n, 2);
        let tgts = all_lists(n, 1);
        let mut qs: Vec<Vec<(usize, usize)>> = vec![vec![]];
        for a in 0..n {
            for b in 0..n {
                qs.push(vec![(a, b)]);
            }
        }
        let idss = all_lists(n + 1, id_len);
        for src in &srcs {
            for tgt in &tgts {
                for s in &srcs {
                    for t in &tgts {
                        for q in &qs {
                            let d = L {
                                nodes: (0..n).map(|i| 10 + i as u16).collect(),
                                edges: vec![50],
                                src: vec![src.clone()],
                                tgt: vec![tgt.clone()],
                                ql: q.iter().map(|p| p.0).collect(),
                                qr: q.iter().map(|p| p.1).collect(),
                                s: s.clone(),
                                t: t.clone(),
                            };
                            let dj = d.json();
                            for ids in &idss {
                                chk_delete_nodes(ctx, &json!({"d": dj, "ids": ids}));
                            }
                        }
                    }
                }
            }
        }
    }
    // every deletion list of length <= 4 on diagrams with 0..4 hyperedges
    for k in 0..=4usize {
        let d = L {
            nodes: vec![10, 11],
            edges: (0..k).map(|i| 50 + i as u16).collect(),
            src: (0..k).map(|i| vec![i % 2; i]).collect(),
            tgt: (0..k).map(|i| vec![(i + 1) % 2, i % 2]).collect(),
            ql: vec![0],
            qr: vec![1],
            s: vec![1, 0],
            t: vec![0],
        };
        for ids in all_lists(k + 1, if thorough { 4 } else { 3 }) {
            chk_delete_edges(ctx, &json!({"d": d.json(), "ids": ids}));
        }
    }
    // every relabelling length 0..5 on 0..3 nodes / edges
    for n in 0..=3usize {
        let d = L {
            nodes: (0..n).map(|i| 10 + i as u16).collect(),
            edges: (0..n).map(|i| 50 + i as u16).collect(),
            src: (0..n).map(|i| vec![i]).collect(),
            tgt: (0..n).map(|i| vec![(i + 1) % n]).collect(),
            ql: (0..n).collect(),
            qr: (0..n).rev().collect(),
            s: (0..n).collect(),
            t: (0..n).rev().collect(),
        };
        for l in 0..=5usize {
            chk_relabel(ctx, &json!({"d": d.json(), "op": Op::WithNodes((0..l).map(|i| 300 + i as u16).collect()).json()}));
            chk_relabel(ctx, &json!({"d": d.json(), "op": Op::WithEdges((0..l).map(|i| 400 + i as u16).collect()).json()}));
        }
    }

    // ---- (c) seeded random -------------------------------------------------------------------
    let mut g = Gen::new();
    let n_scripts = ctx.budget(6000, 150000);
    for i in 0..n_scripts {
        let open = i % 3 != 0;
        let init = match i % 5 {
            0 | 1 => L::empty(),
            2 => gen_diagram(&mut ctx.rng, &mut g, 4, 3),
            3 => gen_diagram(&mut ctx.rng, &mut g, 8, 5),
            _ => corners[ctx.rng.below(11)].clone(),
        };
        let len = if i % 50 == 0 { ctx.rng.range(30, 60) } else { ctx.rng.range(1, 14) };
        let ops = gen_script(&mut ctx.rng, &mut g, open, &init, len, i % 2 == 0);
        chk_script(ctx, &script_input(open, &init, &ops));
    }
    let n_single = ctx.budget(3000, 60000);
    for i in 0..n_single {
        let d = if i % 7 == 0 { gen_diagram(&mut ctx.rng, &mut g, 70, 6) } else { gen_diagram(&mut ctx.rng, &mut g, 6, 4) };
        let oob = ctx.rng.chance(1, 8);
        let ids = gen_ids(&mut ctx.rng, d.nodes.len(), oob);
        chk_delete_nodes(ctx, &json!({"d": d.json(), "ids": ids}));
        let oob = ctx.rng.chance(1, 8);
        let ids = gen_ids(&mut ctx.rng, d.edges.len(), oob);
        chk_delete_edges(ctx, &json!({"d": d.json(), "ids": ids}));
        if i % 4 == 0 {
            chk_serde(ctx, &json!({"d": d.json()}));
        }
    }

    ctx.notes.push(
        "rule: editing histories = (level open|hypergraph, initial diagram, list of builder steps) replayed in lockstep on the real lax::OpenHypergraph / lax::Hypergraph<u16,u16> and on a plain list model; whole raw state compared after every step, returned ids/witness compared, out-of-range deletion must panic (script ends there), serde clauses on every final state. \
         corners: ~50 fixed histories (empty diagram, id==len, usize::MAX, duplicate/unsorted/suffix/prefix/all/none lists, unification pairs with left/right/both ends deleted, repeated interface entries, zero-arity and node-less edges, id reuse after deletion, editing renumbered edges, 64/70/130 nodes merged in binomial-tree order, 130 edges) + 15 corner diagrams x every id-list style x {delete_nodes, delete_edges, relabel lengths}. \
         exhaustive: all histories of depth 3 (quick) / 4 (thorough, open level) from the empty diagram and depth 2/3 from a 3-node diagram over the alphabet {new_node, new_edge with <=1 source and <=1 target, new_operation arities 0..1 x 0..1, add_edge_source/target, unify all pairs, push_interface, delete_nodes all lists len<=2 over 0..=n (incl. out of range), delete_edges all lists len<=2 over 0..=k, map_nodes} with at most 4 nodes, 3 edges, 2 pending unifications; all delete_nodes lists of length <=3 over 0..=n on all diagrams with n<=2 (thorough: n=3 with lists <=2) nodes, one edge with <=2 sources and <=1 target, <=2 inputs, <=1 output, <=1 pending unification; all delete_edges lists of length <=3 (thorough 4) over 0..=k, k<=4; with_nodes/with_edges with every length 0..5 on 0..3 items. \
         random: 6000/150000 histories of 1..14 (2%: 30..60) steps from the empty diagram, random diagrams (<=8 nodes, <=5 edges) or corner diagrams; 3000/60000 single deletions on random diagrams of up to 70 nodes; labels are mostly unique tokens. \
         non-trivial: script = some non-creating step is applied to a non-empty diagram; delete_* = non-empty diagram and non-empty id list; relabel/serde = non-empty diagram."
            .into(),
    );
}
