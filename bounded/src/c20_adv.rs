//! AdvKind — an adversarial but contract-conforming array backend (part of the C20 check).
//!
//! Every operation whose result is fully determined by the documented contract is computed exactly
//! (own plain loops).  Every OPEN choice is resolved differently from the Vec backend, depending on
//! a thread-local `mode`:
//!   mode 0      : argsort ties in reverse index order, component numbers reversed, sparse_bincount
//!                 keys descending, scatter filler = last element (the four named choices)
//!   mode m >= 1 : all of the above pseudo-random (deterministic function of (m, input)); in
//!                 addition: which of several writes to the same slot wins in scatter /
//!                 scatter_assign (odd m: first write wins), and for m >= 2 the order in which
//!                 `zero()` lists the zero positions is shuffled (the contract fixes no order).
use core::ops::{Add, RangeBounds, Sub};
use open_hypergraphs::array::vec::VecArray;
use open_hypergraphs::array::*;
use std::cell::Cell;
use std::collections::BTreeMap;

thread_local! { static MODE: Cell<u64> = Cell::new(0); }
pub fn set_mode(m: u64) {
    MODE.with(|c| c.set(m));
}
pub fn mode() -> u64 {
    MODE.with(|c| c.get())
}
pub fn mix(a: u64, b: u64) -> u64 {
    let mut z = a.wrapping_mul(0x9E3779B97F4A7C15) ^ b.wrapping_add(0xD1B54A32D192ED03);
    z = (z ^ (z >> 30)).wrapping_mul(0xBF58476D1CE4E5B9);
    z = (z ^ (z >> 27)).wrapping_mul(0x94D049BB133111EB);
    z ^ (z >> 31)
}
/// a permutation of 0..n derived from (mode, salt): perm[i] = rank of i
fn perm(n: usize, salt: u64) -> Vec<usize> {
    let m = mode();
    let mut ix: Vec<usize> = (0..n).collect();
    ix.sort_by_key(|&i| (mix(mix(m, salt), i as u64), i));
    let mut rank = vec![0; n];
    for (r, &i) in ix.iter().enumerate() {
        rank[i] = r;
    }
    rank
}

#[derive(PartialEq, Eq, Clone, Debug)]
pub struct AdvKind {}
#[derive(Clone, Debug, PartialEq)]
pub struct AdvArray<T>(pub VecArray<T>);

pub fn adv<T>(v: Vec<T>) -> AdvArray<T> {
    AdvArray(VecArray(v))
}

impl ArrayKind for AdvKind {
    type Type<T> = AdvArray<T>;
    type I = usize;
    type Index = AdvArray<usize>;
    type Slice<'a, T: 'a> = &'a [T];
}
impl AsRef<AdvArray<usize>> for AdvArray<usize> {
    fn as_ref(&self) -> &Self {
        self
    }
}
impl AsMut<AdvArray<usize>> for AdvArray<usize> {
    fn as_mut(&mut self) -> &mut Self {
        self
    }
}
impl Add<&AdvArray<usize>> for usize {
    type Output = AdvArray<usize>;
    fn add(self, r: &AdvArray<usize>) -> AdvArray<usize> {
        adv(r.0 .0.iter().map(|x| x + self).collect())
    }
}
impl Add for AdvArray<usize> {
    type Output = Self;
    fn add(self, r: Self) -> Self {
        assert_eq!(self.0 .0.len(), r.0 .0.len());
        adv(self.0 .0.iter().zip(r.0 .0.iter()).map(|(a, b)| a + b).collect())
    }
}
impl Sub for AdvArray<usize> {
    type Output = Self;
    fn sub(self, r: Self) -> Self {
        assert_eq!(self.0 .0.len(), r.0 .0.len());
        adv(self.0 .0.iter().zip(r.0 .0.iter()).map(|(a, b)| a - b).collect())
    }
}

impl<T: Clone> Array<AdvKind, T> for AdvArray<T> {
    fn empty() -> Self {
        adv(vec![])
    }
    fn len(&self) -> usize {
        self.0 .0.len()
    }
    fn from_slice(s: &[T]) -> Self {
        adv(s.to_vec())
    }
    fn concatenate(&self, o: &Self) -> Self {
        let mut v = self.0 .0.clone();
        v.extend_from_slice(&o.0 .0);
        adv(v)
    }
    fn fill(x: T, n: usize) -> Self {
        adv(vec![x; n])
    }
    fn get(&self, i: usize) -> T {
        self.0 .0[i].clone()
    }
    fn get_range<R: RangeBounds<usize>>(&self, rb: R) -> &[T] {
        let r = self.to_range(rb);
        &self.0 .0[r]
    }
    fn set_range<R: RangeBounds<usize>>(&mut self, rb: R, v: &AdvArray<T>) {
        let r = self.to_range(rb);
        self.0 .0[r].clone_from_slice(&v.0 .0)
    }
    fn gather(&self, idx: &[usize]) -> Self {
        adv(idx.iter().map(|&i| self.0 .0[i].clone()).collect())
    }
    // open choices: the filler of slots nobody writes to, and which write to a slot wins
    fn scatter(&self, idx: &[usize], n: usize) -> Self {
        let v = &self.0 .0;
        if v.is_empty() {
            assert!(idx.is_empty());
            return adv(vec![]);
        }
        assert_eq!(idx.len(), v.len());
        let m = mode();
        let filler = if m == 0 { v[v.len() - 1].clone() } else { v[(mix(m, v.len() as u64) % v.len() as u64) as usize].clone() };
        let mut y = vec![filler; n];
        if m % 2 == 1 {
            for i in (0..v.len()).rev() {
                y[idx[i]] = v[i].clone();
            }
        } else {
            for i in 0..v.len() {
                y[idx[i]] = v[i].clone();
            }
        }
        adv(y)
    }
    fn scatter_assign(&mut self, ixs: &AdvArray<usize>, v: Self) {
        let ix = &ixs.0 .0;
        let k = ix.len().min(v.0 .0.len());
        if mode() % 2 == 1 {
            for i in (0..k).rev() {
                self.0 .0[ix[i]] = v.0 .0[i].clone();
            }
        } else {
            for i in 0..k {
                self.0 .0[ix[i]] = v.0 .0[i].clone();
            }
        }
    }
    fn scatter_assign_constant(&mut self, ixs: &AdvArray<usize>, a: T) {
        for &i in ixs.0 .0.iter() {
            self.0 .0[i] = a.clone();
        }
    }
}

impl<T: Ord + Clone> OrdArray<AdvKind, T> for AdvArray<T> {
    // open choice: order of equal keys
    fn argsort(&self) -> AdvArray<usize> {
        let v = &self.0 .0;
        let m = mode();
        let mut ix: Vec<usize> = (0..v.len()).collect();
        if m == 0 {
            ix.sort_by(|&a, &b| v[a].cmp(&v[b]).then(b.cmp(&a)));
        } else {
            let salt = mix(m, v.len() as u64 ^ 0xA5);
            ix.sort_by(|&a, &b| v[a].cmp(&v[b]).then((mix(salt, a as u64), a).cmp(&(mix(salt, b as u64), b))));
        }
        adv(ix)
    }
}

impl NaturalArray<AdvKind> for AdvArray<usize> {
    fn max(&self) -> Option<usize> {
        self.0 .0.iter().max().copied()
    }
    fn cumulative_sum(&self) -> Self {
        let mut v = Vec::with_capacity(self.0 .0.len() + 1);
        let mut a = 0usize;
        for x in self.0 .0.iter() {
            v.push(a);
            a += x;
        }
        v.push(a);
        adv(v)
    }
    fn arange(a: &usize, b: &usize) -> Self {
        assert!(b >= a);
        adv((*a..*b).collect())
    }
    fn repeat(&self, x: &[usize]) -> Self {
        assert_eq!(self.0 .0.len(), x.len());
        let mut v = vec![];
        for (k, xi) in self.0 .0.iter().zip(x) {
            for _ in 0..*k {
                v.push(*xi);
            }
        }
        adv(v)
    }
    fn quot_rem(&self, d: usize) -> (Self, Self) {
        assert!(d != 0);
        (adv(self.0 .0.iter().map(|x| x / d).collect()), adv(self.0 .0.iter().map(|x| x % d).collect()))
    }
    fn mul_constant_add(&self, c: usize, x: &Self) -> Self {
        assert_eq!(self.0 .0.len(), x.0 .0.len());
        adv(self.0 .0.iter().zip(x.0 .0.iter()).map(|(s, x)| s * c + x).collect())
    }
    // open choice: the numbering of the components (any bijection onto 0..k)
    fn connected_components(s: &Self, t: &Self, n: usize) -> (Self, usize) {
        let (s, t) = (&s.0 .0, &t.0 .0);
        assert_eq!(s.len(), t.len());
        assert!(s.iter().chain(t.iter()).all(|&v| v < n));
        // plain graph search
        let mut nb: Vec<Vec<usize>> = vec![vec![]; n];
        for (&a, &b) in s.iter().zip(t.iter()) {
            nb[a].push(b);
            nb[b].push(a);
        }
        let mut comp = vec![usize::MAX; n];
        let mut k = 0;
        for r in 0..n {
            if comp[r] != usize::MAX {
                continue;
            }
            comp[r] = k;
            let mut stack = vec![r];
            while let Some(u) = stack.pop() {
                for &v in &nb[u] {
                    if comp[v] == usize::MAX {
                        comp[v] = k;
                        stack.push(v);
                    }
                }
            }
            k += 1;
        }
        let renum: Vec<usize> = if mode() == 0 { (0..k).map(|c| k - 1 - c).collect() } else { perm(k, 0xCC ^ (n as u64) << 8) };
        (adv(comp.iter().map(|&c| renum[c]).collect()), k)
    }
    fn bincount(&self, size: usize) -> AdvArray<usize> {
        let mut c = vec![0usize; size];
        for &i in self.0 .0.iter() {
            c[i] += 1;
        }
        adv(c)
    }
    // open choice: the order of the keys
    fn sparse_bincount(&self) -> (AdvArray<usize>, AdvArray<usize>) {
        let mut map: BTreeMap<usize, usize> = BTreeMap::new();
        for &i in self.0 .0.iter() {
            *map.entry(i).or_insert(0) += 1;
        }
        let mut kv: Vec<(usize, usize)> = map.into_iter().collect();
        let m = mode();
        if m == 0 {
            kv.reverse();
        } else {
            let salt = mix(m, 0x5B ^ kv.len() as u64);
            kv.sort_by_key(|&(k, _)| (mix(salt, k as u64), k));
        }
        (adv(kv.iter().map(|p| p.0).collect()), adv(kv.iter().map(|p| p.1).collect()))
    }
    // the contract fixes no order for the listed positions (shuffled for mode >= 2)
    fn zero(&self) -> AdvArray<usize> {
        let mut z: Vec<usize> = (0..self.0 .0.len()).filter(|&i| self.0 .0[i] == 0).collect();
        let m = mode();
        if m >= 2 {
            let salt = mix(m, 0x2E ^ z.len() as u64);
            z.sort_by_key(|&i| (mix(salt, i as u64), i));
        }
        adv(z)
    }
    fn scatter_sub_assign(&mut self, ixs: &AdvArray<usize>, rhs: &AdvArray<usize>) {
        for i in 0..ixs.0 .0.len() {
            self.0 .0[ixs.0 .0[i]] -= rhs.0 .0[i];
        }
    }
}
