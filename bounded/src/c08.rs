//! C08 — segmented arrays behave as lists of lists and keep their size invariant.
//!
//! Plain model: a segmented array of finite functions is `P { segs: Vec<Vec<usize>>, n }` (the list
//! of segments and the codomain of the value array); a segmented array of labels is `Vec<Vec<u8>>`.
//! Every library result is read back from its RAW public fields (`sources.table`, `sources.target`,
//! `values`), the size invariant
//!     sources.target == sum(sizes) + 1   and   sum(sizes) == values.len()   (and values < target)
//! is evaluated on those raw fields, and the denoted list of slices is compared with the list-of-lists
//! result computed by plain loops from the property statement.
use crate::ctx::{guard, Ctx, Rng};
use open_hypergraphs::array::vec::*;
use open_hypergraphs::finite_function::FiniteFunction;
use open_hypergraphs::indexed_coproduct::{HasLen, IndexedCoproduct};
use open_hypergraphs::operations::Operations;
use open_hypergraphs::semifinite::SemifiniteFunction;
use serde_json::{json, Value};

type FF = FiniteFunction<VecKind>;
type SF = SemifiniteFunction<VecKind, u8>;
type ICF = IndexedCoproduct<VecKind, FF>;
type ICS = IndexedCoproduct<VecKind, SF>;
type LL = Vec<Vec<u8>>;

type Check = fn(&mut Ctx, &Value);
const CHECKS: &[(&str, Check)] = &[
    ("construct", chk_construct),
    ("basic", chk_basic),
    ("coproduct", chk_coproduct),
    ("tensor", chk_tensor),
    ("map_indexes", chk_map_indexes),
    ("map_values", chk_map_values),
    ("flatmap", chk_flatmap),
    ("flatmap_sources", chk_flatmap_sources),
    ("iterate", chk_iterate),
    ("operations", chk_operations),
];

// ------------------------------------------------------------------------------------------------
// plain model + JSON
// ------------------------------------------------------------------------------------------------
#[derive(Clone, Debug, PartialEq, Eq)]
struct P {
    segs: Vec<Vec<usize>>,
    n: usize,
}

fn us(v: &Value) -> Option<Vec<usize>> {
    v.as_array()?.iter().map(|x| x.as_u64().map(|y| y as usize)).collect()
}
fn uss(v: &Value) -> Option<Vec<Vec<usize>>> {
    v.as_array()?.iter().map(us).collect()
}
fn u8s(v: &Value) -> Option<Vec<u8>> {
    v.as_array()?.iter().map(|x| x.as_u64().filter(|&y| y < 256).map(|y| y as u8)).collect()
}
fn u8ss(v: &Value) -> Option<LL> {
    v.as_array()?.iter().map(u8s).collect()
}
fn num(v: &Value) -> Option<usize> {
    v.as_u64().map(|x| x as usize)
}

/// label used for value `v` when an index array is re-read as a label array
fn lab(v: usize) -> u8 {
    (v as u8).wrapping_mul(3).wrapping_add(100)
}

impl P {
    fn json(&self) -> Value {
        json!({"segs": self.segs, "n": self.n})
    }
    fn from_json(v: &Value) -> Option<P> {
        let p = P { segs: uss(v.get("segs")?)?, n: num(v.get("n")?)? };
        if p.segs.iter().flatten().all(|&x| x < p.n) && p.total() < 100_000 {
            Some(p)
        } else {
            None
        }
    }
    fn sizes(&self) -> Vec<usize> {
        self.segs.iter().map(|s| s.len()).collect()
    }
    fn flat(&self) -> Vec<usize> {
        self.segs.iter().flatten().cloned().collect()
    }
    fn total(&self) -> usize {
        self.segs.iter().map(|s| s.len()).sum()
    }
    fn labels(&self) -> LL {
        self.segs.iter().map(|s| s.iter().map(|&v| lab(v)).collect()).collect()
    }
    /// non-trivial: at least two segments, at least one value and at least one empty or >1 segment
    fn nontrivial(&self) -> bool {
        self.segs.len() >= 2 && self.total() >= 1
    }
}

fn ll_json(l: &LL) -> Value {
    json!(l)
}

fn mk_ff(vals: &[usize], n: usize) -> FF {
    FiniteFunction::new(VecArray(vals.to_vec()), n).expect("precondition: values in range")
}
fn mk_sf(vals: &[u8]) -> SF {
    SemifiniteFunction(VecArray(vals.to_vec()))
}

/// the size invariant on raw fields
fn invariant(sizes: &[usize], st: usize, vlen: usize) -> Result<(), String> {
    let sum: usize = sizes.iter().sum();
    if st != sum + 1 {
        return Err(format!("sources.target {} != sum of sizes {} + 1", st, sum));
    }
    if sum != vlen {
        return Err(format!("sum of sizes {} != values length {}", sum, vlen));
    }
    Ok(())
}

fn split<T: Clone>(sizes: &[usize], vals: &[T]) -> Vec<Vec<T>> {
    let mut out = vec![];
    let mut p = 0usize;
    for &k in sizes {
        out.push(vals[p..p + k].to_vec());
        p += k;
    }
    out
}

/// read a library value back (raw fields): invariant, then the denoted list of slices
fn read_f(c: &ICF) -> Result<P, String> {
    invariant(&c.sources.table.0, c.sources.target, c.values.table.0.len())?;
    if let Some(v) = c.values.table.0.iter().find(|&&v| v >= c.values.target) {
        return Err(format!("value {} not below values.target {}", v, c.values.target));
    }
    Ok(P { segs: split(&c.sources.table.0, &c.values.table.0), n: c.values.target })
}
fn read_s(c: &ICS) -> Result<LL, String> {
    invariant(&c.sources.table.0, c.sources.target, c.values.0 .0.len())?;
    Ok(split(&c.sources.table.0, &c.values.0 .0))
}
fn raw_f(c: &ICF) -> Value {
    json!({"sizes": c.sources.table.0, "sources.target": c.sources.target, "values": c.values.table.0, "values.target": c.values.target})
}
fn raw_s(c: &ICS) -> Value {
    json!({"sizes": c.sources.table.0, "sources.target": c.sources.target, "values": c.values.0 .0})
}

/// build the library value for a plain one through the checked constructor; a refusal or a wrong
/// denotation is itself a violation of the construction clause
fn build_f(ctx: &mut Ctx, check: &str, input: &Value, p: &P) -> Option<ICF> {
    let (sizes, flat, n) = (p.sizes(), p.flat(), p.n);
    let r = guard(|| IndexedCoproduct::from_semifinite(SemifiniteFunction(VecArray(sizes)), mk_ff(&flat, n)));
    match r {
        Ok(Some(c)) => match read_f(&c) {
            Ok(q) if q == *p => Some(c),
            Ok(q) => {
                ctx.fail(check, "C08.construct-denotes", input, q.json(), p.json());
                None
            }
            Err(e) => {
                ctx.fail(check, "C08.construct-invariant", input, json!(e), p.json());
                None
            }
        },
        Ok(None) => {
            ctx.fail(check, "C08.construct-accepts", input, json!("None"), p.json());
            None
        }
        Err(e) => {
            ctx.fail(check, "C08.construct-no-panic", input, json!(e), p.json());
            None
        }
    }
}
fn build_s(ctx: &mut Ctx, check: &str, input: &Value, l: &LL) -> Option<ICS> {
    let sizes: Vec<usize> = l.iter().map(|s| s.len()).collect();
    let flat: Vec<u8> = l.iter().flatten().cloned().collect();
    let r = guard(|| IndexedCoproduct::from_semifinite(SemifiniteFunction(VecArray(sizes)), mk_sf(&flat)));
    match r {
        Ok(Some(c)) => match read_s(&c) {
            Ok(q) if q == *l => Some(c),
            Ok(q) => {
                ctx.fail(check, "C08.construct-denotes", input, ll_json(&q), ll_json(l));
                None
            }
            Err(e) => {
                ctx.fail(check, "C08.construct-invariant", input, json!(e), ll_json(l));
                None
            }
        },
        Ok(None) => {
            ctx.fail(check, "C08.construct-accepts", input, json!("None"), ll_json(l));
            None
        }
        Err(e) => {
            ctx.fail(check, "C08.construct-no-panic", input, json!(e), ll_json(l));
            None
        }
    }
}

/// compare a (guarded) library result with the expected list of lists; `exp == None` means the
/// operation must refuse
fn cmp_f(ctx: &mut Ctx, check: &str, op: &str, input: &Value, got: Result<Option<ICF>, String>, exp: Option<&P>) {
    let cl = |s: &str| format!("C08.{}-{}", op, s);
    let expj = exp.map(|p| p.json()).unwrap_or(json!("None"));
    match (got, exp) {
        (Err(e), _) => ctx.fail(check, &cl("no-panic"), input, json!(format!("panic: {}", e)), expj),
        (Ok(None), None) => {}
        (Ok(None), Some(_)) => ctx.fail(check, &cl("defined"), input, json!("None"), expj),
        (Ok(Some(c)), None) => ctx.fail(check, &cl("defined"), input, raw_f(&c), expj),
        (Ok(Some(c)), Some(p)) => match read_f(&c) {
            Err(e) => ctx.fail(check, &cl("invariant"), input, json!({"why": e, "raw": raw_f(&c)}), expj),
            Ok(q) => {
                if q != *p {
                    ctx.fail(check, &cl("denotes"), input, q.json(), expj);
                }
                let (l1, l2) = (c.len(), HasLen::len(&c));
                if l1 != p.segs.len() || l2 != p.segs.len() {
                    ctx.fail(check, &cl("len"), input, json!([l1, l2]), json!(p.segs.len()));
                }
            }
        },
    }
}
fn cmp_s(ctx: &mut Ctx, check: &str, op: &str, input: &Value, got: Result<Option<ICS>, String>, exp: Option<&LL>) {
    let cl = |s: &str| format!("C08.{}-{}", op, s);
    let expj = exp.map(ll_json).unwrap_or(json!("None"));
    match (got, exp) {
        (Err(e), _) => ctx.fail(check, &cl("no-panic"), input, json!(format!("panic: {}", e)), expj),
        (Ok(None), None) => {}
        (Ok(None), Some(_)) => ctx.fail(check, &cl("defined"), input, json!("None"), expj),
        (Ok(Some(c)), None) => ctx.fail(check, &cl("defined"), input, raw_s(&c), expj),
        (Ok(Some(c)), Some(p)) => match read_s(&c) {
            Err(e) => ctx.fail(check, &cl("invariant"), input, json!({"why": e, "raw": raw_s(&c)}), expj),
            Ok(q) => {
                if q != *p {
                    ctx.fail(check, &cl("denotes"), input, ll_json(&q), expj);
                }
                let (l1, l2) = (c.len(), HasLen::len(&c));
                if l1 != p.len() || l2 != p.len() {
                    ctx.fail(check, &cl("len"), input, json!([l1, l2]), json!(p.len()));
                }
            }
        },
    }
}

// ------------------------------------------------------------------------------------------------
// checks
// ------------------------------------------------------------------------------------------------

/// input: {"sizes": [..], "st": codomain of the size map, "vals": [..], "n": codomain of vals}
/// checked construction accepts exactly sum(sizes) == len(vals) (and st == sum + 1)
fn chk_construct(ctx: &mut Ctx, input: &Value) {
    const C: &str = "construct";
    let (sizes, st, vals, n) = match (us(&input["sizes"]), num(&input["st"]), us(&input["vals"]), num(&input["n"])) {
        (Some(a), Some(b), Some(c), Some(d)) if c.iter().all(|&v| v < d) && a.iter().all(|&k| k < 10_000) && a.len() < 10_000 => (a, b, c, d),
        _ => return,
    };
    ctx.case(C, input, !sizes.is_empty() && !vals.is_empty());
    let sum: usize = sizes.iter().sum();
    let fits = sum == vals.len();
    let labels: Vec<u8> = vals.iter().map(|&v| lab(v)).collect();
    let exp_f = if fits { Some(P { segs: split(&sizes, &vals), n }) } else { None };
    let exp_s = if fits { Some(split(&sizes, &labels)) } else { None };

    // `new`: the caller supplies the codomain of the size map
    let ok_new = fits && st == sum + 1;
    let r = guard(|| ICF::new(FiniteFunction { table: VecArray(sizes.clone()), target: st }, mk_ff(&vals, n)));
    cmp_f(ctx, C, "new", input, r, if ok_new { exp_f.as_ref() } else { None });
    let r = guard(|| ICS::new(FiniteFunction { table: VecArray(sizes.clone()), target: st }, mk_sf(&labels)));
    cmp_s(ctx, C, "new-labels", input, r, if ok_new { exp_s.as_ref() } else { None });

    // `from_semifinite`: the codomain is computed (result must carry sum + 1, checked by the invariant)
    let r = guard(|| ICF::from_semifinite(SemifiniteFunction(VecArray(sizes.clone())), mk_ff(&vals, n)));
    cmp_f(ctx, C, "from_semifinite", input, r, exp_f.as_ref());
    let r = guard(|| ICS::from_semifinite(SemifiniteFunction(VecArray(sizes.clone())), mk_sf(&labels)));
    cmp_s(ctx, C, "from_semifinite-labels", input, r, exp_s.as_ref());
}

/// input: {"vals": [..], "n": k} — singleton, elements (both flavours) and initial(n)
fn chk_basic(ctx: &mut Ctx, input: &Value) {
    const C: &str = "basic";
    let (vals, n) = match (us(&input["vals"]), num(&input["n"])) {
        (Some(c), Some(d)) if c.iter().all(|&v| v < d) => (c, d),
        _ => return,
    };
    ctx.case(C, input, vals.len() >= 2);
    let labels: Vec<u8> = vals.iter().map(|&v| lab(v)).collect();

    let r = guard(|| Some(ICF::singleton(mk_ff(&vals, n))));
    cmp_f(ctx, C, "singleton", input, r, Some(&P { segs: vec![vals.clone()], n }));
    let r = guard(|| Some(ICS::singleton(mk_sf(&labels))));
    cmp_s(ctx, C, "singleton-labels", input, r, Some(&vec![labels.clone()]));

    let r = guard(|| Some(ICF::elements(mk_ff(&vals, n))));
    cmp_f(ctx, C, "elements", input, r, Some(&P { segs: vals.iter().map(|&v| vec![v]).collect(), n }));
    let r = guard(|| Some(ICS::elements(mk_sf(&labels))));
    cmp_s(ctx, C, "elements-labels", input, r, Some(&labels.iter().map(|&v| vec![v]).collect()));

    let r = guard(|| Some(ICF::initial(n)));
    cmp_f(ctx, C, "initial", input, r, Some(&P { segs: vec![], n }));
}

fn two(input: &Value) -> Option<(P, P)> {
    Some((P::from_json(input.get("a")?)?, P::from_json(input.get("b")?)?))
}

/// input: {"a": P, "b": P} — coproduct = list concatenation (defined iff same value codomain;
/// always defined for label arrays)
fn chk_coproduct(ctx: &mut Ctx, input: &Value) {
    const C: &str = "coproduct";
    let (a, b) = match two(input) {
        Some(x) => x,
        None => return,
    };
    ctx.case(C, input, a.nontrivial() && b.nontrivial() && a.n == b.n);
    let exp = if a.n == b.n { Some(P { segs: [a.segs.clone(), b.segs.clone()].concat(), n: a.n }) } else { None };
    if let (Some(ca), Some(cb)) = (build_f(ctx, C, input, &a), build_f(ctx, C, input, &b)) {
        let r = guard(|| ca.coproduct(&cb));
        cmp_f(ctx, C, "coproduct", input, r, exp.as_ref());
    }
    let (la, lb) = (a.labels(), b.labels());
    let exps: LL = [la.clone(), lb.clone()].concat();
    if let (Some(ca), Some(cb)) = (build_s(ctx, C, input, &la), build_s(ctx, C, input, &lb)) {
        let r = guard(|| ca.coproduct(&cb));
        cmp_s(ctx, C, "coproduct-labels", input, r, Some(&exps));
    }
}

/// input: {"a": P, "b": P} — tensor = list concatenation with b's values shifted by a's codomain
fn chk_tensor(ctx: &mut Ctx, input: &Value) {
    const C: &str = "tensor";
    let (a, b) = match two(input) {
        Some(x) => x,
        None => return,
    };
    ctx.case(C, input, a.nontrivial() && b.nontrivial());
    let mut segs = a.segs.clone();
    for s in &b.segs {
        segs.push(s.iter().map(|&v| v + a.n).collect());
    }
    let exp = P { segs, n: a.n + b.n };
    if let (Some(ca), Some(cb)) = (build_f(ctx, C, input, &a), build_f(ctx, C, input, &b)) {
        let r = guard(|| Some(ca.tensor(&cb)));
        cmp_f(ctx, C, "tensor", input, r, Some(&exp));
    }
}

/// input: {"a": P, "x": [..], "xn": k} — re-indexing along x : len(x) -> xn; result[i] = a[x[i]];
/// defined iff xn is the number of segments of a
fn chk_map_indexes(ctx: &mut Ctx, input: &Value) {
    const C: &str = "map_indexes";
    let (a, x, xn) = match (input.get("a").and_then(P::from_json), us(&input["x"]), num(&input["xn"])) {
        (Some(a), Some(x), Some(xn)) if x.iter().all(|&v| v < xn) => (a, x, xn),
        _ => return,
    };
    let defined = xn == a.segs.len();
    let mut seen = vec![false; xn];
    let mut injective = true;
    for &i in &x {
        injective &= !seen[i];
        seen[i] = true;
    }
    ctx.case(C, input, defined && a.nontrivial() && !x.is_empty() && !(injective && x.windows(2).all(|w| w[0] < w[1])));
    let exp = if defined { Some(P { segs: x.iter().map(|&i| a.segs[i].clone()).collect(), n: a.n }) } else { None };
    let fx = mk_ff(&x, xn);
    if let Some(ca) = build_f(ctx, C, input, &a) {
        let r = guard(|| ca.map_indexes(&fx));
        cmp_f(ctx, C, "map_indexes", input, r, exp.as_ref());
        // values only
        let r = guard(|| ca.indexed_values(&fx));
        let expv = exp.as_ref().map(|p| (p.flat(), p.n));
        match (r, expv) {
            (Err(e), _) => ctx.fail(C, "C08.indexed_values-no-panic", input, json!(e), json!(null)),
            (Ok(None), None) => {}
            (Ok(None), Some(e)) => ctx.fail(C, "C08.indexed_values-defined", input, json!("None"), json!(e)),
            (Ok(Some(f)), None) => ctx.fail(C, "C08.indexed_values-defined", input, json!([f.table.0, f.target]), json!("None")),
            (Ok(Some(f)), Some(e)) => {
                if (f.table.0.clone(), f.target) != e {
                    ctx.fail(C, "C08.indexed_values-denotes", input, json!([f.table.0, f.target]), json!(e));
                }
            }
        }
    }
    let la = a.labels();
    let exps: Option<LL> = if defined { Some(x.iter().map(|&i| la[i].clone()).collect()) } else { None };
    if let Some(ca) = build_s(ctx, C, input, &la) {
        let r = guard(|| ca.map_indexes(&fx));
        cmp_s(ctx, C, "map_indexes-labels", input, r, exps.as_ref());
        let r = guard(|| ca.indexed_values(&fx));
        let expv: Option<Vec<u8>> = exps.as_ref().map(|l| l.iter().flatten().cloned().collect());
        match (r, expv) {
            (Err(e), _) => ctx.fail(C, "C08.indexed_values-labels-no-panic", input, json!(e), json!(null)),
            (Ok(None), None) => {}
            (Ok(None), Some(e)) => ctx.fail(C, "C08.indexed_values-labels-defined", input, json!("None"), json!(e)),
            (Ok(Some(f)), None) => ctx.fail(C, "C08.indexed_values-labels-defined", input, json!(f.0 .0), json!("None")),
            (Ok(Some(f)), Some(e)) => {
                if f.0 .0 != e {
                    ctx.fail(C, "C08.indexed_values-labels-denotes", input, json!(f.0 .0), json!(e));
                }
            }
        }
    }
}

/// input: {"a": P, "f": [..], "fn": k} — map every value through f : len(f) -> fn (finite function)
/// and through the label array lab∘f; defined iff len(f) == a.n; segment sizes unchanged
fn chk_map_values(ctx: &mut Ctx, input: &Value) {
    const C: &str = "map_values";
    let (a, f, fnn) = match (input.get("a").and_then(P::from_json), us(&input["f"]), num(&input["fn"])) {
        (Some(a), Some(f), Some(k)) if f.iter().all(|&v| v < k) => (a, f, k),
        _ => return,
    };
    let defined = f.len() == a.n;
    ctx.case(C, input, defined && a.nontrivial());
    if let Some(ca) = build_f(ctx, C, input, &a) {
        let exp = if defined { Some(P { segs: a.segs.iter().map(|s| s.iter().map(|&v| f[v]).collect()).collect(), n: fnn }) } else { None };
        let ff = mk_ff(&f, fnn);
        let r = guard(|| ca.map_values(&ff));
        cmp_f(ctx, C, "map_values", input, r, exp.as_ref());

        let fl: Vec<u8> = f.iter().map(|&v| lab(v)).collect();
        let exps: Option<LL> = if defined { Some(a.segs.iter().map(|s| s.iter().map(|&v| fl[v]).collect()).collect()) } else { None };
        let sf = mk_sf(&fl);
        let r = guard(|| ca.map_semifinite(&sf));
        cmp_s(ctx, C, "map_semifinite", input, r, exps.as_ref());
    }
}

/// input: {"a": P, "b": P} with a.n == number of segments of b —
/// flatmap: result[i] = concatenation over v in a[i] of b[v]
fn chk_flatmap(ctx: &mut Ctx, input: &Value) {
    const C: &str = "flatmap";
    let (a, b) = match two(input) {
        Some((a, b)) if a.n == b.segs.len() => (a, b),
        _ => return,
    };
    ctx.case(C, input, a.nontrivial() && b.nontrivial());
    let mut segs = vec![];
    for s in &a.segs {
        let mut out = vec![];
        for &v in s {
            out.extend(b.segs[v].iter().cloned());
        }
        segs.push(out);
    }
    let exp = P { segs, n: b.n };
    if let (Some(ca), Some(cb)) = (build_f(ctx, C, input, &a), build_f(ctx, C, input, &b)) {
        let r = guard(|| Some(ca.flatmap(&cb)));
        cmp_f(ctx, C, "flatmap", input, r, Some(&exp));
    }
}

/// input: {"a": P, "b": P} with (total number of values of a) == number of segments of b —
/// flatmap_sources: segment i of the result is the concatenation of the next len(a[i]) segments of b.
/// evaluated for a, b as finite functions and as label arrays (4 combinations)
fn chk_flatmap_sources(ctx: &mut Ctx, input: &Value) {
    const C: &str = "flatmap_sources";
    let (a, b) = match two(input) {
        Some((a, b)) if a.total() == b.segs.len() => (a, b),
        _ => return,
    };
    ctx.case(C, input, a.nontrivial() && b.nontrivial());
    let mut segs = vec![];
    let mut p = 0usize;
    for s in &a.segs {
        let mut out = vec![];
        for j in p..p + s.len() {
            out.extend(b.segs[j].iter().cloned());
        }
        p += s.len();
        segs.push(out);
    }
    let exp = P { segs, n: b.n };
    let exps = exp.labels();
    let (la, lb) = (a.labels(), b.labels());
    let (fa, fb) = (build_f(ctx, C, input, &a), build_f(ctx, C, input, &b));
    let (sa, sb) = (build_s(ctx, C, input, &la), build_s(ctx, C, input, &lb));
    if let (Some(fa), Some(fb), Some(sa), Some(sb)) = (fa, fb, sa, sb) {
        let r = guard(|| Some(fa.flatmap_sources(&fb)));
        cmp_f(ctx, C, "flatmap_sources", input, r, Some(&exp));
        let r = guard(|| Some(sa.flatmap_sources(&fb)));
        cmp_f(ctx, C, "flatmap_sources-lf", input, r, Some(&exp));
        let r = guard(|| Some(fa.flatmap_sources(&sb)));
        cmp_s(ctx, C, "flatmap_sources-fl", input, r, Some(&exps));
        let r = guard(|| Some(sa.flatmap_sources(&sb)));
        cmp_s(ctx, C, "flatmap_sources-ll", input, r, Some(&exps));
    }
}

/// input: {"a": P} — the three iterators: every slice once, in order; before every step (and after
/// the end) the reported number of remaining slices is exact
fn chk_iterate(ctx: &mut Ctx, input: &Value) {
    const C: &str = "iterate";
    let a = match input.get("a").and_then(P::from_json) {
        Some(a) => a,
        None => return,
    };
    ctx.case(C, input, a.nontrivial());
    let k = a.segs.len();
    let la = a.labels();
    // expected trace: (remaining before the step, slice)
    let exp_trace = |segs: &Vec<Value>| -> Value {
        let mut t: Vec<Value> = segs.iter().enumerate().map(|(i, s)| json!({"len": k - i, "hint": [k - i, k - i], "item": s})).collect();
        t.push(json!({"len": 0, "hint": [0, 0], "item": null}));
        t.push(json!({"len": 0, "hint": [0, 0], "item": null}));
        json!(t)
    };
    let hint = |h: (usize, Option<usize>)| json!([h.0, h.1]);

    if let Some(c) = build_f(ctx, C, input, &a) {
        let r = guard(|| {
            let mut it = c.clone().into_iter();
            let mut t = vec![];
            for _ in 0..k + 2 {
                let (l, h) = (it.len(), it.size_hint());
                match it.next() {
                    Some(f) => t.push(json!({"len": l, "hint": hint(h), "item": {"table": f.table.0, "target": f.target}})),
                    None => t.push(json!({"len": l, "hint": hint(h), "item": null})),
                }
            }
            let extra = it.next().is_some();
            (json!(t), extra)
        });
        let exp = exp_trace(&a.segs.iter().map(|s| json!({"table": s, "target": a.n})).collect());
        match r {
            Err(e) => ctx.fail(C, "C08.iter-ff-no-panic", input, json!(e), exp),
            Ok((t, extra)) => {
                if t != exp || extra {
                    ctx.fail(C, "C08.iter-ff-trace", input, json!({"trace": t, "yields_more": extra}), exp);
                }
            }
        }
        // plain collect (uses size_hint for allocation) and count
        let r = guard(|| c.clone().into_iter().map(|f| f.table.0).collect::<Vec<_>>());
        match r {
            Err(e) => ctx.fail(C, "C08.iter-ff-no-panic", input, json!(e), json!(a.segs)),
            Ok(v) => {
                if v != a.segs {
                    ctx.fail(C, "C08.iter-ff-collect", input, json!(v), json!(a.segs));
                }
            }
        }
    }
    if let Some(c) = build_s(ctx, C, input, &la) {
        let r = guard(|| {
            let mut it = c.clone().into_iter();
            let mut t = vec![];
            for _ in 0..k + 2 {
                let (l, h) = (it.len(), it.size_hint());
                match it.next() {
                    Some(f) => t.push(json!({"len": l, "hint": hint(h), "item": f.0 .0})),
                    None => t.push(json!({"len": l, "hint": hint(h), "item": null})),
                }
            }
            let extra = it.next().is_some();
            (json!(t), extra)
        });
        let exp = exp_trace(&la.iter().map(|s| json!(s)).collect());
        match r {
            Err(e) => ctx.fail(C, "C08.iter-labels-no-panic", input, json!(e), exp.clone()),
            Ok((t, extra)) => {
                if t != exp || extra {
                    ctx.fail(C, "C08.iter-labels-trace", input, json!({"trace": t, "yields_more": extra}), exp.clone());
                }
            }
        }
        // borrowed slices
        let r = guard(|| {
            let mut it = c.iter();
            let mut t = vec![];
            for _ in 0..k + 2 {
                let h = it.size_hint();
                match it.next() {
                    Some(s) => t.push(json!({"len": h.0, "hint": hint(h), "item": s})),
                    None => t.push(json!({"len": h.0, "hint": hint(h), "item": null})),
                }
            }
            let extra = it.next().is_some();
            (json!(t), extra)
        });
        match r {
            Err(e) => ctx.fail(C, "C08.iter-slices-no-panic", input, json!(e), exp),
            Ok((t, extra)) => {
                if t != exp || extra {
                    ctx.fail(C, "C08.iter-slices-trace", input, json!({"trace": t, "yields_more": extra}), exp);
                }
            }
        }
    }
}

/// input: {"x": [labels], "a": [[labels]..], "b": [[labels]..]} — an operation batch is accepted iff
/// it has one source type and one target type per label; its per-operation view yields
/// (label, source type, target type) in order; a one-element batch equals `singleton`
fn chk_operations(ctx: &mut Ctx, input: &Value) {
    const C: &str = "operations";
    let (x, a, b) = match (u8s(&input["x"]), u8ss(&input["a"]), u8ss(&input["b"])) {
        (Some(x), Some(a), Some(b)) => (x, a, b),
        _ => return,
    };
    let ok = x.len() == a.len() && x.len() == b.len();
    ctx.case(C, input, ok && x.len() >= 2 && a != b);
    let (ca, cb) = match (build_s(ctx, C, input, &a), build_s(ctx, C, input, &b)) {
        (Some(p), Some(q)) => (p, q),
        _ => return,
    };
    let triples = |x: &Vec<u8>, a: &LL, b: &LL| -> Value { json!((0..x.len()).map(|i| json!([x[i], a[i], b[i]])).collect::<Vec<_>>()) };
    let view = |ops: &Operations<VecKind, u8, u8>| -> Value { json!(ops.iter().map(|(l, s, t)| json!([l, s, t])).collect::<Vec<_>>()) };
    let r = guard(|| Operations::<VecKind, u8, u8>::new(mk_sf(&x), ca.clone(), cb.clone()));
    match r {
        Err(e) => ctx.fail(C, "C08.operations-no-panic", input, json!(e), json!(ok)),
        Ok(None) => {
            if ok {
                ctx.fail(C, "C08.operations-accepts", input, json!("None"), json!("Some"));
            }
        }
        Ok(Some(ops)) => {
            if !ok {
                ctx.fail(C, "C08.operations-accepts", input, json!("Some"), json!("None"));
            } else {
                let exp = triples(&x, &a, &b);
                match guard(|| (view(&ops), ops.len(), ops.iter().size_hint())) {
                    Err(e) => ctx.fail(C, "C08.operations-no-panic", input, json!(e), exp),
                    Ok((v, l, h)) => {
                        if v != exp {
                            ctx.fail(C, "C08.operations-view", input, v, exp);
                        }
                        if l != x.len() || h != (x.len(), Some(x.len())) {
                            ctx.fail(C, "C08.operations-len", input, json!([l, h.0, h.1]), json!(x.len()));
                        }
                    }
                }
                // stored columns keep the invariant and denote the same lists
                match (read_s(&ops.a), read_s(&ops.b)) {
                    (Ok(ra), Ok(rb)) if ra == a && rb == b && ops.x.0 .0 == x => {}
                    (ra, rb) => ctx.fail(C, "C08.operations-columns", input, json!([format!("{:?}", ra), format!("{:?}", rb), ops.x.0 .0]), json!([a, b, x])),
                }
            }
        }
    }
    if ok && x.len() == 1 {
        let r = guard(|| Operations::<VecKind, u8, u8>::singleton(x[0], mk_sf(&a[0]), mk_sf(&b[0])));
        let exp = triples(&x, &a, &b);
        match r {
            Err(e) => ctx.fail(C, "C08.operations-singleton-no-panic", input, json!(e), exp),
            Ok(ops) => match (read_s(&ops.a), read_s(&ops.b)) {
                (Ok(ra), Ok(rb)) => {
                    let v = guard(|| view(&ops)).unwrap_or(json!("panic"));
                    if ra != a || rb != b || ops.x.0 .0 != x || v != exp || ops.len() != 1 {
                        ctx.fail(C, "C08.operations-singleton-denotes", input, json!({"a": ra, "b": rb, "x": ops.x.0 .0, "view": v}), exp);
                    }
                }
                (ra, rb) => ctx.fail(C, "C08.operations-singleton-invariant", input, json!([format!("{:?}", ra), format!("{:?}", rb)]), exp),
            },
        }
    }
}

// ------------------------------------------------------------------------------------------------
// generators
// ------------------------------------------------------------------------------------------------

/// all lists of length `len` over 0..n
fn tuples(len: usize, n: usize) -> Vec<Vec<usize>> {
    let mut out = vec![vec![]];
    for _ in 0..len {
        let mut next = vec![];
        for t in &out {
            for v in 0..n {
                let mut u: Vec<usize> = t.clone();
                u.push(v);
                next.push(u);
            }
        }
        out = next;
    }
    out
}

/// all P with at most `max_segs` segments, each of length at most `max_size`, codomain exactly n
fn all_ps(max_segs: usize, max_size: usize, n: usize) -> Vec<P> {
    let mut one: Vec<Vec<usize>> = vec![];
    for l in 0..=max_size {
        one.extend(tuples(l, n));
    }
    let mut out = vec![];
    let mut cur: Vec<Vec<Vec<usize>>> = vec![vec![]];
    out.push(P { segs: vec![], n });
    for _ in 0..max_segs {
        let mut next = vec![];
        for p in &cur {
            for s in &one {
                let mut q = p.clone();
                q.push(s.clone());
                next.push(q);
            }
        }
        for q in &next {
            out.push(P { segs: q.clone(), n });
        }
        cur = next;
    }
    out
}

fn small_ps(max_segs: usize, max_size: usize, max_n: usize) -> Vec<P> {
    (0..=max_n).flat_map(|n| all_ps(max_segs, max_size, n)).collect()
}

/// random P with exactly `k` segments and codomain n; segment sizes biased towards 0 and repeats
fn rand_p_with(r: &mut Rng, k: usize, max_size: usize, n: usize) -> P {
    let mode = r.below(4);
    let segs = (0..k)
        .map(|_| {
            let l = if n == 0 {
                0
            } else {
                match mode {
                    0 => r.range(0, max_size),
                    1 => {
                        if r.chance(1, 2) {
                            0
                        } else {
                            r.range(1, max_size.max(1))
                        }
                    }
                    2 => r.range(0, 1),
                    _ => r.range(0, max_size),
                }
            };
            if mode == 3 && n > 0 {
                let v = r.below(n);
                vec![v; l] // duplicate entries
            } else {
                r.vec_below(l, n.max(1))
            }
        })
        .collect();
    P { segs, n }
}
fn rand_p(r: &mut Rng, max_segs: usize, max_size: usize, max_n: usize) -> P {
    let k = r.range(0, max_segs);
    let n = r.range(0, max_n);
    rand_p_with(r, k, max_size, n)
}
/// random P whose total number of values is exactly `total` (random cut points, empty segments allowed)
fn rand_p_total(r: &mut Rng, total: usize, n: usize) -> P {
    let mut segs: Vec<Vec<usize>> = vec![];
    let mut left = total;
    while left > 0 {
        let l = r.range(0, left.min(3));
        segs.push(r.vec_below(l, n.max(1)));
        left -= l;
    }
    for _ in 0..r.below(3) {
        let at = r.below(segs.len() + 1);
        segs.insert(at, vec![]);
    }
    P { segs, n }
}

fn corner_ps() -> Vec<P> {
    vec![
        P { segs: vec![], n: 0 },
        P { segs: vec![], n: 3 },
        P { segs: vec![vec![]], n: 0 },
        P { segs: vec![vec![]], n: 2 },
        P { segs: vec![vec![], vec![], vec![]], n: 0 },
        P { segs: vec![vec![], vec![], vec![]], n: 1 },
        P { segs: vec![vec![0]], n: 1 },
        P { segs: vec![vec![0, 0, 0]], n: 1 },
        P { segs: vec![vec![], vec![1, 0]], n: 2 },
        P { segs: vec![vec![1, 0], vec![]], n: 2 },
        P { segs: vec![vec![], vec![2], vec![], vec![], vec![0, 1], vec![]], n: 3 },
        P { segs: vec![vec![0], vec![1], vec![2]], n: 3 },
        P { segs: vec![vec![2], vec![1], vec![0]], n: 3 },
        P { segs: vec![vec![0, 1, 2]], n: 3 },
        P { segs: vec![vec![0, 1, 2]], n: 7 },
        P { segs: vec![vec![1, 1], vec![1, 1], vec![1]], n: 2 },
        P { segs: vec![vec![3, 1, 2], vec![0], vec![], vec![2, 2, 0, 1]], n: 4 },
        P { segs: vec![vec![0; 9], vec![], vec![4, 3, 2, 1, 0]], n: 5 },
        P { segs: (0..12).map(|i| (0..(i % 4)).map(|j| (i + j) % 6).collect()).collect(), n: 6 },
    ]
}

pub fn run(ctx: &mut Ctx) {
    if let Some((name, input)) = ctx.replay.clone() {
        for (n, c) in CHECKS {
            if *n == name {
                c(ctx, &input);
            }
        }
        return;
    }
    let thorough = ctx.thorough();
    let corners = corner_ps();
    // exhaustive families
    let tiny = small_ps(2, 2, 2); // <=2 segments of length <=2 over codomain <=2
    let small = small_ps(3, 2, 2); // <=3 segments
    let unary: Vec<P> = if thorough { [small_ps(3, 2, 2), all_ps(2, 3, 3), all_ps(4, 1, 2)].concat() } else { small.clone() };

    // ---- construct ---------------------------------------------------------------------------
    // exhaustive: sizes of length <=3 over 0..=3, value arrays of length 0..=5, st in 0..=sum+2
    for l in 0..=3usize {
        for sizes in tuples(l, 4) {
            let sum: usize = sizes.iter().sum();
            for vl in 0..=5usize {
                if !thorough && vl != sum && vl != sum + 1 && vl + 1 != sum && vl != 0 {
                    continue;
                }
                let vals: Vec<usize> = (0..vl).map(|i| (i * 2 + 1) % 3).collect();
                for st in 0..=sum + 2 {
                    chk_construct(ctx, &json!({"sizes": sizes, "st": st, "vals": vals, "n": 3}));
                }
                chk_construct(ctx, &json!({"sizes": sizes, "st": vl + 1, "vals": vals, "n": 3}));
            }
        }
    }
    for p in corners.iter().chain(small.iter()) {
        let sum = p.total();
        for st in [0, sum, sum + 1, sum + 2] {
            chk_construct(ctx, &json!({"sizes": p.sizes(), "st": st, "vals": p.flat(), "n": p.n}));
        }
    }
    for _ in 0..ctx.budget(6000, 200000) {
        let p = rand_p(&mut ctx.rng, 6, 3, 4);
        let mut sizes = p.sizes();
        let mut vals = p.flat();
        let mut n = p.n;
        // perturb: sizes entry +-1, value array longer/shorter, or keep
        match ctx.rng.below(5) {
            0 if !sizes.is_empty() => {
                let i = ctx.rng.below(sizes.len());
                sizes[i] += 1;
            }
            1 if !sizes.is_empty() => {
                let i = ctx.rng.below(sizes.len());
                sizes[i] = sizes[i].saturating_sub(1);
            }
            2 => {
                n = n.max(1);
                vals.push(0);
            }
            3 => {
                vals.pop();
            }
            _ => {}
        }
        let sum: usize = sizes.iter().sum();
        let st = match ctx.rng.below(6) {
            0 => sum,
            1 => sum + 2,
            2 => vals.len() + 1,
            _ => sum + 1,
        };
        chk_construct(ctx, &json!({"sizes": sizes, "st": st, "vals": vals, "n": n}));
    }

    // ---- basic -------------------------------------------------------------------------------
    for n in 0..=3usize {
        for l in 0..=(if thorough { 5 } else { 4 }) {
            for vals in tuples(l, n) {
                chk_basic(ctx, &json!({"vals": vals, "n": n}));
            }
        }
        chk_basic(ctx, &json!({"vals": [], "n": n + 4}));
    }
    for _ in 0..ctx.budget(1000, 30000) {
        let n = ctx.rng.range(1, 9);
        let l = ctx.rng.range(0, 12);
        let vals = ctx.rng.vec_below(l, n);
        chk_basic(ctx, &json!({"vals": vals, "n": n}));
    }

    // ---- coproduct / tensor ------------------------------------------------------------------
    let bin: &Vec<P> = if thorough { &small } else { &tiny };
    for a in bin.iter().chain(corners.iter()) {
        for b in bin.iter().chain(corners.iter()) {
            let inp = json!({"a": a.json(), "b": b.json()});
            if a.n == b.n || (a.segs.len() + b.segs.len() <= 2) {
                chk_coproduct(ctx, &inp);
            }
            if thorough || a.segs.len() + b.segs.len() <= 3 || (a.segs.len() > 3 && b.segs.len() > 3) {
                chk_tensor(ctx, &inp);
            }
        }
    }
    for _ in 0..ctx.budget(6000, 250000) {
        let a = rand_p(&mut ctx.rng, 5, 3, 4);
        let b = if ctx.rng.chance(5, 6) {
            let k = ctx.rng.range(0, 5);
            rand_p_with(&mut ctx.rng, k, 3, a.n)
        } else {
            rand_p(&mut ctx.rng, 5, 3, 4)
        };
        chk_coproduct(ctx, &json!({"a": a.json(), "b": b.json()}));
        let b = rand_p(&mut ctx.rng, 5, 3, 4);
        chk_tensor(ctx, &json!({"a": a.json(), "b": b.json()}));
    }

    // ---- map_indexes -------------------------------------------------------------------------
    // exhaustive: every small a, every x : w -> len(a) with w <= 3 (w <= 4 thorough), plus wrong codomains
    for a in unary.iter().chain(corners.iter()) {
        let k = a.segs.len();
        let wmax = if k > 4 { 1 } else if thorough { 4 } else { 3 };
        for w in 0..=wmax {
            for x in tuples(w, k) {
                chk_map_indexes(ctx, &json!({"a": a.json(), "x": x, "xn": k}));
            }
        }
        chk_map_indexes(ctx, &json!({"a": a.json(), "x": [], "xn": k + 1}));
        if k > 0 {
            chk_map_indexes(ctx, &json!({"a": a.json(), "x": [0], "xn": k + 1}));
            chk_map_indexes(ctx, &json!({"a": a.json(), "x": vec![0; k - 1], "xn": k - 1 + (k == 1) as usize * 2}));
            // identity, reversal, rotation, constant maps, doubled identity
            let id: Vec<usize> = (0..k).collect();
            let rev: Vec<usize> = (0..k).rev().collect();
            let rot: Vec<usize> = (0..k).map(|i| (i + 1) % k).collect();
            let dbl: Vec<usize> = id.iter().chain(id.iter()).cloned().collect();
            let many = vec![k - 1; 2 * k + 3];
            for x in [id, rev, rot, dbl, many] {
                chk_map_indexes(ctx, &json!({"a": a.json(), "x": x, "xn": k}));
            }
        }
    }
    for _ in 0..ctx.budget(10000, 400000) {
        let a = rand_p(&mut ctx.rng, 6, 3, 4);
        let k = a.segs.len();
        let (x, xn) = match ctx.rng.below(8) {
            0 => {
                let xn = if ctx.rng.chance(1, 2) { k + 1 } else { k.saturating_sub(1) };
                let w = if xn == 0 { 0 } else { ctx.rng.range(0, 4) };
                (ctx.rng.vec_below(w, xn.max(1)), xn)
            }
            1 if k > 0 => {
                // a permutation
                let mut p: Vec<usize> = (0..k).collect();
                for i in (1..k).rev() {
                    let j = ctx.rng.below(i + 1);
                    p.swap(i, j);
                }
                (p, k)
            }
            _ => {
                let w = if k == 0 { 0 } else { ctx.rng.range(0, 8) };
                (ctx.rng.vec_below(w, k.max(1)), k)
            }
        };
        chk_map_indexes(ctx, &json!({"a": a.json(), "x": x, "xn": xn}));
    }

    // ---- map_values --------------------------------------------------------------------------
    for a in small.iter().chain(corners.iter()) {
        if a.n <= 3 {
            for m in 0..=2usize {
                if a.n > 0 && m == 0 {
                    continue;
                }
                for f in tuples(a.n, m) {
                    chk_map_values(ctx, &json!({"a": a.json(), "f": f, "fn": m}));
                }
            }
        }
        // wrong domain
        chk_map_values(ctx, &json!({"a": a.json(), "f": vec![0; a.n + 1], "fn": 1}));
        if a.n > 0 {
            chk_map_values(ctx, &json!({"a": a.json(), "f": vec![0; a.n - 1], "fn": 1}));
        }
    }
    for _ in 0..ctx.budget(6000, 250000) {
        let a = rand_p(&mut ctx.rng, 6, 3, 5);
        let m = ctx.rng.range(if a.n > 0 { 1 } else { 0 }, 6);
        let l = match ctx.rng.below(10) {
            0 => a.n + 1,
            1 => a.n.saturating_sub(1),
            _ => a.n,
        };
        let f = if m == 0 { vec![] } else { ctx.rng.vec_below(l, m) };
        chk_map_values(ctx, &json!({"a": a.json(), "f": f, "fn": m}));
    }

    // ---- flatmap -----------------------------------------------------------------------------
    // exhaustive: b over the tiny family (<=2 segments), a over all lists with <=2 (3 thorough) segments of
    // length <=2 into len(b)
    for b in tiny.iter().chain(corners.iter()) {
        let k = b.segs.len();
        if k > 4 {
            continue;
        }
        for a in all_ps(if thorough { 3 } else { 2 }, 2, k) {
            chk_flatmap(ctx, &json!({"a": a.json(), "b": b.json()}));
        }
    }
    for b in corners.iter() {
        // identity-like and constant a
        let k = b.segs.len();
        let a1 = P { segs: (0..k).map(|i| vec![i]).collect(), n: k };
        let a2 = P { segs: vec![(0..k).collect(), vec![], (0..k).rev().collect()], n: k };
        let a3 = P { segs: vec![], n: k };
        for a in [a1, a2, a3] {
            chk_flatmap(ctx, &json!({"a": a.json(), "b": b.json()}));
        }
    }
    for _ in 0..ctx.budget(10000, 400000) {
        let b = rand_p(&mut ctx.rng, 5, 3, 4);
        let k = ctx.rng.range(0, 5);
        let a = rand_p_with(&mut ctx.rng, k, 4, b.segs.len());
        chk_flatmap(ctx, &json!({"a": a.json(), "b": b.json()}));
    }

    // ---- flatmap_sources ---------------------------------------------------------------------
    for a in tiny.iter().chain(corners.iter()) {
        let t = a.total();
        if t > 4 {
            // one fixed b
            let b = P { segs: (0..t).map(|i| (0..(i % 3)).map(|j| (i + j) % 2).collect()).collect(), n: 2 };
            chk_flatmap_sources(ctx, &json!({"a": a.json(), "b": b.json()}));
            continue;
        }
        // every b with t segments of length <= 1 (<=2 thorough when t <= 3) over codomain 2, and over codomain 0
        let ms = if thorough && t <= 3 { 2 } else { 1 };
        for b in all_ps(t, ms, 2).into_iter().filter(|b| b.segs.len() == t) {
            chk_flatmap_sources(ctx, &json!({"a": a.json(), "b": b.json()}));
        }
        let b0 = P { segs: vec![vec![]; t], n: 0 };
        chk_flatmap_sources(ctx, &json!({"a": a.json(), "b": b0.json()}));
    }
    for _ in 0..ctx.budget(8000, 300000) {
        let a = rand_p(&mut ctx.rng, 5, 3, 4);
        let n = ctx.rng.range(0, 4);
        let t = a.total();
        let b = rand_p_with(&mut ctx.rng, t, 3, n);
        chk_flatmap_sources(ctx, &json!({"a": a.json(), "b": b.json()}));
        // the other way round: fix b, cut its index set at random
        let b = rand_p(&mut ctx.rng, 6, 3, 4);
        let a = rand_p_total(&mut ctx.rng, b.segs.len(), 3);
        chk_flatmap_sources(ctx, &json!({"a": a.json(), "b": b.json()}));
    }

    // ---- iterate -----------------------------------------------------------------------------
    for a in unary.iter().chain(corners.iter()) {
        chk_iterate(ctx, &json!({"a": a.json()}));
    }
    for _ in 0..ctx.budget(4000, 100000) {
        let a = rand_p(&mut ctx.rng, 9, 4, 5);
        chk_iterate(ctx, &json!({"a": a.json()}));
    }

    // ---- operations --------------------------------------------------------------------------
    // exhaustive on lengths: |x|, |a|, |b| in 0..=3 with fixed contents; then contents at random
    for lx in 0..=3usize {
        for la in 0..=3usize {
            for lb in 0..=3usize {
                let x: Vec<u8> = (0..lx).map(|i| 10 + i as u8).collect();
                let a: LL = (0..la).map(|i| (0..(i + 1) % 3).map(|j| (i + j) as u8).collect()).collect();
                let b: LL = (0..lb).map(|i| (0..(i + 2) % 3).map(|j| (7 + i * 2 + j) as u8).collect()).collect();
                chk_operations(ctx, &json!({"x": x, "a": a, "b": b}));
            }
        }
    }
    for _ in 0..ctx.budget(5000, 150000) {
        let k = ctx.rng.range(0, 5);
        let pa = rand_p_with(&mut ctx.rng, k, 3, 3);
        let kb = if ctx.rng.chance(1, 8) { ctx.rng.range(0, 5) } else { k };
        let pb = rand_p_with(&mut ctx.rng, kb, 3, 3);
        let kx = if ctx.rng.chance(1, 8) { ctx.rng.range(0, 5) } else { k };
        let x: Vec<u8> = (0..kx).map(|_| ctx.rng.below(3) as u8 + 10).collect();
        let a: LL = pa.segs.iter().map(|s| s.iter().map(|&v| v as u8).collect()).collect();
        let b: LL = pb.segs.iter().map(|s| s.iter().map(|&v| v as u8).collect()).collect();
        chk_operations(ctx, &json!({"x": x, "a": a, "b": b}));
    }

    ctx.notes.push(
        "rule: plain lists of lists P{segs,n} (finite-function flavour) and their relabelling lab(v)=3v+100 (label flavour); \
         exhaustive: all P with <=3 segments of length <=2 over codomain <=2 (quick; thorough adds <=2 segs of length<=3 over 3 and <=4 segs of length<=1) \
         for iterate/map_indexes (x all maps w->len, w<=3 quick / <=4 thorough, plus identity/reversal/rotation/doubled/constant/wrong-codomain), \
         map_values (all f: n->m, m<=2), pairs of the <=2-segment family (quick) / <=3-segment family (thorough) for coproduct/tensor, \
         flatmap: b in <=2-segment family x all a with <=2(3) segments of length<=2; flatmap_sources: a in <=2-segment family x all b with total(a) segments of length<=1(2); \
         construct: all size lists of length<=3 over 0..3 x value lengths 0..5 x st in 0..sum+2; operations: all length triples in 0..3; \
         random: <=6 segments (iterate <=9) of length<=3(4) over codomain<=4(5), re-index width<=8, incl. permutations, duplicates-only segments, empty segments, wrong codomains; \
         19 fixed corners; non-trivial = >=2 segments and >=1 value on every operand (map_indexes: additionally x non-empty and not strictly increasing)"
            .into(),
    );
}
