//! C19 — Var-built terms mean the expression written; forgetting copies keeps meaning.
//!
//! Oracles (all written from the property statement, plain loops over Vec):
//!  * `expected_built`: the term an expression program denotes — one hyperedge per applied operator,
//!    one variable hyperedge per variable, one fresh node per production / use / declared interface
//!    position; compared up to isomorphism AND up to the order of a variable hyperedge's tentacles
//!    (the statement does not fix that order), via the `hubify` transformation.
//!  * `expr_dag`: the expression itself (one node per variable, one hyperedge per operator).
//!  * `forget_oracle`: quotient of the term by "all incident nodes of an eligible variable hyperedge
//!    are one node", eligible hyperedges removed, everything else untouched.
//!  * `eval_copy`: relational evaluation reading uniform variable hyperedges as copies.
use crate::ctx::{guard, Ctx, Rng};
use crate::model::*;
use open_hypergraphs::lax;
use open_hypergraphs::lax::functor::Functor;
use open_hypergraphs::lax::var;
use open_hypergraphs::lax::var::forget as fg;
use serde_json::{json, Value};
use std::cell::RefCell;
use std::rc::Rc;

type Check = fn(&mut Ctx, &Value);
const CHECKS: &[(&str, Check)] = &[
    ("all_equal", chk_all_equal),
    ("op_image", chk_op_image),
    ("forget", chk_forget),
    ("forget_mono", chk_forget_mono),
    ("build", chk_build),
    ("build_meaning", chk_build_meaning),
];

// ------------------------------------------------------------------------------------------------
// the test signature: node labels u8, edge labels Op(u8); Op(VAR) is the variable label
// ------------------------------------------------------------------------------------------------
pub const VAR: u8 = 99;

#[derive(Clone, Debug, PartialEq)]
pub struct Op(pub u8);

impl var::HasVar for Op {
    fn var() -> Op {
        Op(VAR)
    }
}

/// binary operator k applied to operand types (l, r): (result type, edge label). Deliberately not
/// symmetric in (l, r) so that swapped operands / swapped type arguments are visible.
fn bin_sig(k: usize, l: u8, r: u8) -> (u8, u8) {
    let ty = match k {
        0 => (l + 2 * r) % 3,
        k if k % 2 == 1 => l,
        _ => r,
    };
    (ty, 20 + k as u8)
}
/// unary operator k (0 = not, 1 = neg)
fn un_sig(k: usize, l: u8) -> (u8, u8) {
    (if k == 0 { l } else { (l + 1) % 3 }, 40 + k as u8)
}

macro_rules! sig_bin {
    ($tr:ident, $f:ident, $k:expr) => {
        impl var::$tr<u8, Op> for Op {
            fn $f(l: u8, r: u8) -> (u8, Op) {
                let (t, o) = bin_sig($k, l, r);
                (t, Op(o))
            }
        }
    };
}
sig_bin!(HasBitXor, bitxor, 0);
sig_bin!(HasBitAnd, bitand, 1);
sig_bin!(HasBitOr, bitor, 2);
sig_bin!(HasShl, shl, 3);
sig_bin!(HasShr, shr, 4);
sig_bin!(HasAdd, add, 5);
sig_bin!(HasMul, mul, 6);
sig_bin!(HasSub, sub, 7);
sig_bin!(HasDiv, div, 8);
impl var::HasNot<u8, Op> for Op {
    fn not(l: u8) -> (u8, Op) {
        let (t, o) = un_sig(0, l);
        (t, Op(o))
    }
}
impl var::HasNeg<u8, Op> for Op {
    fn neg(l: u8) -> (u8, Op) {
        let (t, o) = un_sig(1, l);
        (t, Op(o))
    }
}

type T = lax::OpenHypergraph<u8, Op>;
type V = var::Var<u8, Op>;

fn to_term(m: &M, q: &[(usize, usize)]) -> T {
    let mut f = m.to_lax();
    for &(a, b) in q {
        f.unify(lax::NodeId(a), lax::NodeId(b));
    }
    f.map_edges(Op)
}

/// read a library term back; pending identifications are applied by the reference quotient
/// (a conforming answer may be lax). Err = not well formed.
fn read_term(f: &T) -> Result<M, String> {
    let g: LOH = f.clone().map_edges(|Op(x)| x);
    if g.hypergraph.adjacency.len() != g.hypergraph.edges.len() {
        return Err("adjacency / edge label lengths differ".into());
    }
    let (m, q) = M::from_lax(&g);
    if !m.valid() {
        return Err(format!("node id out of range: {}", m.json()));
    }
    if q.iter().any(|&(a, b)| a >= m.w.len() || b >= m.w.len()) {
        return Err("pending identification out of range".into());
    }
    match quotient(&m, &q) {
        Some((r, _)) => Ok(r),
        None => Err("pending identification of differently labelled nodes".into()),
    }
}

fn pairs_from_json(v: &Value) -> Option<Vec<(usize, usize)>> {
    match v {
        Value::Null => Some(vec![]),
        _ => v.as_array()?.iter().map(|p| Some((p.get(0)?.as_u64()? as usize, p.get(1)?.as_u64()? as usize))).collect(),
    }
}
fn u8s(v: &Value) -> Option<Vec<u8>> {
    v.as_array()?.iter().map(|x| x.as_u64().filter(|&y| y < 256).map(|y| y as u8)).collect()
}
fn uss(v: &Value) -> Option<Vec<usize>> {
    v.as_array()?.iter().map(|x| x.as_u64().map(|y| y as usize)).collect()
}

// ------------------------------------------------------------------------------------------------
// oracles
// ------------------------------------------------------------------------------------------------
fn incident(m: &M, e: usize) -> Vec<usize> {
    m.src[e].iter().chain(m.tgt[e].iter()).cloned().collect()
}
/// variable-labelled and all incident nodes carry one label (vacuously true without incident nodes)
fn uniform_var(m: &M, e: usize) -> bool {
    if m.x[e] != VAR {
        return false;
    }
    let inc = incident(m, e);
    inc.iter().all(|&v| m.w[v] == m.w[inc[0]])
}
fn eligible(m: &M, e: usize, mono: bool) -> bool {
    uniform_var(m, e) && (!mono || (m.src[e].len() == 1 && m.tgt[e].len() == 1))
}

/// (the well-formed term with its pending identifications applied, the expected forgotten term)
fn forget_oracle(m: &M, q: &[(usize, usize)], mono: bool) -> Option<(M, M)> {
    let (m0, _) = quotient(m, q)?;
    let mut kept = M { w: m0.w.clone(), x: vec![], src: vec![], tgt: vec![], s: m0.s.clone(), t: m0.t.clone() };
    let mut pairs = vec![];
    for e in 0..m0.x.len() {
        if eligible(&m0, e, mono) {
            let inc = incident(&m0, e);
            for i in 1..inc.len() {
                pairs.push((inc[0], inc[i]));
            }
        } else {
            kept.x.push(m0.x[e]);
            kept.src.push(m0.src[e].clone());
            kept.tgt.push(m0.tgt[e].clone());
        }
    }
    let (r, _) = quotient(&kept, &pairs)?;
    Some((m0, r))
}

/// signature of an edge that survives any relabelling of nodes: (label, source labels, target labels)
fn edge_sigs(m: &M, keep: impl Fn(usize) -> bool) -> Vec<(u8, Vec<u8>, Vec<u8>)> {
    edge_sigs_h(m, keep, false)
}
/// `hub`: the label lists of variable hyperedges are sorted (tentacle order is not determined)
fn edge_sigs_h(m: &M, keep: impl Fn(usize) -> bool, hub: bool) -> Vec<(u8, Vec<u8>, Vec<u8>)> {
    let mut v: Vec<_> = (0..m.x.len())
        .filter(|&e| keep(e))
        .map(|e| {
            let mut a = m.src[e].iter().map(|&i| m.w[i]).collect::<Vec<_>>();
            let mut b = m.tgt[e].iter().map(|&i| m.w[i]).collect::<Vec<_>>();
            if hub && m.x[e] == VAR {
                a.sort();
                b.sort();
            }
            (m.x[e], a, b)
        })
        .collect();
    v.sort();
    v
}

// ------------------------------------------------------------------------------------------------
// isomorphism search with a step budget and most-constrained-first ordering (model::iso explores
// hyperedges in index order, which is exponential on long chains of equally labelled operators when
// the answer is "no").  Same notion of isomorphism as model::iso: node and hyperedge bijections
// preserving labels, ordered incidence and both interfaces position by position.
// Some(true/false) = decided, None = budget exhausted.
// ------------------------------------------------------------------------------------------------
struct IsoSearch<'a> {
    a: &'a M,
    b: &'a M,
    pn: Vec<usize>,
    inv: Vec<usize>,
    done: Vec<bool>,
    used: Vec<bool>,
    steps: usize,
    budget: usize,
}
const UNB: usize = usize::MAX;
impl<'a> IsoSearch<'a> {
    fn bind(&mut self, u: usize, v: usize, trail: &mut Vec<usize>) -> bool {
        if self.pn[u] != UNB {
            return self.pn[u] == v;
        }
        if self.inv[v] != UNB || self.a.w[u] != self.b.w[v] {
            return false;
        }
        self.pn[u] = v;
        self.inv[v] = u;
        trail.push(u);
        true
    }
    fn undo(&mut self, trail: Vec<usize>) {
        for u in trail {
            self.inv[self.pn[u]] = UNB;
            self.pn[u] = UNB;
        }
    }
    fn rec(&mut self, left: usize) -> Option<bool> {
        if left == 0 {
            // nodes not reached through an interface or a hyperedge: equal label multisets
            let mut la: Vec<u8> = (0..self.a.w.len()).filter(|&u| self.pn[u] == UNB).map(|u| self.a.w[u]).collect();
            let mut lb: Vec<u8> = (0..self.b.w.len()).filter(|&v| self.inv[v] == UNB).map(|v| self.b.w[v]).collect();
            la.sort();
            lb.sort();
            return Some(la == lb);
        }
        // most constrained hyperedge of a: most bound incident nodes, then fewest free ones
        let mut best = UNB;
        let mut best_key = (0usize, 0usize);
        for e in 0..self.a.x.len() {
            if self.done[e] {
                continue;
            }
            let inc = self.a.src[e].iter().chain(self.a.tgt[e].iter());
            let bound = inc.clone().filter(|&&u| self.pn[u] != UNB).count();
            let free = self.a.src[e].len() + self.a.tgt[e].len() - bound;
            let key = (bound + 1, usize::MAX - free);
            if best == UNB || key > best_key {
                best = e;
                best_key = key;
            }
        }
        let e = best;
        self.done[e] = true;
        for f in 0..self.b.x.len() {
            if self.used[f] || self.a.x[e] != self.b.x[f] || self.a.src[e].len() != self.b.src[f].len() || self.a.tgt[e].len() != self.b.tgt[f].len() {
                continue;
            }
            self.steps += 1;
            if self.steps > self.budget {
                return None;
            }
            let mut trail = vec![];
            let mut ok = true;
            let pairs: Vec<(usize, usize)> = self.a.src[e].iter().cloned().zip(self.b.src[f].iter().cloned()).chain(self.a.tgt[e].iter().cloned().zip(self.b.tgt[f].iter().cloned())).collect();
            for (u, v) in pairs {
                if !self.bind(u, v, &mut trail) {
                    ok = false;
                    break;
                }
            }
            if ok {
                self.used[f] = true;
                match self.rec(left - 1) {
                    Some(false) => {}
                    r => return r,
                }
                self.used[f] = false;
            }
            self.undo(trail);
        }
        self.done[e] = false;
        Some(false)
    }
}
fn iso_b(a: &M, b: &M, budget: usize) -> Option<bool> {
    if a.w.len() != b.w.len() || a.x.len() != b.x.len() || a.s.len() != b.s.len() || a.t.len() != b.t.len() {
        return Some(false);
    }
    // cheap necessary conditions
    let (mut wa, mut wb) = (a.w.clone(), b.w.clone());
    wa.sort();
    wb.sort();
    if wa != wb || edge_sigs(a, |_| true) != edge_sigs(b, |_| true) {
        return Some(false);
    }
    let mut st = IsoSearch { a, b, pn: vec![UNB; a.w.len()], inv: vec![UNB; a.w.len()], done: vec![false; a.x.len()], used: vec![false; a.x.len()], steps: 0, budget };
    let mut trail = vec![];
    let ifc: Vec<(usize, usize)> = a.s.iter().cloned().zip(b.s.iter().cloned()).chain(a.t.iter().cloned().zip(b.t.iter().cloned())).collect();
    for (u, v) in ifc {
        if !st.bind(u, v, &mut trail) {
            return Some(false);
        }
    }
    st.rec(a.x.len())
}
const ISO_BUDGET: usize = 300_000;
/// true if `got` is the expected term (up to isomorphism; `hub`: and up to the order of variable
/// hyperedge tentacles); otherwise reports `clause` (or `clause`-undecided) and returns false
fn expect_same(ctx: &mut Ctx, name: &str, clause: &str, input: &Value, got: &M, exp: &M, hub: bool) -> bool {
    let r = if hub {
        if got == exp {
            Ok(true)
        } else {
            same_term(&hubify(got), &hubify(exp))
        }
    } else {
        same_term(got, exp)
    };
    match r {
        Ok(true) => true,
        Ok(false) => {
            ctx.fail(name, clause, input, got.json(), exp.json());
            false
        }
        Err(why) => {
            ctx.fail(name, &format!("{}-undecided", clause), input, json!({"why": why, "got": got.json()}), exp.json());
            false
        }
    }
}
/// verdict for the checks: Ok(true/false); Err = undecided within the budget.  On small terms the
/// shared model::iso is consulted as well and must agree.
fn same_term(a: &M, b: &M) -> Result<bool, String> {
    if a == b {
        return Ok(true);
    }
    match iso_b(a, b, ISO_BUDGET) {
        Some(r) => {
            if a.x.len() <= 6 && is_iso(a, b) != r {
                return Err(format!("internal: budgeted search says {}, model::iso says {}", r, !r));
            }
            Ok(r)
        }
        None => Err(format!("isomorphism search undecided after {} steps (terms are not identical)", ISO_BUDGET)),
    }
}

#[derive(Clone, Debug, PartialEq)]
enum Ev {
    Conflict,
    Out(Vec<Option<u64>>),
}
impl Ev {
    fn json(&self) -> Value {
        match self {
            Ev::Conflict => json!("conflict"),
            Ev::Out(v) => json!(v.iter().map(|x| x.map(|y| y.to_string())).collect::<Vec<_>>()),
        }
    }
}
fn mix(h: u64, x: u64) -> u64 {
    let mut z = (h ^ x).wrapping_add(0x9E3779B97F4A7C15).wrapping_mul(0xBF58476D1CE4E5B9);
    z ^= z >> 29;
    z.wrapping_mul(0x94D049BB133111EB) ^ (z >> 32)
}
/// Relational evaluation: nodes hold values; interface position i of `s` receives inputs[i]; an
/// operator hyperedge whose sources all hold a value writes f(label, inputs, j) on its j-th target;
/// a uniform variable hyperedge is a copy: all its incident nodes hold the same value.  A node that
/// would hold two different values makes the whole evaluation `Conflict`.  (The closure is
/// independent of the firing order, see the argument in the module notes.)
fn eval_copy(m: &M, inputs: &[u64]) -> Ev {
    let n = m.w.len();
    let mut val: Vec<Option<u64>> = vec![None; n];
    fn put(val: &mut Vec<Option<u64>>, v: usize, x: u64) -> Result<bool, ()> {
        match val[v] {
            None => {
                val[v] = Some(x);
                Ok(true)
            }
            Some(y) if y == x => Ok(false),
            _ => Err(()),
        }
    }
    for (i, &v) in m.s.iter().enumerate() {
        if put(&mut val, v, inputs[i]).is_err() {
            return Ev::Conflict;
        }
    }
    let copy: Vec<bool> = (0..m.x.len()).map(|e| uniform_var(m, e)).collect();
    let mut fired = vec![false; m.x.len()];
    loop {
        let mut changed = false;
        for e in 0..m.x.len() {
            if copy[e] {
                let inc = incident(m, e);
                let vals: Vec<u64> = inc.iter().filter_map(|&v| val[v]).collect();
                if let Some(&x) = vals.first() {
                    for &v in &inc {
                        match put(&mut val, v, x) {
                            Err(()) => return Ev::Conflict,
                            Ok(c) => changed |= c,
                        }
                    }
                }
            } else if !fired[e] && m.src[e].iter().all(|&v| val[v].is_some()) {
                fired[e] = true;
                changed = true;
                let mut h = mix(0x1234, m.x[e] as u64);
                for &v in &m.src[e] {
                    h = mix(h, val[v].unwrap());
                }
                h = mix(h, m.tgt[e].len() as u64);
                for (j, &v) in m.tgt[e].iter().enumerate() {
                    if put(&mut val, v, mix(h, j as u64 + 1)).is_err() {
                        return Ev::Conflict;
                    }
                }
            }
        }
        if !changed {
            break;
        }
    }
    Ev::Out(m.t.iter().map(|&v| val[v]).collect())
}
fn input_vectors(k: usize) -> Vec<Vec<u64>> {
    vec![(0..k).map(|i| 1000 + i as u64).collect(), vec![7; k], (0..k).map(|i| 500 + (i as u64 % 2)).collect()]
}

// ------------------------------------------------------------------------------------------------
// check: all_elements_equal (the uniformity test the forget functors rely on)
// input: {"a": [labels], "b": [labels]}
// ------------------------------------------------------------------------------------------------
fn chk_all_equal(ctx: &mut Ctx, input: &Value) {
    let (a, b) = match (u8s(&input["a"]), u8s(&input["b"])) {
        (Some(a), Some(b)) => (a, b),
        _ => return,
    };
    ctx.case("all_equal", input, a.len() + b.len() >= 2);
    let all: Vec<u8> = a.iter().chain(b.iter()).cloned().collect();
    let mut expected = true;
    for i in 0..all.len() {
        for j in 0..all.len() {
            if all[i] != all[j] {
                expected = false;
            }
        }
    }
    match guard(|| fg::verif_hooks_local::all_elements_equal(&a, &b)) {
        Err(p) => ctx.fail("all_equal", "C19.uniform-test-returns", input, json!(format!("panic: {}", p)), json!(expected)),
        Ok(g) => {
            ctx.expect(g == expected, "all_equal", "C19.uniform-test", input, json!(g), json!(expected));
        }
    }
}

// ------------------------------------------------------------------------------------------------
// check: image of one operation under the public Forget functor
// input: {"op": label, "src": [labels], "tgt": [labels]}
// ------------------------------------------------------------------------------------------------
fn chk_op_image(ctx: &mut Ctx, input: &Value) {
    let (op, src, tgt) = match (input["op"].as_u64(), u8s(&input["src"]), u8s(&input["tgt"])) {
        (Some(o), Some(s), Some(t)) if o < 256 => (o as u8, s, t),
        _ => return,
    };
    ctx.case("op_image", input, op == VAR && src.len() + tgt.len() >= 1);
    let all: Vec<u8> = src.iter().chain(tgt.iter()).cloned().collect();
    let uniform = all.iter().all(|&l| l == all[0]);
    let expected = if op == VAR && uniform {
        if all.is_empty() {
            M::empty()
        } else {
            M { w: vec![all[0]], x: vec![], src: vec![], tgt: vec![], s: vec![0; src.len()], t: vec![0; tgt.len()] }
        }
    } else {
        singleton(op, &src, &tgt)
    };
    match guard(|| fg::Forget.map_operation(&Op(op), &src, &tgt)) {
        Err(p) => ctx.fail("op_image", "C19.forget-returns", input, json!(format!("panic: {}", p)), expected.json()),
        Ok(r) => match read_term(&r) {
            Err(why) => ctx.fail("op_image", "C19.forget-wf", input, json!(why), expected.json()),
            Ok(m) => {
                if m.source_type() != src || m.target_type() != tgt {
                    ctx.fail("op_image", "C19.forget-type", input, m.json(), expected.json());
                } else {
                    let clause = if op == VAR && uniform { "C19.forget-merged-node" } else { "C19.forget-other-edges-intact" };
                    expect_same(ctx, "op_image", clause, input, &m, &expected, false);
                }
            }
        },
    }
    // identity on objects
    for &l in all.iter().take(2) {
        match guard(|| Functor::<u8, Op, u8, Op>::map_object(&fg::Forget, &l).collect::<Vec<u8>>()) {
            Ok(v) if v == vec![l] => {}
            Ok(v) => ctx.fail("op_image", "C19.forget-type", input, json!(v), json!([l])),
            Err(p) => ctx.fail("op_image", "C19.forget-returns", input, json!(p), json!([l])),
        }
    }
}

// ------------------------------------------------------------------------------------------------
// check: forget / forget_monogamous on arbitrary well-formed lax terms
// input: {"m": model (edge label 99 = variable), "q": [[a,b],..] pending identifications}
// ------------------------------------------------------------------------------------------------
fn chk_forget(ctx: &mut Ctx, input: &Value) {
    forget_common(ctx, input, false)
}
fn chk_forget_mono(ctx: &mut Ctx, input: &Value) {
    forget_common(ctx, input, true)
}

/// all clause checks of one forgotten term `got` against the oracle; `m0` = the original (quotiented)
/// `hub`: the original is only determined up to the order of its variable hyperedges' tentacles
/// (Var-built terms), so surviving variable hyperedges are compared up to that order too
fn judge_forget(ctx: &mut Ctx, name: &str, input: &Value, m0: &M, expected: &M, got: &M, mono: bool, hub: bool) {
    if got.source_type() != m0.source_type() || got.target_type() != m0.target_type() {
        ctx.fail(name, "C19.forget-type", input, json!({"source": got.source_type(), "target": got.target_type()}), json!({"source": m0.source_type(), "target": m0.target_type()}));
        return;
    }
    // every hyperedge that is not eligible must still be there, with its label and typed arity
    let others = edge_sigs_h(m0, |e| !eligible(m0, e, mono), hub);
    let got_others = edge_sigs_h(got, |e| !eligible(got, e, mono), hub);
    if got_others != others {
        ctx.fail(name, "C19.forget-other-edges-intact", input, json!(format!("{:?}", got_others)), json!(format!("{:?}", others)));
        return;
    }
    // exactly the eligible ones are gone
    let left: Vec<usize> = (0..got.x.len()).filter(|&e| eligible(got, e, mono)).collect();
    if !left.is_empty() || got.x.len() != expected.x.len() {
        ctx.fail(name, "C19.forget-exactly-uniform-var-edges", input, got.json(), expected.json());
        return;
    }
    if !expect_same(ctx, name, "C19.forget-merged-node", input, got, expected, hub) {
        return;
    }
    // a differently labelled variable hyperedge is read as an opaque operator, whose value depends on
    // the order of its tentacles: when that order is not determined (hub) there is nothing to compare
    if hub && (0..m0.x.len()).any(|e| m0.x[e] == VAR && !uniform_var(m0, e)) {
        return;
    }
    for inp in input_vectors(m0.s.len()) {
        let (a, b) = (eval_copy(m0, &inp), eval_copy(got, &inp));
        if a != b {
            ctx.fail(name, "C19.forget-eval", input, b.json(), a.json());
            return;
        }
    }
}

fn forget_common(ctx: &mut Ctx, input: &Value, mono: bool) {
    let name = if mono { "forget_mono" } else { "forget" };
    let (m, q) = match (M::from_json(&input["m"]), pairs_from_json(&input["q"])) {
        (Some(m), Some(q)) if m.valid() && q.iter().all(|&(a, b)| a < m.w.len() && b < m.w.len()) => (m, q),
        _ => return,
    };
    // well-formed = pending identifications only between equally labelled nodes
    let (m0, expected) = match forget_oracle(&m, &q, mono) {
        Some(x) => x,
        None => return,
    };
    let nontrivial = (0..m0.x.len()).any(|e| m0.x[e] == VAR && !incident(&m0, e).is_empty());
    ctx.case(name, input, nontrivial);
    let f = to_term(&m, &q);
    let before = f.clone();
    let got = guard(|| if mono { fg::forget_monogamous(&f) } else { fg::forget(&f) });
    if f != before {
        ctx.fail(name, "C19.forget-input-untouched", input, json!(format!("{:?}", f)), json!(format!("{:?}", before)));
    }
    let r = match got {
        Err(p) => {
            ctx.fail(name, "C19.forget-returns", input, json!(format!("panic: {}", p)), expected.json());
            return;
        }
        Ok(r) => r,
    };
    let gm = match read_term(&r) {
        Err(why) => {
            ctx.fail(name, "C19.forget-wf", input, json!(why), expected.json());
            return;
        }
        Ok(g) => g,
    };
    judge_forget(ctx, name, input, &m0, &expected, &gm, mono, false);
    if !mono {
        // the public functor value is the same map
        match guard(|| fg::Forget.map_arrow(&f)) {
            Err(p) => ctx.fail(name, "C19.forget-returns", input, json!(format!("Forget.map_arrow panic: {}", p)), expected.json()),
            Ok(r2) => match read_term(&r2) {
                Err(why) => ctx.fail(name, "C19.forget-wf", input, json!(why), expected.json()),
                Ok(g2) => {
                    expect_same(ctx, name, "C19.forget-merged-node", input, &g2, &expected, false);
                }
            },
        }
    }
}

// ------------------------------------------------------------------------------------------------
// expression programs over the Var interface
// input: {"prog": [instr..], "s": [handles], "t": [handles], "leak": [handles]}
//   instr: ["new", label] | ["relabel", handle, label] | ["op", code, [handles], [labels]]
//        | ["fn", code, [handles], label] | ["bin", k, a, b] | ["un", k, a]
// every instruction appends the handles it returns to the handle list (op: one per result).
// "relabel" is a second handle on the SAME variable with another default node label (public field).
// ------------------------------------------------------------------------------------------------
#[derive(Clone, Debug)]
enum Ins {
    New(u8),
    Relabel(usize, u8),
    Op(u8, Vec<usize>, Vec<u8>),
    Fn(u8, Vec<usize>, u8),
    Bin(usize, usize, usize),
    Un(usize, usize),
}
#[derive(Clone, Debug)]
struct Prog {
    ins: Vec<Ins>,
    s: Vec<usize>,
    t: Vec<usize>,
    leak: Vec<usize>,
}
impl Ins {
    fn json(&self) -> Value {
        match self {
            Ins::New(l) => json!(["new", l]),
            Ins::Relabel(h, l) => json!(["relabel", h, l]),
            Ins::Op(c, a, r) => json!(["op", c, a, r]),
            Ins::Fn(c, a, r) => json!(["fn", c, a, r]),
            Ins::Bin(k, a, b) => json!(["bin", k, a, b]),
            Ins::Un(k, a) => json!(["un", k, a]),
        }
    }
    fn from_json(v: &Value) -> Option<Ins> {
        let a = v.as_array()?;
        let us = |i: usize| a.get(i)?.as_u64().map(|x| x as usize);
        let b8 = |i: usize| a.get(i)?.as_u64().filter(|&x| x < 256).map(|x| x as u8);
        Some(match a.first()?.as_str()? {
            "new" => Ins::New(b8(1)?),
            "relabel" => Ins::Relabel(us(1)?, b8(2)?),
            "op" => Ins::Op(b8(1)?, uss(a.get(2)?)?, u8s(a.get(3)?)?),
            "fn" => Ins::Fn(b8(1)?, uss(a.get(2)?)?, b8(3)?),
            "bin" => Ins::Bin(us(1)?, us(2)?, us(3)?),
            "un" => Ins::Un(us(1)?, us(2)?),
            _ => return None,
        })
    }
    fn produced(&self) -> usize {
        match self {
            Ins::Op(_, _, r) => r.len(),
            _ => 1,
        }
    }
}
impl Prog {
    fn json(&self) -> Value {
        json!({"prog": self.ins.iter().map(|i| i.json()).collect::<Vec<_>>(), "s": self.s, "t": self.t, "leak": self.leak})
    }
    fn from_json(v: &Value) -> Option<Prog> {
        let ins: Vec<Ins> = v.get("prog")?.as_array()?.iter().map(Ins::from_json).collect::<Option<_>>()?;
        let leak = match v.get("leak") {
            None | Some(Value::Null) => vec![],
            Some(l) => uss(l)?,
        };
        let p = Prog { ins, s: uss(v.get("s")?)?, t: uss(v.get("t")?)?, leak };
        // handles must exist when used; operator labels must not collide with the variable label
        let mut h = 0usize;
        for i in &p.ins {
            let ok = match i {
                Ins::New(_) => true,
                Ins::Relabel(a, _) => *a < h,
                Ins::Op(c, a, _) | Ins::Fn(c, a, _) => *c != VAR && a.iter().all(|&x| x < h),
                Ins::Bin(k, a, b) => *k <= 8 && *a < h && *b < h,
                Ins::Un(k, a) => *k <= 1 && *a < h,
            };
            if !ok {
                return None;
            }
            h += i.produced();
        }
        if p.s.iter().chain(p.t.iter()).chain(p.leak.iter()).any(|&x| x >= h) {
            return None;
        }
        Some(p)
    }
    fn applied_ops(&self) -> usize {
        self.ins.iter().filter(|i| !matches!(i, Ins::New(_) | Ins::Relabel(..))).count()
    }
}

/// What the program denotes, straight from the statement.  Returns
/// (expected term, number of variables, number of applied operators, per variable: its tentacle labels)
struct Denotation {
    built: M,
    vars: usize,
    ops: usize,
    /// the expression itself: one node per variable that is produced/used/declared at least once,
    /// one hyperedge per operator; None when some variable is seen under two different labels
    dag: Option<M>,
}
fn denote(p: &Prog) -> Denotation {
    let mut m = M::empty();
    // handle -> (variable, label); variable -> index of its hyperedge in m
    let mut handles: Vec<(usize, u8)> = vec![];
    let mut var_edge: Vec<usize> = vec![];
    let mut ops = 0usize;
    // the expression: operator applications over variables
    let mut dag_ops: Vec<(u8, Vec<usize>, Vec<usize>)> = vec![];
    fn new_var(m: &mut M, var_edge: &mut Vec<usize>) -> usize {
        m.x.push(VAR);
        m.src.push(vec![]);
        m.tgt.push(vec![]);
        var_edge.push(m.x.len() - 1);
        var_edge.len() - 1
    }
    fn node(m: &mut M, l: u8) -> usize {
        m.w.push(l);
        m.w.len() - 1
    }
    let mut apply = |m: &mut M, handles: &mut Vec<(usize, u8)>, var_edge: &mut Vec<usize>, code: u8, args: &[usize], res: &[u8]| {
        // every use reads the variable: a fresh node that the variable hyperedge writes to
        let mut srcs = vec![];
        for &h in args {
            let (v, l) = handles[h];
            let n = node(m, l);
            m.tgt[var_edge[v]].push(n);
            srcs.push(n);
        }
        // every result is a new variable, produced by this operator
        let mut tgts = vec![];
        let mut rvars = vec![];
        for &l in res {
            let v = new_var(m, var_edge);
            let n = node(m, l);
            m.src[var_edge[v]].push(n);
            tgts.push(n);
            handles.push((v, l));
            rvars.push(v);
        }
        m.x.push(code);
        m.src.push(srcs);
        m.tgt.push(tgts);
        dag_ops.push((code, args.iter().map(|&h| handles[h].0).collect(), rvars));
    };
    for i in &p.ins {
        match i {
            Ins::New(l) => {
                let v = new_var(&mut m, &mut var_edge);
                handles.push((v, *l));
            }
            Ins::Relabel(h, l) => {
                let v = handles[*h].0;
                handles.push((v, *l));
            }
            Ins::Op(c, a, r) => {
                ops += 1;
                apply(&mut m, &mut handles, &mut var_edge, *c, a, r)
            }
            Ins::Fn(c, a, r) => {
                ops += 1;
                apply(&mut m, &mut handles, &mut var_edge, *c, a, &[*r])
            }
            Ins::Bin(k, a, b) => {
                ops += 1;
                let (ty, code) = bin_sig(*k, handles[*a].1, handles[*b].1);
                apply(&mut m, &mut handles, &mut var_edge, code, &[*a, *b], &[ty])
            }
            Ins::Un(k, a) => {
                ops += 1;
                let (ty, code) = un_sig(*k, handles[*a].1);
                apply(&mut m, &mut handles, &mut var_edge, code, &[*a], &[ty])
            }
        }
    }
    // declared inputs feed the variable, declared outputs read it
    for &h in &p.s {
        let (v, l) = handles[h];
        let n = node(&mut m, l);
        m.src[var_edge[v]].push(n);
        m.s.push(n);
    }
    for &h in &p.t {
        let (v, l) = handles[h];
        let n = node(&mut m, l);
        m.tgt[var_edge[v]].push(n);
        m.t.push(n);
    }
    // the expression DAG
    let nv = var_edge.len();
    let mut label: Vec<Option<u8>> = vec![None; nv];
    let mut mixed = false;
    for v in 0..nv {
        for &n in m.src[var_edge[v]].iter().chain(m.tgt[var_edge[v]].iter()) {
            match label[v] {
                None => label[v] = Some(m.w[n]),
                Some(l) if l != m.w[n] => mixed = true,
                _ => {}
            }
        }
    }
    let dag = if mixed {
        None
    } else {
        let mut id = vec![usize::MAX; nv];
        let mut d = M::empty();
        for v in 0..nv {
            if let Some(l) = label[v] {
                id[v] = d.w.len();
                d.w.push(l);
            }
        }
        for (c, a, r) in &dag_ops {
            d.x.push(*c);
            d.src.push(a.iter().map(|&v| id[v]).collect());
            d.tgt.push(r.iter().map(|&v| id[v]).collect());
        }
        d.s = p.s.iter().map(|&h| id[handles[h].0]).collect();
        d.t = p.t.iter().map(|&h| id[handles[h].0]).collect();
        Some(d)
    };
    Denotation { built: m, vars: nv, ops, dag }
}

/// Make the order of a variable hyperedge's sources (and of its targets) irrelevant: the hyperedge
/// becomes a hub node (label 250) with one 251-edge per source and one 252-edge per target.
/// Operator hyperedges come first so the isomorphism search binds their nodes first.
fn hubify(m: &M) -> M {
    let mut r = M { w: m.w.clone(), x: vec![], src: vec![], tgt: vec![], s: m.s.clone(), t: m.t.clone() };
    for e in 0..m.x.len() {
        if m.x[e] != VAR {
            r.x.push(m.x[e]);
            r.src.push(m.src[e].clone());
            r.tgt.push(m.tgt[e].clone());
        }
    }
    for e in 0..m.x.len() {
        if m.x[e] == VAR {
            let hub = r.w.len();
            r.w.push(250);
            for &a in &m.src[e] {
                r.x.push(251);
                r.src.push(vec![a]);
                r.tgt.push(vec![hub]);
            }
            for &b in &m.tgt[e] {
                r.x.push(252);
                r.src.push(vec![hub]);
                r.tgt.push(vec![b]);
            }
        }
    }
    r
}

/// run the program against the real library
fn run_build(p: &Prog, leaked: &RefCell<Vec<V>>) -> var::BuildResult<u8, Op> {
    var::build(|state: &Rc<RefCell<T>>| {
        let mut hs: Vec<V> = vec![];
        for i in &p.ins {
            match i {
                Ins::New(l) => hs.push(V::new(state.clone(), *l)),
                Ins::Relabel(h, l) => {
                    let mut v = hs[*h].clone();
                    v.label = *l;
                    hs.push(v)
                }
                Ins::Op(c, a, r) => {
                    let args: Vec<V> = a.iter().map(|&h| hs[h].clone()).collect();
                    let out = var::operation(state, &args, r.clone(), Op(*c));
                    hs.extend(out)
                }
                Ins::Fn(c, a, r) => {
                    let args: Vec<V> = a.iter().map(|&h| hs[h].clone()).collect();
                    hs.push(var::fn_operation(state, &args, *r, Op(*c)))
                }
                Ins::Bin(k, a, b) => {
                    let (x, y) = (hs[*a].clone(), hs[*b].clone());
                    hs.push(match k {
                        0 => x ^ y,
                        1 => x & y,
                        2 => x | y,
                        3 => x << y,
                        4 => x >> y,
                        5 => x + y,
                        6 => x * y,
                        7 => x - y,
                        _ => x / y,
                    })
                }
                Ins::Un(k, a) => {
                    let x = hs[*a].clone();
                    hs.push(if *k == 0 { !x } else { -x })
                }
            }
        }
        for &h in &p.leak {
            leaked.borrow_mut().push(hs[h].clone());
        }
        (p.s.iter().map(|&h| hs[h].clone()).collect(), p.t.iter().map(|&h| hs[h].clone()).collect())
    })
}

/// build the program; Ok(term as model, was Err(shared state)?) or a reported failure
fn build_and_read(ctx: &mut Ctx, name: &str, input: &Value, p: &Prog, d: &Denotation) -> Option<(T, M)> {
    let leaked: RefCell<Vec<V>> = RefCell::new(vec![]);
    let res = match guard(|| run_build(p, &leaked)) {
        Err(pn) => {
            ctx.fail(name, "C19.build-returns", input, json!(format!("panic: {}", pn)), d.built.json());
            return None;
        }
        Ok(r) => r,
    };
    let term: T = match res {
        Ok(t) => {
            if !p.leak.is_empty() {
                ctx.fail(name, "C19.build-fails-iff-handle-outlives", input, json!("Ok although a variable handle outlives the builder"), json!("Err(shared state)"));
            }
            t
        }
        Err(rc) => {
            if p.leak.is_empty() {
                ctx.fail(name, "C19.build-fails-iff-handle-outlives", input, json!("Err although no handle outlives the builder"), json!("Ok"));
            } else if !leaked.borrow().iter().all(|v| Rc::ptr_eq(&v.state, &rc)) {
                ctx.fail(name, "C19.build-err-hands-back-shared-state", input, json!("returned state is not the state shared by the surviving handle"), json!("same Rc"));
            }
            let t = match rc.try_borrow() {
                Ok(b) => b.clone(),
                Err(_) => {
                    ctx.fail(name, "C19.build-err-hands-back-shared-state", input, json!("state still mutably borrowed"), json!("free state"));
                    return None;
                }
            };
            t
        }
    };
    drop(leaked);
    match read_term(&term) {
        Err(why) => {
            ctx.fail(name, "C19.build-wf", input, json!(why), d.built.json());
            None
        }
        Ok(m) => Some((term, m)),
    }
}

fn chk_build(ctx: &mut Ctx, input: &Value) {
    let p = match Prog::from_json(input) {
        Some(p) => p,
        None => return,
    };
    let d = denote(&p);
    ctx.case("build", input, p.applied_ops() >= 1 || !p.s.is_empty() || !p.t.is_empty());
    let (term, got) = match build_and_read(ctx, "build", input, &p, &d) {
        Some(x) => x,
        None => return,
    };
    if !term.hypergraph.is_strict() {
        // not forbidden, but then the comparison below is on the quotiented term
    }
    let e = &d.built;
    // interfaces in order
    if got.source_type() != e.source_type() || got.target_type() != e.target_type() || got.s.len() != p.s.len() || got.t.len() != p.t.len() {
        ctx.fail("build", "C19.build-interfaces-in-order", input, json!({"s": got.source_type(), "t": got.target_type()}), json!({"s": e.source_type(), "t": e.target_type()}));
        return;
    }
    // one hyperedge per applied operator, with its label and typed arity
    let (go, eo) = (edge_sigs(&got, |x| got.x[x] != VAR), edge_sigs(e, |x| e.x[x] != VAR));
    if go.len() != d.ops || go != eo {
        ctx.fail("build", "C19.build-one-edge-per-operator", input, json!(format!("{:?}", go)), json!(format!("{:?}", eo)));
        return;
    }
    // one variable hyperedge per variable
    let gv = got.x.iter().filter(|&&x| x == VAR).count();
    if gv != d.vars {
        ctx.fail("build", "C19.build-one-var-edge-per-variable", input, json!(gv), json!(d.vars));
        return;
    }
    // the wiring: exact, up to isomorphism and up to the order of a variable's tentacles
    // cheap necessary condition first: every variable hyperedge has its productions as sources and its uses as targets
    let (gs, es) = (edge_sigs_h(&got, |x| got.x[x] == VAR, true), edge_sigs_h(e, |x| e.x[x] == VAR, true));
    if gs != es {
        ctx.fail("build", "C19.build-wiring", input, json!(format!("variable hyperedges {:?}", gs)), json!(format!("{:?}", es)));
        return;
    }
    expect_same(ctx, "build", "C19.build-wiring", input, &got, e, true);
}

/// forget(build(program)) is the expression; evaluation agrees at every stage
fn chk_build_meaning(ctx: &mut Ctx, input: &Value) {
    let p = match Prog::from_json(input) {
        Some(p) if p.leak.is_empty() => p,
        _ => return,
    };
    let d = denote(&p);
    ctx.case("build_meaning", input, p.applied_ops() >= 1 && (!p.s.is_empty() || !p.t.is_empty()));
    let (term, got) = match build_and_read(ctx, "build_meaning", input, &p, &d) {
        Some(x) => x,
        None => return,
    };
    // every use reads the value produced for it: reading variable hyperedges as copies, the built
    // term computes what the expression computes
    if let Some(dag) = &d.dag {
        for inp in input_vectors(p.s.len()) {
            let (a, b) = (eval_copy(dag, &inp), eval_copy(&got, &inp));
            if a != b {
                ctx.fail("build_meaning", "C19.build-wiring-eval", input, b.json(), a.json());
                return;
            }
        }
    }
    for mono in [false, true] {
        let r = match guard(|| if mono { fg::forget_monogamous(&term) } else { fg::forget(&term) }) {
            Err(pn) => {
                ctx.fail("build_meaning", "C19.forget-returns", input, json!(format!("panic: {}", pn)), json!("a term"));
                return;
            }
            Ok(r) => r,
        };
        let gm = match read_term(&r) {
            Err(why) => {
                ctx.fail("build_meaning", "C19.forget-wf", input, json!(why), json!("well-formed term"));
                return;
            }
            Ok(g) => g,
        };
        // oracle applied to what the program denotes (not to the library's own output)
        let (m0, expected) = forget_oracle(&d.built, &[], mono).expect("no identifications");
        let before = ctx.failures.len();
        judge_forget(ctx, "build_meaning", input, &m0, &expected, &gm, mono, true);
        if ctx.failures.len() != before {
            return;
        }
        if !mono {
            if let Some(dag) = &d.dag {
                if !expect_same(ctx, "build_meaning", "C19.forget-of-built-is-expression", input, &gm, dag, false) {
                    return;
                }
            }
        }
    }
}

// ------------------------------------------------------------------------------------------------
// generators
// ------------------------------------------------------------------------------------------------
fn mk(w: &[u8], edges: &[(u8, &[usize], &[usize])], s: &[usize], t: &[usize]) -> M {
    M {
        w: w.to_vec(),
        x: edges.iter().map(|e| e.0).collect(),
        src: edges.iter().map(|e| e.1.to_vec()).collect(),
        tgt: edges.iter().map(|e| e.2.to_vec()).collect(),
        s: s.to_vec(),
        t: t.to_vec(),
    }
}
fn finput(m: &M, q: &[(usize, usize)]) -> Value {
    json!({"m": m.json(), "q": q.iter().map(|&(a, b)| vec![a, b]).collect::<Vec<_>>()})
}

fn forget_corners() -> Vec<(M, Vec<(usize, usize)>)> {
    const V: u8 = VAR;
    let mut c: Vec<(M, Vec<(usize, usize)>)> = vec![];
    let mut add = |m: M| c.push((m, vec![]));
    add(M::empty());
    // variable hyperedge without incident nodes: alone, twice, next to isolated/interface nodes
    add(mk(&[], &[(V, &[], &[])], &[], &[]));
    add(mk(&[], &[(V, &[], &[]), (V, &[], &[]), (10, &[], &[])], &[], &[]));
    add(mk(&[0, 1], &[(V, &[], &[])], &[0, 1], &[1, 0, 0]));
    // no sources, differently labelled targets (named in the property) and its relatives
    add(mk(&[0, 1], &[(V, &[], &[0, 1])], &[], &[0, 1]));
    add(mk(&[0, 1], &[(V, &[], &[1, 0])], &[], &[]));
    add(mk(&[0, 1], &[(V, &[0, 1], &[])], &[0, 1], &[]));
    add(mk(&[0, 0], &[(V, &[], &[0, 1])], &[], &[0, 1]));
    add(mk(&[0, 0], &[(V, &[0, 1], &[])], &[1, 0], &[]));
    add(mk(&[0], &[(V, &[], &[0])], &[], &[0]));
    add(mk(&[0], &[(V, &[0], &[])], &[0], &[]));
    add(mk(&[0, 0, 1], &[(V, &[], &[0, 1, 2])], &[], &[0, 1, 2]));
    add(mk(&[1, 0, 0], &[(V, &[], &[0, 1, 2])], &[], &[0, 1, 2]));
    add(mk(&[0, 0, 0, 1], &[(V, &[0, 1], &[2, 3])], &[0, 1], &[2, 3]));
    // each side uniform, the two sides different
    add(mk(&[0, 0, 1, 1], &[(V, &[0, 1], &[2, 3])], &[0, 1], &[2, 3]));
    add(mk(&[0, 1], &[(V, &[0], &[1])], &[0], &[1]));
    add(mk(&[0, 1], &[(V, &[0, 1], &[0, 1])], &[0], &[1]));
    // pairwise equal source/target but not uniform
    add(mk(&[0, 1, 0, 1], &[(V, &[0, 1], &[2, 3])], &[0, 1], &[2, 3]));
    // 1->1 on one label: distinct nodes, the same node, in a chain, in a cycle
    add(mk(&[0, 0], &[(V, &[0], &[1])], &[0], &[1]));
    add(mk(&[0], &[(V, &[0], &[0])], &[0], &[0]));
    add(mk(&[0, 0, 0], &[(V, &[0], &[1]), (V, &[1], &[2])], &[0], &[2]));
    add(mk(&[0, 0, 0], &[(V, &[0], &[1]), (V, &[1], &[2]), (V, &[2], &[0])], &[0], &[2, 1]));
    // 1->2 copy, 2->1 merge, 2->2, repeated nodes, multiplicity above the number of nodes
    add(mk(&[0, 0, 0], &[(V, &[0], &[1, 2])], &[0], &[1, 2]));
    add(mk(&[0, 0, 0], &[(V, &[0, 1], &[2])], &[0, 1], &[2]));
    add(mk(&[0, 0], &[(V, &[0, 0, 0], &[1, 1, 0, 1])], &[0, 0], &[1]));
    add(mk(&[1], &[(V, &[0, 0, 0, 0, 0], &[0, 0, 0, 0, 0])], &[0], &[0, 0]));
    add(mk(&[0, 0], &[(V, &[0], &[1]), (V, &[0], &[1]), (V, &[1], &[0]), (V, &[0], &[1]), (V, &[0], &[1])], &[0], &[1]));
    // wide variable hyperedges: 12 -> 12 over 24 nodes, 0 -> 16, 16 -> 0 with the last node differently labelled
    {
        let n = 24usize;
        let ids: Vec<usize> = (0..n).collect();
        add(M { w: vec![2; n], x: vec![V], src: vec![ids[..12].to_vec()], tgt: vec![ids[12..].to_vec()], s: vec![0, 23], t: vec![12, 11] });
        add(M { w: vec![2; 16], x: vec![V], src: vec![vec![]], tgt: vec![ids[..16].to_vec()], s: vec![], t: vec![15, 0] });
        let mut w = vec![2u8; 16];
        w[15] = 1;
        add(M { w, x: vec![V], src: vec![ids[..16].to_vec()], tgt: vec![vec![]], s: vec![15, 0], t: vec![] });
    }
    // other labels with uniform nodes stay; labels next to the variable label stay
    add(mk(&[0, 0], &[(10, &[0], &[1]), (98, &[0], &[1]), (100, &[1], &[0])], &[0], &[1]));
    add(mk(&[0, 0, 0], &[(10, &[0], &[1]), (V, &[1], &[2])], &[0], &[2]));
    // the adder picture: variable 1->2 feeding two operators
    add(mk(&[0, 0, 0, 0, 0, 0, 0, 0], &[(V, &[0], &[2, 3]), (V, &[1], &[4, 5]), (10, &[2, 4], &[6]), (11, &[3, 5], &[7])], &[0, 1], &[6, 7]));
    // two variable hyperedges sharing a node; a variable hyperedge over interface nodes listed twice
    add(mk(&[0, 0, 0], &[(V, &[0], &[1]), (V, &[2], &[1])], &[0, 2], &[1]));
    add(mk(&[0, 0], &[(V, &[0], &[1])], &[0, 0, 1], &[1, 0, 1]));
    // mixed hyperedge next to an eligible one on the same nodes
    add(mk(&[0, 0, 1], &[(V, &[0], &[1]), (V, &[0, 1], &[2])], &[0], &[2]));
    // operator cycle through variable hyperedges
    add(mk(&[0, 0, 0, 0], &[(10, &[0], &[1]), (V, &[1], &[2]), (11, &[2], &[3]), (V, &[3], &[0])], &[0], &[2]));
    // isolated / dangling nodes around
    add(mk(&[0, 1, 0, 1], &[(V, &[0], &[2])], &[1], &[3]));
    // pending identifications: between the ends of a variable hyperedge, across two of them, on unrelated nodes
    c.push((mk(&[0, 0], &[(V, &[0], &[1])], &[0], &[1]), vec![(0, 1)]));
    c.push((mk(&[0, 0, 0, 0], &[(V, &[0], &[1]), (V, &[2], &[3])], &[0], &[3]), vec![(1, 2)]));
    c.push((mk(&[0, 0, 0, 0], &[(V, &[0], &[1]), (10, &[2], &[3])], &[0], &[3]), vec![(1, 2), (2, 1), (1, 1)]));
    c.push((mk(&[0, 1, 1, 0], &[(V, &[0], &[1]), (V, &[2], &[3])], &[0], &[3]), vec![(1, 2), (0, 3)]));
    c.push((mk(&[0, 0, 0], &[], &[0], &[2]), vec![(0, 1), (1, 2)]));
    // the shared corner list (labels 10/11 only) and the same with every hyperedge a variable
    for m in corner_models() {
        let mut v = m.clone();
        v.x = v.x.iter().map(|_| VAR).collect();
        c.push((m, vec![]));
        c.push((v, vec![]));
    }
    c
}

/// 2^k equally labelled nodes collapsed by 1->1 variable hyperedges in binomial-tree order
/// (two trees of 2^(k-1) merged last), optionally part of the merging left to pending identifications
fn binomial_forget(k: usize, pending: bool, with_ops: bool) -> (M, Vec<(usize, usize)>) {
    let n = 1usize << k;
    let mut m = M { w: vec![1; n], x: vec![], src: vec![], tgt: vec![], s: vec![n - 1, 0], t: vec![n / 2, 1] };
    let mut q = vec![];
    for lvl in 0..k {
        let step = 1usize << (lvl + 1);
        let mut i = 0;
        while i < n {
            let (a, b) = (i, i + (1 << lvl));
            if pending && lvl % 2 == 1 {
                q.push((b, a));
            } else {
                m.x.push(VAR);
                if lvl % 2 == 0 {
                    m.src.push(vec![a]);
                    m.tgt.push(vec![b]);
                } else {
                    m.src.push(vec![b]);
                    m.tgt.push(vec![a]);
                }
            }
            i += step;
        }
    }
    if with_ops {
        m.x.push(10);
        m.src.push(vec![0, n - 1]);
        m.tgt.push(vec![n / 2]);
        m.x.push(11);
        m.src.push(vec![]);
        m.tgt.push(vec![3 % n]);
    }
    (m, q)
}

fn random_term(r: &mut Rng, big: bool) -> (M, Vec<(usize, usize)>) {
    let n = r.range(0, if big { 7 } else { 4 });
    let nl = r.range(1, 3);
    let w: Vec<u8> = (0..n).map(|_| r.below(nl) as u8).collect();
    let k = r.range(0, if big { 5 } else { 3 });
    let mut m = M { w: w.clone(), x: vec![], src: vec![], tgt: vec![], s: vec![], t: vec![] };
    for _ in 0..k {
        let is_var = r.chance(3, 5);
        let lab = if is_var { VAR } else { [10u8, 11, 98, 100][r.below(4)] };
        let maxa = if big { 3 } else { 2 };
        let (mut a, mut b) = (r.range(0, maxa), r.range(0, maxa));
        if r.chance(1, 4) {
            a = 1;
            b = 1;
        }
        if n == 0 {
            a = 0;
            b = 0;
        }
        // pool: all nodes, or (for most variable hyperedges) the nodes of one label
        let pool: Vec<usize> = if n > 0 && r.chance(3, 5) {
            let l = w[r.below(n)];
            (0..n).filter(|&i| w[i] == l).collect()
        } else {
            (0..n).collect()
        };
        let pick = |r: &mut Rng, c: usize| -> Vec<usize> { (0..c).map(|_| pool[r.below(pool.len())]).collect() };
        let (s, t) = (pick(r, a), pick(r, b));
        m.x.push(lab);
        m.src.push(s);
        m.tgt.push(t);
    }
    if n > 0 {
        let (ls, lt) = (r.range(0, 3), r.range(0, 3));
        m.s = r.vec_below(ls, n);
        m.t = r.vec_below(lt, n);
    }
    let mut q = vec![];
    if n > 0 && r.chance(1, 3) {
        for _ in 0..r.range(1, 3) {
            let a = r.below(n);
            let same: Vec<usize> = (0..n).filter(|&i| w[i] == w[a]).collect();
            q.push((a, same[r.below(same.len())]));
        }
    }
    (m, q)
}

/// all lists over 0..n of length <= maxlen
fn lists(n: usize, maxlen: usize) -> Vec<Vec<usize>> {
    let mut out = vec![vec![]];
    let mut frontier: Vec<Vec<usize>> = vec![vec![]];
    for _ in 0..maxlen {
        let mut next = vec![];
        for l in &frontier {
            for v in 0..n {
                let mut x = l.clone();
                x.push(v);
                next.push(x);
            }
        }
        out.extend(next.iter().cloned());
        frontier = next;
    }
    out
}

fn exhaustive_forget(ctx: &mut Ctx) {
    let thorough = ctx.thorough();
    // one hyperedge: nodes <= 2 (thorough: 3, three labels), arity <= 2 (thorough 3 on three nodes), interface <= 1
    let node_max = if thorough { 3 } else { 2 };
    for n in 0..=node_max {
        let nl: usize = if n == 3 { 3 } else { 2 };
        let labelings = lists(nl, n).into_iter().filter(|l| l.len() == n).collect::<Vec<_>>();
        let ar = if n == 3 { 3 } else { 2 };
        let ends = lists(n, ar);
        let ifc = if n == 3 { vec![vec![], vec![0], vec![2]] } else { lists(n, 1) };
        for w in &labelings {
            let w8: Vec<u8> = w.iter().map(|&x| x as u8).collect();
            for lab in [VAR, 10] {
                if lab != VAR && n == 3 {
                    continue;
                }
                for s in &ends {
                    for t in &ends {
                        for (i, is) in ifc.iter().enumerate() {
                            let it = &ifc[(i + s.len()) % ifc.len()];
                            let m = M { w: w8.clone(), x: vec![lab], src: vec![s.clone()], tgt: vec![t.clone()], s: is.clone(), t: it.clone() };
                            let inp = finput(&m, &[]);
                            chk_forget(ctx, &inp);
                            chk_forget_mono(ctx, &inp);
                        }
                    }
                }
            }
        }
    }
    // two hyperedges on two nodes: arity <= 1 each (thorough: <= 2), both labels, all labelings
    let ar = if thorough { 2 } else { 1 };
    let ends = lists(2, ar);
    for w in [[0u8, 0], [0, 1]] {
        for l1 in [VAR, 10] {
            for l2 in [VAR, 10] {
                if l1 != VAR && l2 != VAR {
                    continue;
                }
                for s1 in &ends {
                    for t1 in &ends {
                        for s2 in &ends {
                            for t2 in &ends {
                                let m = M { w: w.to_vec(), x: vec![l1, l2], src: vec![s1.clone(), s2.clone()], tgt: vec![t1.clone(), t2.clone()], s: vec![0], t: vec![1] };
                                let inp = finput(&m, &[]);
                                chk_forget(ctx, &inp);
                                chk_forget_mono(ctx, &inp);
                            }
                        }
                    }
                }
            }
        }
    }
}

fn prog(ins: Vec<Ins>, s: &[usize], t: &[usize], leak: &[usize]) -> Prog {
    Prog { ins, s: s.to_vec(), t: t.to_vec(), leak: leak.to_vec() }
}

fn build_corners() -> Vec<Prog> {
    use Ins::*;
    let mut c = vec![];
    c.push(prog(vec![], &[], &[], &[]));
    // a variable alone: unused, input only, output only, wire, declared twice on each side
    c.push(prog(vec![New(0)], &[], &[], &[]));
    c.push(prog(vec![New(0)], &[0], &[], &[]));
    c.push(prog(vec![New(0)], &[], &[0], &[]));
    c.push(prog(vec![New(1)], &[0], &[0], &[]));
    c.push(prog(vec![New(1)], &[0, 0], &[0, 0, 0], &[]));
    c.push(prog(vec![New(0), New(1), New(2)], &[2, 0], &[0, 1, 2], &[]));
    // the xor example of examples/adder.rs (one variable cloned) and with two variables
    c.push(prog(vec![New(0), Bin(0, 0, 0)], &[0, 0], &[1], &[]));
    c.push(prog(vec![New(0), New(1), Bin(0, 0, 1)], &[0, 1], &[2], &[]));
    // every overloaded operator on differently typed operands, both operand orders
    for k in 0..=8 {
        c.push(prog(vec![New(1), New(2), Bin(k, 0, 1)], &[0, 1], &[2], &[]));
        c.push(prog(vec![New(1), New(2), Bin(k, 1, 0)], &[0, 1], &[2], &[]));
        c.push(prog(vec![New(0), New(2), Bin(k, 0, 1), Bin(k, 2, 0)], &[0, 1], &[3, 2], &[]));
    }
    for k in 0..=1 {
        c.push(prog(vec![New(2), Un(k, 0)], &[0], &[1], &[]));
        c.push(prog(vec![New(1), Un(k, 0), Un(1 - k, 1)], &[0], &[2, 1], &[]));
    }
    // operation: 0->0, 0->n (constants), n->0 (discard), same variable many times, unused results
    c.push(prog(vec![Op(10, vec![], vec![])], &[], &[], &[]));
    c.push(prog(vec![Op(10, vec![], vec![]), Op(10, vec![], vec![])], &[], &[], &[]));
    c.push(prog(vec![Op(10, vec![], vec![0, 1])], &[], &[1, 0], &[]));
    c.push(prog(vec![Fn(11, vec![], 2)], &[], &[0], &[]));
    c.push(prog(vec![New(0), Op(10, vec![0], vec![])], &[0], &[], &[]));
    c.push(prog(vec![New(0), Op(10, vec![0, 0, 0, 0, 0], vec![1, 1])], &[0], &[2, 1, 2], &[]));
    c.push(prog(vec![New(0), New(1), Op(10, vec![1, 0, 1], vec![2, 0, 2])], &[0, 1], &[4, 2], &[]));
    c.push(prog(vec![New(0), New(1), Fn(11, vec![1, 0], 2), Fn(11, vec![0, 1], 2)], &[0, 1], &[2, 3], &[]));
    // a result declared as an input; an input never used; an output never produced
    c.push(prog(vec![New(0), Un(0, 0)], &[1], &[0], &[]));
    c.push(prog(vec![New(0), New(1), Un(0, 0)], &[0, 1], &[2], &[]));
    c.push(prog(vec![New(0), New(1), Un(0, 0)], &[0], &[1, 2], &[]));
    // operators before the variables they do not use; interleaved creation
    c.push(prog(vec![Fn(11, vec![], 0), New(1), Bin(5, 0, 1), New(0), Bin(7, 3, 2)], &[1, 3], &[4], &[]));
    // full adder of examples/adder.rs
    c.push(prog(
        vec![New(0), New(0), New(0), Bin(0, 0, 1), Bin(0, 3, 2), Bin(1, 0, 1), Bin(1, 2, 3), Bin(2, 5, 6)],
        &[0, 1, 2],
        &[4, 7],
        &[],
    ));
    // second handle with another label on the same variable: differently labelled tentacles
    c.push(prog(vec![New(0), Relabel(0, 1)], &[], &[0, 1], &[]));
    c.push(prog(vec![New(0), Relabel(0, 1), Bin(5, 0, 1)], &[], &[2], &[]));
    c.push(prog(vec![New(0), Relabel(0, 1), Un(0, 1)], &[0], &[2], &[]));
    c.push(prog(vec![New(0), Relabel(0, 0), Un(0, 1)], &[0], &[2], &[]));
    // handles that outlive the builder: an input, a result, an unused variable, two of them
    c.push(prog(vec![New(0)], &[0], &[0], &[0]));
    c.push(prog(vec![New(0), Un(1, 0)], &[0], &[1], &[1]));
    c.push(prog(vec![New(0), New(1), Bin(6, 0, 1)], &[0], &[2], &[1]));
    c.push(prog(vec![New(0), New(1), Bin(6, 0, 1)], &[0, 1], &[2], &[0, 2]));
    c.push(prog(vec![New(0)], &[], &[], &[0]));
    c.push(prog(vec![Fn(11, vec![], 1)], &[], &[], &[0, 0]));
    // long chain of unary operators, wide sharing of one variable, long chain of binary ones
    let mut ch = vec![New(0)];
    for i in 0..40 {
        ch.push(Un(i % 2, i));
    }
    c.push(prog(ch, &[0], &[40, 17], &[]));
    c.push(prog(vec![New(1), Op(10, vec![0; 64], vec![0])], &[0], &[1, 0], &[]));
    let mut ch = vec![New(0), New(1)];
    for i in 0..24 {
        ch.push(Bin(i % 9, i + 1, i / 2));
    }
    c.push(prog(ch, &[0, 1], &[25, 3, 3], &[]));
    c
}

fn random_prog(r: &mut Rng, big: bool) -> Prog {
    let mut ins = vec![];
    let mut h = 0usize;
    let relabel = r.chance(1, 8);
    let steps = r.range(0, if big { 9 } else { 4 });
    let labels = r.range(1, 3);
    for _ in 0..steps {
        let c = r.below(20);
        let pick = |r: &mut Rng, h: usize| r.below(h);
        let i = if h == 0 || c < 5 {
            if h > 0 && c == 0 {
                Ins::Fn(11, vec![], r.below(labels) as u8)
            } else {
                Ins::New(r.below(labels) as u8)
            }
        } else if c < 6 && relabel {
            Ins::Relabel(pick(r, h), r.below(3) as u8)
        } else if c < 10 {
            let na = r.range(0, 3);
            let nr = r.range(0, 2);
            Ins::Op(10 + r.below(2) as u8, (0..na).map(|_| pick(r, h)).collect(), (0..nr).map(|_| r.below(labels) as u8).collect())
        } else if c < 12 {
            let na = r.range(0, 2);
            Ins::Fn(12, (0..na).map(|_| pick(r, h)).collect(), r.below(labels) as u8)
        } else if c < 18 {
            Ins::Bin(r.below(9), pick(r, h), pick(r, h))
        } else {
            Ins::Un(r.below(2), pick(r, h))
        };
        h += i.produced();
        ins.push(i);
    }
    let (ls, lt) = if h == 0 { (0, 0) } else { (r.range(0, 3), r.range(0, 3)) };
    let s = r.vec_below(ls, h.max(1));
    let t = r.vec_below(lt, h.max(1));
    let nleak = r.range(1, 2);
    let leak = if h > 0 && r.chance(1, 7) { r.vec_below(nleak, h) } else { vec![] };
    Prog { ins, s, t, leak }
}

/// all programs: k0 <= 2 variables (labels 0,1), then one instruction from a small menu with every
/// choice of operands, then optionally a second one; every interface of length <= 1 (thorough: <= 2
/// outputs) over the handles
fn exhaustive_build(ctx: &mut Ctx) {
    let thorough = ctx.thorough();
    fn menu(h: usize, second: bool) -> Vec<Ins> {
        let mut v = vec![];
        for a in 0..h {
            v.push(Ins::Un(1, a));
            for b in 0..h {
                v.push(Ins::Bin(7, a, b));
                if !second {
                    v.push(Ins::Bin(0, a, b));
                }
            }
        }
        if !second {
            for args in lists(h, 2) {
                for res in [vec![], vec![0u8], vec![1, 0]] {
                    v.push(Ins::Op(10, args.clone(), res));
                }
            }
            v.push(Ins::New(2));
        } else {
            for args in lists(h, 1) {
                v.push(Ins::Fn(11, args, 2));
            }
        }
        v
    }
    for k0 in 0..=2usize {
        let base: Vec<Ins> = (0..k0).map(|i| Ins::New(i as u8)).collect();
        let mut progs: Vec<(Vec<Ins>, usize)> = vec![(base.clone(), k0)];
        for i1 in menu(k0, false) {
            let h1 = k0 + i1.produced();
            let mut p1 = base.clone();
            p1.push(i1);
            progs.push((p1.clone(), h1));
            for i2 in menu(h1, true) {
                let h2 = h1 + i2.produced();
                let mut p2 = p1.clone();
                p2.push(i2);
                progs.push((p2, h2));
            }
        }
        for (ins, h) in progs {
            let ss = lists(k0, 1);
            let ts = lists(h, if thorough && h <= 3 { 2 } else { 1 });
            for s in &ss {
                for t in &ts {
                    let p = Prog { ins: ins.clone(), s: s.clone(), t: t.clone(), leak: vec![] };
                    let inp = p.json();
                    chk_build(ctx, &inp);
                    chk_build_meaning(ctx, &inp);
                }
            }
            // all inputs declared in order, last handle as output
            if k0 == 2 {
                let p = Prog { ins: ins.clone(), s: vec![0, 1], t: vec![h - 1], leak: vec![] };
                let inp = p.json();
                chk_build(ctx, &inp);
                chk_build_meaning(ctx, &inp);
            }
        }
    }
}

pub fn run(ctx: &mut Ctx) {
    if let Some((name, input)) = ctx.replay.clone() {
        for (n, c) in CHECKS {
            if *n == name {
                c(ctx, &input);
            }
        }
        return;
    }
    // ---- uniformity test: all pairs of lists over 3 labels, lengths <= 3 ----
    let ls = lists(3, 3);
    for a in &ls {
        for b in &ls {
            chk_all_equal(ctx, &json!({"a": a, "b": b}));
        }
    }
    chk_all_equal(ctx, &json!({"a": [], "b": [5, 5, 5, 5, 5, 5, 5, 6]}));
    chk_all_equal(ctx, &json!({"a": [6, 5, 5, 5, 5, 5, 5, 5], "b": []}));
    chk_all_equal(ctx, &json!({"a": [5, 5, 5, 5], "b": [5, 5, 5, 5]}));
    // ---- image of a single operation: labels {VAR, 10, 98}, all typed arities <= 2 over 2 labels (+ a few wide) ----
    let l2 = lists(2, 2);
    for op in [VAR, 10, 98] {
        for s in &l2 {
            for t in &l2 {
                chk_op_image(ctx, &json!({"op": op, "src": s, "tgt": t}));
            }
        }
        chk_op_image(ctx, &json!({"op": op, "src": [], "tgt": [2, 2, 2, 2, 1]}));
        chk_op_image(ctx, &json!({"op": op, "src": [1, 2, 2, 2], "tgt": []}));
        chk_op_image(ctx, &json!({"op": op, "src": [2, 2, 2], "tgt": [2, 2, 2, 2]}));
        chk_op_image(ctx, &json!({"op": op, "src": [0, 0], "tgt": [1, 1]}));
        chk_op_image(ctx, &json!({"op": op, "src": vec![1u8; 12], "tgt": vec![1u8; 13]}));
        chk_op_image(ctx, &json!({"op": op, "src": vec![1u8; 17], "tgt": [1, 1, 1, 1, 1, 1, 1, 1, 0]}));
    }
    // ---- forget: corners, exhaustive small, binomial merges, random ----
    for (m, q) in forget_corners() {
        let inp = finput(&m, &q);
        chk_forget(ctx, &inp);
        chk_forget_mono(ctx, &inp);
    }
    exhaustive_forget(ctx);
    for k in [1usize, 3, 5, 6] {
        for pending in [false, true] {
            for with_ops in [false, true] {
                let (m, q) = binomial_forget(k, pending, with_ops);
                let inp = finput(&m, &q);
                chk_forget(ctx, &inp);
                chk_forget_mono(ctx, &inp);
            }
        }
    }
    let n = ctx.budget(20000, 330000);
    for i in 0..n {
        let (m, q) = random_term(&mut ctx.rng, i % 3 == 0);
        let inp = finput(&m, &q);
        chk_forget(ctx, &inp);
        chk_forget_mono(ctx, &inp);
    }
    // ---- build: corners, exhaustive small, random ----
    for p in build_corners() {
        let inp = p.json();
        chk_build(ctx, &inp);
        chk_build_meaning(ctx, &inp);
    }
    exhaustive_build(ctx);
    let n = ctx.budget(15000, 260000);
    for i in 0..n {
        let p = random_prog(&mut ctx.rng, i % 3 == 0);
        let inp = p.json();
        chk_build(ctx, &inp);
        chk_build_meaning(ctx, &inp);
    }
    ctx.notes.push(
        "rule: (1) all_equal: all pairs of label lists over 3 labels, length<=3; (2) op_image: Forget.map_operation on labels {99=var,10,98} x all typed arities <=2 over 2 labels + wide ones; \
         (3) forget/forget_mono: lax terms (model + pending identifications of equally labelled nodes), corner list (~70), exhaustive one hyperedge on <=2 nodes/2 labels/arity<=2 (thorough: 3 nodes/3 labels/arity<=3), \
         exhaustive two hyperedges on 2 nodes arity<=1 (thorough <=2), binomial-order merges of 2..64 nodes (with/without pending identifications), random terms <=4 (every third <=7) nodes, <=3 (<=5) hyperedges, arity <=2 (<=3), 3 labels; \
         (4) build/build_meaning: expression programs over Var::new, operation, fn_operation, 9 binary + 2 unary overloads, optional second handle with another label, optional handles kept alive outside the builder; \
         corners (~70, chains of 40 unary / 24 binary operators, one variable used 64 times), exhaustive <=2 variables + <=2 instructions from a menu with all operand choices and interfaces, random programs <=4 (every third <=9) instructions. \
         non-trivial: forget = some variable hyperedge has an incident node; build = an operator is applied or an interface is declared; build_meaning = operator applied and an interface declared; all_equal = >=2 elements; op_image = variable label with >=1 incident node"
            .into(),
    );
}
