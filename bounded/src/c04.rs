//! C04 — dagger and spiders give the hypergraph-category (Frobenius) structure.
//!
//! Oracles (written from the statement, plain loops over Vec):
//!   * dagger: the SAME node list, edge list, source/target lists (and, for the lax representation,
//!     the same pending identifications), with the two interface lists exchanged — compared
//!     EXACTLY, not up to isomorphism ("leaves nodes and hyperedges untouched");
//!   * contravariance / tensor: both sides evaluated by the library and by the reference
//!     operations, compared with model::iso;
//!   * spider (s,t,w): None iff a leg does not land in w; otherwise the discrete diagram on w with
//!     legs s,t;
//!   * fusion: classes of the smallest equivalence on w ⊔ w' containing t[i] ~ s'[i]
//!     (model::classes: naive closure), one node per class, outer legs mapped into the classes.
//! Every check runs on the strict and on the lax representation ("repr" field of the input).
use crate::ctx::{guard, Ctx, Rng};
use crate::model::*;
use open_hypergraphs::array::vec::*;
use open_hypergraphs::category::*;
use open_hypergraphs::finite_function::FiniteFunction;
use open_hypergraphs::lax;
use open_hypergraphs::semifinite::SemifiniteFunction;
use serde_json::{json, Value};

type Check = fn(&mut Ctx, &Value);
const CHECKS: &[(&str, Check)] = &[
    ("dagger", chk_dagger),
    ("dagger-compose", chk_dagger_compose),
    ("dagger-tensor", chk_dagger_tensor),
    ("dagger-structure", chk_dagger_structure),
    ("spider-build", chk_spider_build),
    ("spider-fusion", chk_spider_fusion),
    ("id-twist-spider", chk_id_twist_spider),
];

// ------------------------------------------------------------------------------------------------
// helpers (self-contained; duplicated from c03.rs on purpose)
// ------------------------------------------------------------------------------------------------
/// operand: a plain model plus pending same-label identifications
#[derive(Clone, Debug)]
struct Opd {
    m: M,
    q: Vec<(usize, usize)>,
}
impl Opd {
    fn json(&self) -> Value {
        let mut v = self.m.json();
        if !self.q.is_empty() {
            v["q"] = json!(self.q.iter().map(|&(a, b)| vec![a, b]).collect::<Vec<_>>());
        }
        v
    }
    fn from_json(v: &Value) -> Option<Opd> {
        let m = M::from_json(v)?;
        if !m.valid() {
            return None;
        }
        let mut q = vec![];
        if let Some(arr) = v.get("q").and_then(|x| x.as_array()) {
            for p in arr {
                let p = p.as_array()?;
                if p.len() != 2 {
                    return None;
                }
                let (a, b) = (p[0].as_u64()? as usize, p[1].as_u64()? as usize);
                if a >= m.w.len() || b >= m.w.len() || m.w[a] != m.w[b] {
                    return None;
                }
                q.push((a, b));
            }
        }
        Some(Opd { m, q })
    }
    /// the diagram denoted by the operand
    fn sem(&self) -> M {
        quotient(&self.m, &self.q).expect("same-label identifications").0
    }
}

#[derive(Clone)]
enum D {
    S(SOH),
    L(LOH),
}

fn obj(w: &[u8]) -> SF<u8> {
    SemifiniteFunction(VecArray(w.to_vec()))
}

fn build(o: &Opd, lax_repr: bool) -> D {
    if lax_repr {
        let mut l = o.m.to_lax();
        for &(a, b) in &o.q {
            l.unify(lax::NodeId(a), lax::NodeId(b));
        }
        D::L(l)
    } else {
        D::S(o.sem().to_strict())
    }
}

/// raw reading of a library value: the model and the pending identifications, nothing applied
fn d_raw(d: &D) -> Result<(M, Vec<(usize, usize)>), String> {
    match d {
        D::S(s) => strict_wf(s).map(|m| (m, vec![])),
        D::L(l) => {
            let h = &l.hypergraph;
            if h.adjacency.len() != h.edges.len() {
                return Err(format!("lax: {} adjacency entries for {} edges", h.adjacency.len(), h.edges.len()));
            }
            if h.quotient.0.len() != h.quotient.1.len() {
                return Err("lax: quotient lists of different length".into());
            }
            let (m, q) = M::from_lax(l);
            if !m.valid() {
                return Err(format!("lax: node id out of range in {}", m.json()));
            }
            if q.iter().any(|&(a, b)| a >= m.w.len() || b >= m.w.len()) {
                return Err(format!("lax: pending identification out of range {:?}", q));
            }
            Ok((m, q))
        }
    }
}

/// the diagram denoted by a library value (pending identifications applied with the reference quotient)
fn d_model(d: &D) -> Result<M, String> {
    let (m, q) = d_raw(d)?;
    quotient(&m, &q).map(|x| x.0).ok_or_else(|| format!("pending identifications {:?} join different labels in {}", q, m.json()))
}

enum E {
    V(usize),
    Id(Vec<u8>),
    Tw(Vec<u8>, Vec<u8>),
    C(Box<E>, Box<E>),
    T(Box<E>, Box<E>),
    Dg(Box<E>),
}
fn v(i: usize) -> E {
    E::V(i)
}
fn id(w: &[u8]) -> E {
    E::Id(w.to_vec())
}
fn tw(a: &[u8], b: &[u8]) -> E {
    E::Tw(a.to_vec(), b.to_vec())
}
fn c(a: E, b: E) -> E {
    E::C(Box::new(a), Box::new(b))
}
fn t(a: E, b: E) -> E {
    E::T(Box::new(a), Box::new(b))
}
fn dg(a: E) -> E {
    E::Dg(Box::new(a))
}
fn cat(a: &[u8], b: &[u8]) -> Vec<u8> {
    [a, b].concat()
}

fn lib_dagger(d: &D) -> D {
    match d {
        D::S(x) => D::S(<SOH as Spider<VecKind>>::dagger(x)),
        D::L(x) => D::L(<LOH as Spider<VecKind>>::dagger(x)),
    }
}

fn lib_compose(x: &D, y: &D) -> Option<D> {
    Some(match (x, y) {
        (D::S(x), D::S(y)) => D::S(Arrow::compose(x, y)?),
        (D::L(x), D::L(y)) => D::L(Arrow::compose(x, y)?),
        _ => unreachable!(),
    })
}

/// evaluate with the real library (may panic: callers wrap it in `guard`)
fn eval_lib(e: &E, vars: &[D], lax_repr: bool) -> Option<D> {
    Some(match e {
        E::V(i) => vars[*i].clone(),
        E::Id(w) => {
            if lax_repr {
                D::L(<LOH as Arrow>::identity(w.clone()))
            } else {
                D::S(<SOH as Arrow>::identity(obj(w)))
            }
        }
        E::Tw(a, b) => {
            if lax_repr {
                D::L(<LOH as SymmetricMonoidal>::twist(a.clone(), b.clone()))
            } else {
                D::S(<SOH as SymmetricMonoidal>::twist(obj(a), obj(b)))
            }
        }
        E::C(a, b) => {
            let (x, y) = (eval_lib(a, vars, lax_repr)?, eval_lib(b, vars, lax_repr)?);
            lib_compose(&x, &y)?
        }
        E::T(a, b) => {
            let (x, y) = (eval_lib(a, vars, lax_repr)?, eval_lib(b, vars, lax_repr)?);
            match (&x, &y) {
                (D::S(x), D::S(y)) => D::S(Monoidal::tensor(x, y)),
                (D::L(x), D::L(y)) => D::L(Monoidal::tensor(x, y)),
                _ => unreachable!(),
            }
        }
        E::Dg(a) => lib_dagger(&eval_lib(a, vars, lax_repr)?),
    })
}

/// evaluate with the reference operations (definitions)
fn eval_ref(e: &E, vars: &[M]) -> Option<M> {
    Some(match e {
        E::V(i) => vars[*i].clone(),
        E::Id(w) => identity(w),
        E::Tw(a, b) => twist(a, b),
        E::C(a, b) => compose(&eval_ref(a, vars)?, &eval_ref(b, vars)?)?,
        E::T(a, b) => tensor(&eval_ref(a, vars)?, &eval_ref(b, vars)?),
        E::Dg(a) => dagger(&eval_ref(a, vars)?),
    })
}

fn is_lax(input: &Value) -> bool {
    input["repr"].as_str() == Some("lax")
}

/// Evaluate one law; returns true when its hypotheses held (all compositions defined).
fn law(ctx: &mut Ctx, check: &str, name: &str, input: &Value, ops: &[Opd], lhs: &E, rhs: &E) -> bool {
    let lax_repr = is_lax(input);
    let refs: Vec<M> = ops.iter().map(|o| o.sem()).collect();
    let vars: Vec<D> = match guard(|| ops.iter().map(|o| build(o, lax_repr)).collect::<Vec<D>>()) {
        Ok(v) => v,
        Err(p) => {
            ctx.fail(check, "C04.no-panic", input, json!(format!("building the operands: {}", p)), json!("operands are valid"));
            return false;
        }
    };
    let mut got: Vec<Option<M>> = vec![];
    let mut exp: Vec<Option<M>> = vec![];
    for (side, e) in [("lhs", lhs), ("rhs", rhs)] {
        let r = eval_ref(e, &refs);
        let mut mine = None;
        match guard(|| eval_lib(e, &vars, lax_repr)) {
            Err(p) => ctx.fail(check, "C04.no-panic", input, json!(format!("{} {}: panic: {}", name, side, p)), json!("no panic")),
            Ok(x) => {
                if x.is_some() != r.is_some() {
                    ctx.fail(
                        check,
                        &format!("C04.{}-defined", name),
                        input,
                        json!(format!("{}: library {}", side, if x.is_some() { "Some" } else { "None" })),
                        json!(if r.is_some() { "Some (boundary types match)" } else { "None (boundary types differ)" }),
                    );
                }
                if let Some(d) = x {
                    match d_model(&d) {
                        Err(why) => ctx.fail(check, "C04.wf", input, json!(format!("{} {}: {}", name, side, why)), json!("well-formed result")),
                        Ok(m) => {
                            if let Some(r) = &r {
                                if !is_iso(&m, r) {
                                    ctx.fail(check, &format!("C04.{}-ref", name), input, json!({"side": side, "library": m.json()}), r.json());
                                }
                            }
                            mine = Some(m);
                        }
                    }
                }
            }
        }
        got.push(mine);
        exp.push(r);
    }
    if let (Some(rl), Some(rr)) = (&exp[0], &exp[1]) {
        if !is_iso(rl, rr) {
            ctx.fail(check, "C04.oracle-self", input, json!({"law": name, "lhs": rl.json()}), rr.json());
        }
        if let (Some(ml), Some(mr)) = (&got[0], &got[1]) {
            if !is_iso(ml, mr) {
                ctx.fail(check, &format!("C04.{}", name), input, json!({"lhs": ml.json()}), json!({"rhs": mr.json()}));
            }
        }
        true
    } else {
        false
    }
}

fn u8s(v: &Value) -> Option<Vec<u8>> {
    v.as_array()?.iter().map(|x| x.as_u64().map(|y| y as u8)).collect()
}
fn uss(v: &Value) -> Option<Vec<usize>> {
    v.as_array()?.iter().map(|x| x.as_u64().map(|y| y as usize)).collect()
}
fn opds(input: &Value, names: &[&str]) -> Option<Vec<Opd>> {
    names.iter().map(|n| Opd::from_json(&input[*n])).collect()
}

fn ff(table: &[usize], target: usize) -> Option<FF> {
    FiniteFunction::new(VecArray(table.to_vec()), target)
}

/// the library's spider constructor on legs with explicit codomains
fn lib_spider(s: &FF, t: &FF, w: &[u8], lax_repr: bool) -> Option<D> {
    if lax_repr {
        <LOH as Spider<VecKind>>::spider(s.clone(), t.clone(), w.to_vec()).map(D::L)
    } else {
        <SOH as Spider<VecKind>>::spider(s.clone(), t.clone(), obj(w)).map(D::S)
    }
}

fn lib_half_spider(s: &FF, w: &[u8], lax_repr: bool) -> Option<D> {
    if lax_repr {
        <LOH as Spider<VecKind>>::half_spider(s.clone(), w.to_vec()).map(D::L)
    } else {
        <SOH as Spider<VecKind>>::half_spider(s.clone(), obj(w)).map(D::S)
    }
}

/// library source/target types
fn lib_types(d: &D) -> (Vec<u8>, Vec<u8>) {
    match d {
        D::S(x) => (Arrow::source(x).0 .0, Arrow::target(x).0 .0),
        D::L(x) => (Arrow::source(x), Arrow::target(x)),
    }
}

fn discrete(m: &M) -> bool {
    m.x.is_empty() && m.src.is_empty() && m.tgt.is_empty()
}

// ------------------------------------------------------------------------------------------------
// checks
// ------------------------------------------------------------------------------------------------
/// input {"repr","f"}: f† has the interfaces exchanged and everything else untouched; f†† = f
fn chk_dagger(ctx: &mut Ctx, input: &Value) {
    let Some(o) = opds(input, &["f"]) else { return };
    let lax_repr = is_lax(input);
    ctx.case("dagger", input, o[0].m.nontrivial() && o[0].m.s != o[0].m.t);
    let f = match guard(|| build(&o[0], lax_repr)) {
        Ok(f) => f,
        Err(p) => return ctx.fail("dagger", "C04.no-panic", input, json!(format!("building the operand: {}", p)), json!("valid operand")),
    };
    // what the operand looks like inside the library before the call
    let (m0, q0) = match d_raw(&f) {
        Ok(x) => x,
        Err(why) => return ctx.fail("dagger", "C04.wf", input, json!(why), json!("well-formed operand")),
    };
    let d1 = match guard(|| lib_dagger(&f)) {
        Ok(d) => d,
        Err(p) => return ctx.fail("dagger", "C04.no-panic", input, json!(format!("dagger: panic: {}", p)), json!("returns")),
    };
    match d_raw(&d1) {
        Err(why) => ctx.fail("dagger", "C04.wf", input, json!(why), json!("well-formed result")),
        Ok((m1, q1)) => {
            if m1.s != m0.t || m1.t != m0.s {
                ctx.fail("dagger", "C04.dagger-swap", input, json!({"s": m1.s, "t": m1.t}), json!({"s": m0.t, "t": m0.s}));
            }
            if m1.w != m0.w || m1.x != m0.x || m1.src != m0.src || m1.tgt != m0.tgt {
                ctx.fail("dagger", "C04.dagger-untouched", input, m1.json(), dagger(&m0).json());
            }
            if q1 != q0 {
                ctx.fail("dagger", "C04.dagger-untouched", input, json!({"pending": q1}), json!({"pending": q0}));
            }
        }
    }
    // types through the library's own accessors
    match guard(|| (lib_types(&f), lib_types(&d1))) {
        Err(p) => ctx.fail("dagger", "C04.no-panic", input, json!(format!("source/target: panic: {}", p)), json!("returns")),
        Ok(((a, b), (a1, b1))) => {
            if a1 != b || b1 != a {
                ctx.fail("dagger", "C04.dagger-type", input, json!({"source": a1, "target": b1}), json!({"source": b, "target": a}));
            }
        }
    }
    // involution, exactly
    match guard(|| lib_dagger(&d1)) {
        Err(p) => ctx.fail("dagger", "C04.no-panic", input, json!(format!("dagger twice: panic: {}", p)), json!("returns")),
        Ok(d2) => match d_raw(&d2) {
            Err(why) => ctx.fail("dagger", "C04.wf", input, json!(why), json!("well-formed result")),
            Ok((m2, q2)) => {
                if m2 != m0 || q2 != q0 {
                    ctx.fail("dagger", "C04.dagger-involution", input, json!({"m": m2.json(), "pending": q2}), json!({"m": m0.json(), "pending": q0}));
                }
            }
        },
    }
    // and up to isomorphism against the reference
    law(ctx, "dagger", "dagger-involution", input, &o, &dg(dg(v(0))), &v(0));
}

/// input {"repr","f","g"}: (f;g)† ≅ g†;f†  (both undefined when the boundary types differ)
fn chk_dagger_compose(ctx: &mut Ctx, input: &Value) {
    let Some(o) = opds(input, &["f", "g"]) else { return };
    let (f, g) = (o[0].sem(), o[1].sem());
    let hyp = f.target_type() == g.source_type();
    ctx.case("dagger-compose", input, hyp && f.nontrivial() && g.nontrivial());
    law(ctx, "dagger-compose", "dagger-compose", input, &o, &dg(c(v(0), v(1))), &c(dg(v(1)), dg(v(0))));
    // the wrong order must be rejected whenever its types do not match
    law(ctx, "dagger-compose", "dagger-compose-order", input, &o, &c(dg(v(0)), dg(v(1))), &dg(c(v(1), v(0))));
}

/// input {"repr","f","g"}: (f⊗g)† ≅ f†⊗g†
fn chk_dagger_tensor(ctx: &mut Ctx, input: &Value) {
    let Some(o) = opds(input, &["f", "g"]) else { return };
    ctx.case("dagger-tensor", input, o[0].m.nontrivial() && o[1].m.nontrivial());
    law(ctx, "dagger-tensor", "dagger-tensor", input, &o, &dg(t(v(0), v(1))), &t(dg(v(0)), dg(v(1))));
}

/// input {"repr","a","b"}: id† ≅ id, σ(a,b)† ≅ σ(b,a), σ(a,b);σ(a,b)† ≅ id
fn chk_dagger_structure(ctx: &mut Ctx, input: &Value) {
    let (Some(a), Some(b)) = (u8s(&input["a"]), u8s(&input["b"])) else { return };
    ctx.case("dagger-structure", input, !a.is_empty() && !b.is_empty());
    law(ctx, "dagger-structure", "dagger-identity", input, &[], &dg(id(&a)), &id(&a));
    law(ctx, "dagger-structure", "dagger-twist", input, &[], &dg(tw(&a, &b)), &tw(&b, &a));
    law(ctx, "dagger-structure", "twist-unitary", input, &[], &c(tw(&a, &b), dg(tw(&a, &b))), &id(&cat(&a, &b)));
}

/// input {"repr","s","t","w","s_target","t_target"}: spider construction succeeds exactly when both
/// legs land in the node list w
fn chk_spider_build(ctx: &mut Ctx, input: &Value) {
    let (Some(s), Some(tt), Some(w)) = (uss(&input["s"]), uss(&input["t"]), u8s(&input["w"])) else { return };
    let (Some(sc), Some(tc)) = (input["s_target"].as_u64().map(|x| x as usize), input["t_target"].as_u64().map(|x| x as usize)) else { return };
    // the legs must be finite functions in their own right
    let (Some(fs), Some(ft)) = (ff(&s, sc), ff(&tt, tc)) else { return };
    let lax_repr = is_lax(input);
    let n = w.len();
    ctx.case("spider-build", input, n > 0 && s.len() + tt.len() > 0);
    let expected = spider(&s, &tt, &w); // None iff some leg value is outside 0..n
    let codomains_ok = sc == n && tc == n;
    let got = match guard(|| lib_spider(&fs, &ft, &w, lax_repr)) {
        Ok(g) => g,
        Err(p) => return ctx.fail("spider-build", "C04.no-panic", input, json!(format!("spider: panic: {}", p)), json!("Some/None")),
    };
    match (&got, &expected) {
        (Some(_), None) => ctx.fail("spider-build", "C04.spider-reject", input, json!("Some"), json!("None: a leg leaves the node list")),
        (None, Some(e)) if codomains_ok => ctx.fail("spider-build", "C04.spider-accept", input, json!("None"), e.json()),
        // codomain differs from the number of nodes although every value is a node: both answers conform
        (None, _) => {}
        (Some(d), Some(e)) => match d_raw(d) {
            Err(why) => ctx.fail("spider-build", "C04.wf", input, json!(why), e.json()),
            Ok((m, q)) => {
                if !discrete(&m) || !q.is_empty() {
                    ctx.fail("spider-build", "C04.spider-discrete", input, json!({"m": m.json(), "pending": q}), e.json());
                }
                if !is_iso(&m, e) {
                    ctx.fail("spider-build", "C04.spider-legs", input, m.json(), e.json());
                }
                // dagger of a spider is the spider with the legs exchanged
                match guard(|| (lib_dagger(d), lib_spider(&ft, &fs, &w, lax_repr))) {
                    Err(p) => ctx.fail("spider-build", "C04.no-panic", input, json!(format!("dagger of spider: panic: {}", p)), json!("returns")),
                    Ok((dd, Some(sw))) => match (d_model(&dd), d_model(&sw)) {
                        (Ok(a), Ok(b)) => {
                            if !is_iso(&a, &b) || !is_iso(&a, &dagger(e)) {
                                ctx.fail("spider-build", "C04.spider-dagger", input, json!({"dagger": a.json(), "swapped": b.json()}), dagger(e).json());
                            }
                        }
                        (Err(why), _) | (_, Err(why)) => ctx.fail("spider-build", "C04.wf", input, json!(why), json!("well-formed")),
                    },
                    Ok((_, None)) => ctx.fail("spider-build", "C04.spider-accept", input, json!("spider(t,s,w) = None although spider(s,t,w) = Some"), dagger(e).json()),
                }
            }
        },
    }
    // half spider: t = identity on the leg's codomain
    let id_t: Vec<usize> = (0..sc).collect();
    if tt == id_t && tc == sc {
        match guard(|| lib_half_spider(&fs, &w, lax_repr)) {
            Err(p) => ctx.fail("spider-build", "C04.no-panic", input, json!(format!("half_spider: panic: {}", p)), json!("Some/None")),
            Ok(h) => match (h, &expected) {
                (Some(_), None) => ctx.fail("spider-build", "C04.spider-reject", input, json!("half_spider: Some"), json!("None")),
                (None, Some(e)) if codomains_ok => ctx.fail("spider-build", "C04.spider-accept", input, json!("half_spider: None"), e.json()),
                (None, _) => {}
                (Some(d), Some(e)) => match d_model(&d) {
                    Err(why) => ctx.fail("spider-build", "C04.wf", input, json!(format!("half_spider: {}", why)), e.json()),
                    Ok(m) => {
                        if !discrete(&m) || !is_iso(&m, e) {
                            ctx.fail("spider-build", "C04.half-spider", input, m.json(), e.json());
                        }
                    }
                },
            },
        }
    }
}

/// the fused spider, from the statement: nodes = classes of w ⊔ w2 under t[i] ~ s2[i], labelled by
/// their members; legs = outer legs mapped into the classes.  None when the shared boundary types differ.
fn fusion_oracle(s: &[usize], t1: &[usize], w: &[u8], s2: &[usize], t2: &[usize], w2: &[u8]) -> Option<M> {
    if t1.len() != s2.len() {
        return None;
    }
    for i in 0..t1.len() {
        if w[t1[i]] != w2[s2[i]] {
            return None;
        }
    }
    let n = w.len();
    let pairs: Vec<(usize, usize)> = (0..t1.len()).map(|i| (t1[i], n + s2[i])).collect();
    let (cls, k) = classes(n + w2.len(), &pairs);
    let mut labels: Vec<Option<u8>> = vec![None; k];
    for i in 0..n + w2.len() {
        let l = if i < n { w[i] } else { w2[i - n] };
        match labels[cls[i]] {
            None => labels[cls[i]] = Some(l),
            Some(l0) => assert_eq!(l0, l, "a class of the shared boundary carries one label"),
        }
    }
    Some(M {
        w: labels.into_iter().map(|l| l.unwrap()).collect(),
        x: vec![],
        src: vec![],
        tgt: vec![],
        s: s.iter().map(|&i| cls[i]).collect(),
        t: t2.iter().map(|&i| cls[n + i]).collect(),
    })
}

/// input {"repr","s","t","w","s2","t2","w2"}: spider(s,t,w) ; spider(s2,t2,w2)
fn chk_spider_fusion(ctx: &mut Ctx, input: &Value) {
    let (Some(s), Some(t1), Some(w)) = (uss(&input["s"]), uss(&input["t"]), u8s(&input["w"])) else { return };
    let (Some(s2), Some(t2), Some(w2)) = (uss(&input["s2"]), uss(&input["t2"]), u8s(&input["w2"])) else { return };
    let (n, n2) = (w.len(), w2.len());
    if s.iter().chain(t1.iter()).any(|&i| i >= n) || s2.iter().chain(t2.iter()).any(|&i| i >= n2) {
        return;
    }
    let lax_repr = is_lax(input);
    let expected = fusion_oracle(&s, &t1, &w, &s2, &t2, &w2);
    let merging = expected.as_ref().map(|e| e.w.len() < n + n2).unwrap_or(false);
    ctx.case("spider-fusion", input, merging);
    let legs = (ff(&s, n).unwrap(), ff(&t1, n).unwrap(), ff(&s2, n2).unwrap(), ff(&t2, n2).unwrap());
    let built = guard(|| (lib_spider(&legs.0, &legs.1, &w, lax_repr), lib_spider(&legs.2, &legs.3, &w2, lax_repr)));
    let (a, b) = match built {
        Err(p) => return ctx.fail("spider-fusion", "C04.no-panic", input, json!(format!("spider: panic: {}", p)), json!("Some")),
        Ok((Some(a), Some(b))) => (a, b),
        Ok(_) => return ctx.fail("spider-fusion", "C04.spider-accept", input, json!("None"), json!("Some: all legs land in the node lists")),
    };
    let got = match guard(|| lib_compose(&a, &b)) {
        Err(p) => return ctx.fail("spider-fusion", "C04.no-panic", input, json!(format!("compose: panic: {}", p)), json!("Some/None")),
        Ok(g) => g,
    };
    match (got, expected) {
        (None, None) => {}
        (Some(_), None) => ctx.fail("spider-fusion", "C04.fusion-defined", input, json!("Some"), json!("None: the shared boundary types differ")),
        (None, Some(e)) => ctx.fail("spider-fusion", "C04.fusion-defined", input, json!("None"), e.json()),
        (Some(d), Some(e)) => match d_model(&d) {
            Err(why) => ctx.fail("spider-fusion", "C04.wf", input, json!(why), e.json()),
            Ok(m) => {
                if !discrete(&m) {
                    ctx.fail("spider-fusion", "C04.fusion-discrete", input, m.json(), e.json());
                }
                let mut lw = m.w.clone();
                let mut ew = e.w.clone();
                lw.sort();
                ew.sort();
                if lw != ew {
                    ctx.fail("spider-fusion", "C04.fusion-nodes", input, json!({"node labels": m.w}), json!({"one node per class": e.w}));
                }
                if !is_iso(&m, &e) {
                    ctx.fail("spider-fusion", "C04.fusion", input, m.json(), e.json());
                }
                // the result is again a spider: constructing it from the fused legs gives the same arrow
                let k = e.w.len();
                match guard(|| lib_spider(&ff(&e.s, k).unwrap(), &ff(&e.t, k).unwrap(), &e.w, lax_repr)) {
                    Err(p) => ctx.fail("spider-fusion", "C04.no-panic", input, json!(format!("spider of fused legs: panic: {}", p)), json!("Some")),
                    Ok(None) => ctx.fail("spider-fusion", "C04.spider-accept", input, json!("None for the fused legs"), e.json()),
                    Ok(Some(f)) => match d_model(&f) {
                        Err(why) => ctx.fail("spider-fusion", "C04.wf", input, json!(why), e.json()),
                        Ok(fm) => {
                            if !is_iso(&fm, &m) {
                                ctx.fail("spider-fusion", "C04.fusion-is-spider", input, m.json(), fm.json());
                            }
                        }
                    },
                }
            }
        },
    }
}

/// input {"repr","a","b"}: id(a) and σ(a,b) are spiders (discrete, with the legs of their definitions)
fn chk_id_twist_spider(ctx: &mut Ctx, input: &Value) {
    let (Some(a), Some(b)) = (u8s(&input["a"]), u8s(&input["b"])) else { return };
    let lax_repr = is_lax(input);
    ctx.case("id-twist-spider", input, !a.is_empty() && !b.is_empty());
    let ab = cat(&a, &b);
    let (na, nb) = (a.len(), b.len());
    let idl: Vec<usize> = (0..na + nb).collect();
    // σ(a,b): the i-th input wire is the wire that leaves at position (i+nb) mod (na+nb)
    let tw_t: Vec<usize> = (na..na + nb).chain(0..na).collect();
    let cases: Vec<(&str, E, Vec<usize>, Vec<usize>, Vec<u8>)> = vec![
        ("identity-is-spider", id(&a), (0..na).collect(), (0..na).collect(), a.clone()),
        ("twist-is-spider", tw(&a, &b), idl.clone(), tw_t, ab.clone()),
    ];
    for (name, e, ls, lt, w) in cases {
        let n = w.len();
        let got = guard(|| (eval_lib(&e, &[], lax_repr), lib_spider(&ff(&ls, n).unwrap(), &ff(&lt, n).unwrap(), &w, lax_repr)));
        match got {
            Err(p) => ctx.fail("id-twist-spider", "C04.no-panic", input, json!(format!("{}: panic: {}", name, p)), json!("returns")),
            Ok((Some(x), Some(y))) => match (d_raw(&x), d_model(&y)) {
                (Ok((mx, qx)), Ok(my)) => {
                    let e_m = M { w: w.clone(), x: vec![], src: vec![], tgt: vec![], s: ls.clone(), t: lt.clone() };
                    if !discrete(&mx) || !qx.is_empty() {
                        ctx.fail("id-twist-spider", &format!("C04.{}-discrete", name), input, json!({"m": mx.json(), "pending": qx}), e_m.json());
                    }
                    if !is_iso(&mx, &my) || !is_iso(&mx, &e_m) {
                        ctx.fail("id-twist-spider", &format!("C04.{}", name), input, json!({"arrow": mx.json(), "spider": my.json()}), e_m.json());
                    }
                }
                (Err(why), _) | (_, Err(why)) => ctx.fail("id-twist-spider", "C04.wf", input, json!(format!("{}: {}", name, why)), json!("well-formed")),
            },
            Ok(_) => ctx.fail("id-twist-spider", "C04.spider-accept", input, json!(format!("{}: None", name)), json!("Some")),
        }
    }
}

// ------------------------------------------------------------------------------------------------
// generators
// ------------------------------------------------------------------------------------------------
fn sp(w: Vec<u8>, s: Vec<usize>, t: Vec<usize>) -> M {
    M { w, x: vec![], src: vec![], tgt: vec![], s, t }
}

fn corners() -> Vec<M> {
    let mut v = corner_models();
    v.extend(vec![
        sp(vec![0, 0, 1], vec![0, 1, 2], vec![1, 0, 2]),
        sp(vec![0], vec![0, 0], vec![0, 0]),
        sp(vec![0], vec![], vec![0, 0]),
        sp(vec![0], vec![0, 0], vec![]),
        sp(vec![0, 0], vec![0, 1], vec![0, 0]),
        sp(vec![0, 0], vec![0], vec![0, 1]),
        sp(vec![0, 1, 0], vec![0], vec![2]),
        M { w: vec![0, 0], x: vec![10; 5], src: vec![vec![0]; 5], tgt: vec![vec![1]; 5], s: vec![0], t: vec![1] },
        M { w: vec![0], x: vec![10], src: vec![vec![0; 5]], tgt: vec![vec![0; 5]], s: vec![0; 4], t: vec![0; 4] },
        M { w: vec![0, 0], x: vec![10, 11], src: vec![vec![0], vec![0]], tgt: vec![vec![1], vec![1]], s: vec![0], t: vec![1, 1] },
        M { w: vec![0, 0, 0], x: vec![10, 10, 11], src: vec![vec![0], vec![1], vec![2]], tgt: vec![vec![1], vec![2], vec![0]], s: vec![0, 1], t: vec![2, 0] },
        M { w: vec![1], x: vec![10, 11], src: vec![vec![], vec![]], tgt: vec![vec![], vec![0]], s: vec![0], t: vec![0] },
        // an edge whose sources and targets differ, and a palindromic interface: a dagger that also
        // reversed the hyperedges, or that reversed the interface lists, would show here
        M { w: vec![0, 1, 1], x: vec![10], src: vec![vec![0, 1]], tgt: vec![vec![2]], s: vec![0, 1, 1], t: vec![2, 1] },
        twist(&[0, 1], &[1]),
        sp(vec![0, 0], vec![0], vec![0; 8]),
        sp(vec![0, 0], vec![0; 8], vec![1, 0]),
    ]);
    v
}

fn binomial_pairs(m: usize, levels: &[usize]) -> (Vec<usize>, Vec<usize>) {
    let (mut a, mut b) = (vec![], vec![]);
    for &l in levels {
        if l == 0 {
            for i in 0..m {
                a.push(i);
                b.push(i);
            }
        } else {
            let step = 1usize << l;
            let mut j = 0;
            while j + step / 2 < m {
                a.push(j);
                b.push(j + step / 2);
                j += step;
            }
        }
    }
    (a, b)
}

fn random_q(r: &mut Rng, m: &M) -> Vec<(usize, usize)> {
    let n = m.w.len();
    let mut q = vec![];
    if n == 0 {
        return q;
    }
    for _ in 0..r.below(3) {
        let a = r.below(n);
        let cands: Vec<usize> = (0..n).filter(|&i| m.w[i] == m.w[a]).collect();
        q.push((a, cands[r.below(cands.len())]));
    }
    q
}

fn rand_opd(r: &mut Rng, b: Bounds, ty: Option<&[u8]>, lax_repr: bool) -> Opd {
    let m = match ty {
        Some(ty) => random_model_with_source(r, b, ty),
        None => random_model(r, b),
    };
    let q = if lax_repr && r.chance(1, 2) { random_q(r, &m) } else { vec![] };
    Opd { m, q }
}

fn all_maps(n: usize, maxlen: usize) -> Vec<Vec<usize>> {
    let mut out = vec![vec![]];
    if n == 0 {
        return out;
    }
    let mut layer: Vec<Vec<usize>> = vec![vec![]];
    for _ in 0..maxlen {
        let mut next = vec![];
        for l in &layer {
            for x in 0..n {
                let mut l2 = l.clone();
                l2.push(x);
                next.push(l2);
            }
        }
        out.extend(next.iter().cloned());
        layer = next;
    }
    out
}

/// (s, t, n) for all one-label cospans with n ≤ maxn nodes and legs of length ≤ maxleg
fn all_cospans(maxn: usize, maxleg: usize) -> Vec<(Vec<usize>, Vec<usize>, usize)> {
    let mut out = vec![];
    for n in 0..=maxn {
        let maps = all_maps(n, maxleg);
        for s in &maps {
            for t in &maps {
                out.push((s.clone(), t.clone(), n));
            }
        }
    }
    out
}

fn all_types(maxlen: usize) -> Vec<Vec<u8>> {
    all_maps(2, maxlen).into_iter().map(|l| l.into_iter().map(|x| x as u8).collect()).collect()
}

fn fusion_input(repr: &str, s: &[usize], t: &[usize], w: &[u8], s2: &[usize], t2: &[usize], w2: &[u8]) -> Value {
    json!({"repr": repr, "s": s, "t": t, "w": w, "s2": s2, "t2": t2, "w2": w2})
}

/// random labelled cospan pair with matching boundary types (unless `break_types`)
fn random_fusion(r: &mut Rng, maxn: usize, maxleg: usize, labels: usize) -> (Vec<usize>, Vec<usize>, Vec<u8>, Vec<usize>, Vec<usize>, Vec<u8>) {
    let n = r.range(0, maxn);
    let w: Vec<u8> = (0..n).map(|_| r.below(labels) as u8).collect();
    let n2 = r.range(0, maxn);
    let mut w2: Vec<u8> = (0..n2).map(|_| r.below(labels) as u8).collect();
    let leg = |r: &mut Rng, n: usize| -> Vec<usize> {
        if n == 0 {
            vec![]
        } else {
            let l = r.range(0, maxleg);
            // sometimes confine the leg to a few nodes (non-surjective, highly non-injective)
            let span = if r.chance(1, 3) { r.range(1, n.min(2)) } else { n };
            r.vec_below(l, span)
        }
    };
    let s = leg(r, n);
    let t1 = leg(r, n);
    // shared boundary: choose s2[i] among the nodes of w2 with the label of w[t1[i]] (adding one if needed)
    let mut s2 = vec![];
    for &i in &t1 {
        let cands: Vec<usize> = (0..w2.len()).filter(|&k| w2[k] == w[i]).collect();
        if cands.is_empty() || r.chance(1, 8) {
            w2.push(w[i]);
            s2.push(w2.len() - 1);
        } else {
            s2.push(cands[r.below(cands.len())]);
        }
    }
    let t2 = leg(r, w2.len());
    (s, t1, w, s2, t2, w2)
}

pub fn run(ctx: &mut Ctx) {
    if let Some((name, input)) = ctx.replay.clone() {
        for (n, chk) in CHECKS {
            if *n == name {
                chk(ctx, &input);
            }
        }
        return;
    }
    let thorough = ctx.thorough();
    let cs = corners();
    let j = |m: &M| m.json();

    for repr in ["strict", "lax"] {
        let lax_repr = repr == "lax";

        // ---------------- dagger laws: corners (all pairs), deep merges, random -------------------------
        for f in &cs {
            chk_dagger(ctx, &json!({"repr": repr, "f": j(f)}));
            for g in &cs {
                chk_dagger_compose(ctx, &json!({"repr": repr, "f": j(f), "g": j(g)}));
                chk_dagger_tensor(ctx, &json!({"repr": repr, "f": j(f), "g": j(g)}));
            }
        }
        // a lax operand with pending identifications (also joining the two interfaces)
        chk_dagger(ctx, &json!({"repr": repr, "f": {"w": [0, 0, 1, 0], "x": [10], "src": [[0, 2]], "tgt": [[3]], "s": [0, 2], "t": [3, 1, 1], "q": [[3, 1], [0, 0]]}}));
        let tys = all_types(if thorough { 3 } else { 2 });
        for a in &tys {
            for b in &tys {
                chk_dagger_structure(ctx, &json!({"repr": repr, "a": a, "b": b}));
                chk_id_twist_spider(ctx, &json!({"repr": repr, "a": a, "b": b}));
            }
        }
        chk_dagger_structure(ctx, &json!({"repr": repr, "a": [0, 1, 0, 0, 1, 1, 0], "b": [1, 1, 0, 1, 0]}));
        chk_id_twist_spider(ctx, &json!({"repr": repr, "a": [0, 1, 0, 0, 1, 1, 0], "b": [1, 1, 0, 1, 0]}));
        for (l1, l2) in [(vec![0usize, 1, 2, 3, 4, 5], vec![0usize]), (vec![5, 4, 3, 2, 1, 0], vec![1, 3, 5]), (vec![1, 2], vec![0, 3, 4, 5])] {
            let m = 32;
            let (ft, gs) = binomial_pairs(m, &l1);
            let (gt, _) = binomial_pairs(m, &l2);
            let f = sp(vec![0; m], vec![0, m - 1, 5], ft);
            let mut g = sp(vec![0; m], gs, gt);
            g.x = vec![10];
            g.src = vec![vec![3, 31]];
            g.tgt = vec![vec![16]];
            chk_dagger_compose(ctx, &json!({"repr": repr, "f": j(&f), "g": j(&g)}));
            chk_dagger_tensor(ctx, &json!({"repr": repr, "f": j(&f), "g": j(&g)}));
            chk_dagger(ctx, &json!({"repr": repr, "f": j(&g)}));
        }
        let n = ctx.budget(4000, 120000);
        for i in 0..n {
            let b = if i % 4 == 0 { MEDIUM } else { SMALL };
            let f = rand_opd(&mut ctx.rng, b, None, lax_repr);
            let fty = f.sem().target_type();
            let chain = ctx.rng.chance(3, 4);
            let g = rand_opd(&mut ctx.rng, b, if chain { Some(&fty) } else { None }, lax_repr);
            chk_dagger_compose(ctx, &json!({"repr": repr, "f": f.json(), "g": g.json()}));
            if i % 3 == 0 {
                chk_dagger(ctx, &json!({"repr": repr, "f": g.json()}));
                chk_dagger_tensor(ctx, &json!({"repr": repr, "f": f.json(), "g": g.json()}));
            }
        }

        // ---------------- spider construction / rejection -----------------------------------------------
        // exhaustive: w ∈ {[], [0], [0,0], [0,1]}, leg tables of length ≤2 over values 0..=2 (2 is never a node),
        // leg codomains n-1, n, n+1 (inputs whose table does not fit its own codomain are not finite functions: skipped)
        let tables = all_maps(3, 2);
        for w in [vec![], vec![0u8], vec![0, 0], vec![0, 1]] {
            let n = w.len();
            for s in &tables {
                for t1 in &tables {
                    for sc in [n.wrapping_sub(1), n, n + 1] {
                        for tc in [n.wrapping_sub(1), n, n + 1] {
                            if sc == usize::MAX || tc == usize::MAX {
                                continue;
                            }
                            chk_spider_build(ctx, &json!({"repr": repr, "s": s, "t": t1, "w": w, "s_target": sc, "t_target": tc}));
                        }
                    }
                }
            }
        }
        // targeted rejections: exactly one bad leg, on either side; empty node list; codomain too small / too large
        for (s, t1, w, sc, tc) in [
            (vec![0usize, 3], vec![0usize, 1], vec![0u8, 1, 0], 4usize, 3usize), // s leaves, t lands
            (vec![0, 1], vec![0, 3], vec![0, 1, 0], 3, 4),                       // t leaves, s lands
            (vec![3], vec![3], vec![0, 1, 0], 4, 4),                             // both leave
            (vec![0], vec![], vec![], 1, 0),                                     // no nodes at all, s has a leg
            (vec![], vec![0], vec![], 0, 1),                                     // no nodes at all, t has a leg
            (vec![], vec![], vec![], 0, 0),                                      // the empty spider
            (vec![], vec![], vec![0, 1], 2, 2),                                  // no legs, two nodes
            (vec![0, 1, 2], vec![0, 1, 2], vec![0, 1, 0], 3, 3),                 // half spider on the identity
            (vec![2, 2, 0, 2], vec![0, 1, 2], vec![0, 1, 0], 3, 3),              // half spider, non-injective, non-surjective
            (vec![1, 1], vec![0, 1], vec![0, 1, 0], 2, 2),                       // codomain 2 < 3 nodes (both answers conform)
            (vec![1, 1], vec![0, 1, 2], vec![0, 1], 3, 3),                       // half-spider shape with a leaving identity leg
            (vec![5, 5, 5, 5, 5, 5, 5, 5], vec![5], vec![0, 0, 0, 0, 0, 1], 6, 6), // multiplicity 8 on the last node
            (vec![5, 6], vec![5], vec![0, 0, 0, 0, 0, 1], 7, 6),                 // off by one past the last node
        ] {
            chk_spider_build(ctx, &json!({"repr": repr, "s": s, "t": t1, "w": w, "s_target": sc, "t_target": tc}));
        }
        let n = ctx.budget(5000, 120000);
        for _ in 0..n {
            let nn = ctx.rng.range(0, 6);
            let w: Vec<u8> = (0..nn).map(|_| ctx.rng.below(2) as u8).collect();
            let leg = |r: &mut Rng| -> (Vec<usize>, usize) {
                let l = r.range(0, 6);
                let bad = r.chance(1, 4);
                let hi = if bad { nn + 2 } else { nn };
                let tab = if hi == 0 { vec![] } else { r.vec_below(l, hi) };
                let need = tab.iter().map(|&x| x + 1).max().unwrap_or(0);
                // codomain: the node count when possible (2/3), otherwise anything that fits the table
                let cod = if need <= nn && r.chance(2, 3) { nn } else { need.max(r.range(0, nn + 2)) };
                (tab, cod)
            };
            let (s, sc) = leg(&mut ctx.rng);
            let (t1, tc) = if ctx.rng.chance(1, 5) { ((0..sc).collect(), sc) } else { leg(&mut ctx.rng) };
            chk_spider_build(ctx, &json!({"repr": repr, "s": s, "t": t1, "w": w, "s_target": sc, "t_target": tc}));
        }

        // ---------------- spider fusion -----------------------------------------------------------------
        // exhaustive, one label: all pairs of cospans with matching boundary length
        let sets: Vec<Vec<(Vec<usize>, Vec<usize>, usize)>> = if thorough { vec![all_cospans(3, 3)] } else { vec![all_cospans(3, 2)] };
        for set in &sets {
            for (s, t1, n) in set {
                for (s2, t2, n2) in set {
                    if t1.len() != s2.len() {
                        continue;
                    }
                    chk_spider_fusion(ctx, &fusion_input(repr, s, t1, &vec![0; *n], s2, t2, &vec![0; *n2]));
                }
            }
        }
        // two labels, exhaustive on 2+2 nodes with w = w2 = [0,1] and legs ≤2: includes every type mismatch
        for (s, t1, _) in all_cospans(2, 2).iter().filter(|c| c.2 == 2) {
            for (s2, t2, _) in all_cospans(2, 2).iter().filter(|c| c.2 == 2) {
                chk_spider_fusion(ctx, &fusion_input(repr, s, t1, &[0, 1], s2, t2, &[0, 1]));
            }
        }
        // corners: multiplicity larger than the node count, s == t non-injective, empty sides
        for (s, t1, w, s2, t2, w2) in [
            (vec![0usize], vec![0usize; 8], vec![0u8], vec![0usize, 1, 0, 1, 0, 1, 0, 1], vec![1usize, 0], vec![0u8, 0]),
            (vec![0, 1], vec![0, 1, 0, 1, 0, 1], vec![0, 0], vec![0, 0, 1, 1, 2, 2], vec![0, 1, 2, 3], vec![0, 0, 0, 0]),
            (vec![0, 1, 2], vec![0, 1, 2], vec![0, 0, 0], vec![0, 0, 0], vec![0, 0, 0], vec![0]),
            (vec![0, 1, 2], vec![0, 1, 2], vec![0, 1, 0], vec![0, 1, 2], vec![2, 1, 0], vec![0, 1, 0]),
            (vec![1], vec![0; 8], vec![0, 0], vec![0; 8], vec![1, 0], vec![0, 0]), // 8 identifications, 4 nodes, 3 classes
            (vec![], vec![], vec![], vec![], vec![], vec![]),
            (vec![], vec![], vec![0, 1], vec![], vec![], vec![1]),
            (vec![0, 0], vec![], vec![0], vec![], vec![0, 0], vec![1]),
            (vec![1], vec![0, 2], vec![0, 1, 0], vec![1, 1], vec![0], vec![1, 0]),
            (vec![0], vec![0, 1], vec![0, 1], vec![0, 0], vec![0], vec![0]), // second boundary wire has the wrong label
        ] {
            chk_spider_fusion(ctx, &fusion_input(repr, &s, &t1, &w, &s2, &t2, &w2));
        }
        // 32+32 nodes merged in binomial-tree order (all prefixes and a reversed order), and a 40+40 path
        let mut level_sets: Vec<Vec<usize>> = (0..=5).map(|k| (0..=k).collect()).collect();
        level_sets.push(vec![5, 4, 3, 2, 1, 0]);
        level_sets.push(vec![1, 2, 3, 4, 5]);
        level_sets.push(vec![0, 2, 4]);
        for ls in &level_sets {
            let m = 32;
            let (t1, s2) = binomial_pairs(m, ls);
            let s: Vec<usize> = (0..m).rev().collect();
            let t2: Vec<usize> = (0..m).step_by(3).collect();
            chk_spider_fusion(ctx, &fusion_input(repr, &s, &t1, &vec![0; m], &s2, &t2, &vec![0; m]));
        }
        {
            let m = 40;
            let t1: Vec<usize> = (0..m - 1).chain(1..m).collect();
            let s2: Vec<usize> = (0..m - 1).chain(0..m - 1).collect();
            chk_spider_fusion(ctx, &fusion_input(repr, &[0, m - 1], &t1, &vec![1; m], &s2, &[m - 1, 0, m - 1], &vec![1; m]));
        }
        // random: two labels, non-injective and non-surjective legs, occasional type mismatch
        let n = ctx.budget(8000, 250000);
        for i in 0..n {
            let (maxn, maxleg) = if i % 5 == 0 { (7, 9) } else { (4, 4) };
            let labels = if i % 3 == 0 { 1 } else { 2 };
            let (s, t1, w, mut s2, t2, mut w2) = random_fusion(&mut ctx.rng, maxn, maxleg, labels);
            if ctx.rng.chance(1, 10) && !w2.is_empty() {
                // break the boundary type: relabel one node of w2, or drop one boundary wire
                if ctx.rng.chance(1, 2) {
                    let k = ctx.rng.below(w2.len());
                    w2[k] ^= 1;
                } else if !s2.is_empty() {
                    s2.pop();
                }
            }
            chk_spider_fusion(ctx, &fusion_input(repr, &s, &t1, &w, &s2, &t2, &w2));
        }
    }
    ctx.notes.push(
        "rule: every check on the strict and the lax representation. dagger: exact comparison of nodes/edges/incidence/pending identifications, interfaces exchanged, involution exact; \
         contravariance and tensor: library sides vs each other and vs reference, model::iso. inputs: corner list (model::corner_models + 14 C04 corners) — every ordered pair; type lists over {0,1} of length ≤2 (quick) / ≤3 (thorough) for id/twist; \
         32+32-node binomial-order merges; random SMALL(3,2,2,3,2)/MEDIUM(5,3,3,4,2) pairs, composable by construction in 3/4 of the cases, 4000/120000 per representation, lax operands with 0-2 pending same-label identifications (prob 1/2, either operand). \
         spider-build: exhaustive w∈{[],[0],[0,0],[0,1]} × leg tables of length ≤2 over values 0..2 × leg codomains {n-1,n,n+1}; 13 targeted rejections; random ≤6 nodes, legs ≤6, a leg leaves the node list with prob 1/4, 5000/120000. \
         expected None iff some leg value is not a node; Some required when both codomains equal the node count; when a codomain differs from the node count but all values are nodes both None and a conforming Some are accepted. \
         spider-fusion: exhaustive one-label cospans ≤3 nodes, legs ≤2 (quick) / ≤3 nodes, legs ≤3 (thorough), all pairs with matching boundary length; exhaustive two-label on w=w2=[0,1], legs ≤2 (includes every type mismatch); \
         multiplicity-8 boundaries, binomial prefixes on 32+32 nodes, 40+40 path; random two-label ≤4 nodes/legs ≤4 (and ≤7/≤9 every fifth), 1/10 with broken boundary types, 8000/250000. \
         non-trivial: dagger = operand has a node and an edge or interface and s != t; laws = hypotheses hold and both operands non-trivial; spider-build = at least one node and one leg entry; fusion = at least two nodes are merged"
            .into(),
    );
}
