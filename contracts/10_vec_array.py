# Layer 0: the Vec backend of the array interface (src/array/vec/vec_array.rs, trait default
# methods of src/array/traits.rs).  Property C07; reused by every other layer.
VA = 'src/array/vec/vec_array.rs'
TR = 'src/array/traits.rs'

module('vec_array', uses=['core::ops::{Deref, DerefMut}', 'vstd::std_specs::cmp::*'])

typedef(VA, 'VecArray')

raw(r'''
impl<T> View for VecArray<T> {
    type V = Seq<T>;
    open spec fn view(&self) -> Seq<T> { self.0@ }
}

// #[derive(Clone)] on VecArray: field-wise clone of the Vec (trusted: derive macro semantics)
impl<T: Clone> Clone for VecArray<T> {
    #[verifier::external_body]
    fn clone(&self) -> (r: Self)
        ensures r@.len() == self@.len(),
            lawful_clone::<T>() ==> r@ == self@,
    { VecArray(self.0.clone()) }
}

impl<T: PartialEq> PartialEqSpecImpl for VecArray<T> {
    open spec fn obeys_eq_spec() -> bool { <Vec<T> as PartialEqSpec>::obeys_eq_spec() }
    open spec fn eq_spec(&self, other: &Self) -> bool { PartialEqSpec::eq_spec(&self.0, &other.0) }
}

/// `==` on the label type is structural equality
pub open spec fn lawful_eq<T: PartialEq>() -> bool {
    &&& T::obeys_eq_spec()
    &&& forall|x: T, y: T| #[trigger] x.eq_spec(&y) <==> x == y
}
''')

group('impl<T: PartialEq> PartialEq for VecArray<T>')
fn(VA, 'eq', trait='PartialEq', self_ty='VecArray', status='P', props=['C07'])
endgroup()

group('impl<T> Deref for VecArray<T>', preamble='    type Target = Vec<T>;\n')
fn(VA, 'deref', trait='Deref', self_ty='VecArray', status='P', props=['C07'],
   ensures=[('C07.deref', 'r@ == self@')])
endgroup()
group('impl<T> DerefMut for VecArray<T>')
fn(VA, 'deref_mut', trait='DerefMut', self_ty='VecArray', status='P', props=['C07'],
   ensures=[('C07.deref_mut', 'r@ == old(self)@'), ('C07.deref_mut-final', 'final(self)@ == final(r)@')])
endgroup()

# ---------------------------------------------------------------------------------------------
# impl Array<VecKind, T> for VecArray<T>
# ---------------------------------------------------------------------------------------------
raw(r'''
pub open spec fn in_bounds(idx: Seq<usize>, n: int) -> bool {
    forall|i: int| 0 <= i < idx.len() ==> (#[trigger] idx[i]) < n
}

/// the last position i < n with idx[i] == j, or -1: "which write to cell j wins"
pub open spec fn last_write(idx: Seq<usize>, j: int, n: int) -> int
    decreases n
{
    if n <= 0 { -1 } else if idx[n - 1] == j { n - 1 } else { last_write(idx, j, n - 1) }
}

pub proof fn lemma_last_write(idx: Seq<usize>, j: int, n: int)
    requires 0 <= n <= idx.len()
    ensures -1 <= last_write(idx, j, n) < n,
        last_write(idx, j, n) >= 0 ==> idx[last_write(idx, j, n)] == j,
        forall|i: int| last_write(idx, j, n) < i < n ==> idx[i] != j,
    decreases n
{
    if n > 0 && idx[n - 1] != j { lemma_last_write(idx, j, n - 1); }
}
''')

group('impl<T: Clone> VecArray<T>')
fn(VA, 'empty', trait='Array', self_ty='VecArray', status='P', props=['C07'],
   ensures=[('C07.empty', 'r@.len() == 0')])
fn(VA, 'len', trait='Array', self_ty='VecArray', status='P', props=['C07'],
   ensures=[('C07.len', 'r == self@.len()')])
fn(TR, 'is_empty', kind='trait', trait='Array', status='P', props=['C07'],
   ensures=[('C07.is_empty', 'r <==> self@.len() == 0'), 'self@.len() <= usize::MAX'])
fn(VA, 'concatenate', trait='Array', self_ty='VecArray', status='P', props=['C07'],
   requires=['self@.len() + other@.len() <= usize::MAX'],
   ensures=[('C07.concatenate-len', 'r@.len() == self@.len() + other@.len()'),
            ('C07.concatenate', 'lawful_clone::<T>() ==> r@ == self@ + other@')])
fn(VA, 'fill', trait='Array', self_ty='VecArray', status='P', props=['C07'],
   ensures=[('C07.fill-len', 'r@.len() == n'),
            ('C07.fill', 'lawful_clone::<T>() ==> forall|i: int| 0 <= i < n ==> r@[i] == x')])
fn(VA, 'get', trait='Array', self_ty='VecArray', status='P', props=['C07'],
   requires=['i < self@.len()'],
   ensures=[('C07.get', 'lawful_clone::<T>() ==> r == self@[i as int]')])
fn(VA, 'gather', trait='Array', self_ty='VecArray', status='P', props=['C07'],
   requires=['in_bounds(idx@, self@.len() as int)'],
   ensures=[('C07.gather-len', 'r@.len() == idx@.len()'),
            ('C07.gather', 'lawful_clone::<T>() ==> forall|i: int| 0 <= i < idx@.len() ==> r@[i] == self@[idx@[i] as int]')],
   # T9 (generic element type: Verus has no spec for collect() into Vec<T> for a type parameter T)
   rules={'t9': True},
   loops={1: {'iter': 'it', 'invariant': [
       'it.seq().len() == idx@.len()',
       'forall|i: int| 0 <= i < idx@.len() ==> *it.seq()[i] == idx@[i]',
       'in_bounds(idx@, self@.len() as int)',
       'vx_v1@.len() == it.index@',
       'lawful_clone::<T>() ==> forall|i: int| 0 <= i < it.index@ ==> vx_v1@[i] == self@[idx@[i] as int]',
   ]}})
fn(VA, 'scatter', trait='Array', self_ty='VecArray', status='P', props=['C07', 'C20'],
   requires=['idx@.len() == self@.len()', 'in_bounds(idx@, n as int)'],
   ensures=[('C07.scatter-len', 'self@.len() > 0 ==> r@.len() == n'),
            ('C07.scatter-empty', 'self@.len() == 0 ==> r@.len() == 0'),
            # every written position holds the value written last; unwritten positions are unspecified (filler)
            ('C07.scatter', 'lawful_clone::<T>() ==> forall|j: int| 0 <= j < r@.len() && #[trigger] last_write(idx@, j, idx@.len() as int) >= 0 '
                            '==> r@[j] == self@[last_write(idx@, j, idx@.len() as int)]'),
            ('C07.scatter-filler!vec', 'lawful_clone::<T>() ==> forall|j: int| 0 <= j < r@.len() && #[trigger] last_write(idx@, j, idx@.len() as int) < 0 '
                            '==> r@[j] == self@[0]')],
   loops={1: {'iter': 'it', 'invariant': [
       'it.seq().len() == self@.len()',
       'forall|i: int| 0 <= i < self@.len() ==> *it.seq()[i] == self@[i]',
       'vx_i1 == it.index@',
       'idx@.len() == self@.len()', 'in_bounds(idx@, n as int)', 'y@.len() == n', 'self@.len() > 0',
       'lawful_clone::<T>() ==> forall|j: int| 0 <= j < n ==> y@[j] == (if #[trigger] last_write(idx@, j, it.index@) >= 0 { self@[last_write(idx@, j, it.index@)] } else { self@[0] })',
       'self@.len() <= usize::MAX',
   ]}},
   proofs=[('before:y[idx[i]] = x.clone()', 'assert(*x == self@[it.index@]);'),
           ('after:y[idx[i]] = x.clone()',
            'assert forall|j: int| 0 <= j < n implies #[trigger] last_write(idx@, j, it.index@ + 1) == (if idx@[it.index@] == j { it.index@ as int } else { last_write(idx@, j, it.index@ as int) }) by {}')])
fn(VA, 'scatter_assign_constant', trait='Array', self_ty='VecArray', status='P', props=['C07'],
   requires=['in_bounds(ixs@, old(self)@.len() as int)'],
   ensures=[('C07.scatter_assign_constant-len', 'final(self)@.len() == old(self)@.len()'),
            ('C07.scatter_assign_constant', 'lawful_clone::<T>() ==> forall|j: int| 0 <= j < old(self)@.len() ==> '
             'final(self)@[j] == (if #[trigger] last_write(ixs@, j, ixs@.len() as int) >= 0 { arg } else { old(self)@[j] })')],
   loops={1: {'iter': 'it', 'invariant': [
       'it.seq().len() == ixs@.len()',
       'forall|i: int| 0 <= i < ixs@.len() ==> *it.seq()[i] == ixs@[i]',
       'in_bounds(ixs@, self@.len() as int)', 'self@.len() == old(self)@.len()',
       'lawful_clone::<T>() ==> forall|j: int| 0 <= j < self@.len() ==> '
       'self@[j] == (if #[trigger] last_write(ixs@, j, it.index@) >= 0 { arg } else { old(self)@[j] })',
   ]}},
   proofs=[('before:self[idx] = arg.clone()', 'let ghost pre = self@; assert(idx == ixs@[it.index@]);'),
           ('after:self[idx] = arg.clone()',
            'assert forall|j: int| 0 <= j < self@.len() implies #[trigger] last_write(ixs@, j, it.index@ + 1) == (if ixs@[it.index@] == j { it.index@ as int } else { last_write(ixs@, j, it.index@ as int) }) by {}')])
fn(VA, 'scatter_assign', trait='Array', self_ty='VecArray', status='P', props=['C07'],
   requires=['in_bounds(ixs@, old(self)@.len() as int)'],
   ensures=[('C07.scatter_assign-len', 'final(self)@.len() == old(self)@.len()'),
            # sequential semantics over the first min(|ixs|,|values|) pairs: the last write wins, the rest is untouched
            ('C07.scatter_assign', 'lawful_clone::<T>() ==> ({ let m = if ixs@.len() <= values@.len() { ixs@.len() } else { values@.len() }; '
             'forall|j: int| 0 <= j < old(self)@.len() ==> '
             'final(self)@[j] == (if #[trigger] last_write(ixs@, j, m as int) >= 0 { values@[last_write(ixs@, j, m as int)] } else { old(self)@[j] }) })')],
   loops={1: {'iter': 'it', 'invariant': [
       'it.seq().len() == (if ixs@.len() <= values@.len() { ixs@.len() } else { values@.len() })',
       'forall|i: int| 0 <= i < it.seq().len() ==> *it.seq()[i].0 == ixs@[i] && *it.seq()[i].1 == values@[i]',
       'in_bounds(ixs@, self@.len() as int)', 'self@.len() == old(self)@.len()',
       'lawful_clone::<T>() ==> forall|j: int| 0 <= j < self@.len() ==> '
       'self@[j] == (if #[trigger] last_write(ixs@, j, it.index@) >= 0 { values@[last_write(ixs@, j, it.index@)] } else { old(self)@[j] })',
   ]}},
   proofs=[('before:self[*i] = x.clone()', 'assert(*i == ixs@[it.index@] && *x == values@[it.index@]);'),
           ('after:self[*i] = x.clone()',
            'assert forall|j: int| 0 <= j < self@.len() implies #[trigger] last_write(ixs@, j, it.index@ + 1) == (if ixs@[it.index@] == j { it.index@ as int } else { last_write(ixs@, j, it.index@ as int) }) by {}')])
endgroup()
